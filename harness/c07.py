"""C07 — grid extrapolation is exact for polynomial grid dependence with 1-6 grid sizes.

T : tools/gen_Extrap.py regenerates Generated/Extrap.lean (k-point formulas, len(pts_l) dispatch, fallback test) from
    dadi/Numerics.py; Props/C07.lean proves exactness / order independence / dispatch / fallback about those definitions.
K : Numerics.<k-point formula> and make_extrap_func (array- and Spectrum-valued, fail_mag integer) vs the exact-rational
    Lean model (ops c07.dispatch / c07.full / c07.argmin), error kinds included.
L3: the property statement evaluated on the real code, independent of the model: value at x=0 of the planted polynomial
    (Neville in exact fractions as the reference), all orderings, log variant, planted fallback entries, labels/mask,
    pts positional vs keyword, counts outside 1..6, extrap_x recorded by from_phi, real demographic models.
    Round 7: labels of Spectrum-valued models entry by entry (l3_labels: masks none / corners / one corner / arbitrary / per grid,
    folded, pop_ids, memoising models, every call twice, finest grid first with a planted fallback entry); T: the mask rule of the
    Spectrum binary-arithmetic template (specArithMask); K: c07.mask (generated formulas run on mask bits) vs the real mask.
    Which x values are used (round 4): an explicit extrap_x_l must decide also when the Spectrum-valued results carry
    another extrap_x or None; without it the results' extrap_x are used; plain arrays / Spectra without extrap_x and no
    explicit list must be refused.  T: the statements assigning x_l are translated (xSelect); K: the x list the real
    formulas receive (recorded) vs the model (c07.xsel), and c07.xdispatch / c07.xfull take the x source as input.
"""
import itertools, math
from fractions import Fraction
import numpy as np
from . import common
from .common import rat, fmt_list, parse_list, close

PROP = 'C07'
GENERATED = ['Extrap']
NEEDS_BUILD = False
NEEDS_DRIVER = True
DRIVER_MODULES = ['Extrap']

AMP_MAX = 1e4          # Lebesgue constant at 0 above which a case is ill-conditioned for float arithmetic
EPS = 2.3e-16

# ----------------------------------------------------------------------------------------------- exact references
def neville0(xs, ys):
    """value at 0 of the polynomial through (xs[i], ys[i]) -- Neville's scheme in exact fractions (the L3 reference; it
    shares nothing with the closed Lagrange formulas of the source or of the Lean model)"""
    xs = [Fraction(x) for x in xs]; p = [Fraction(y) for y in ys]
    n = len(xs)
    for lvl in range(1, n):
        p = [((-xs[i + lvl]) * p[i] - (-xs[i]) * p[i + 1]) / (xs[i] - xs[i + lvl]) for i in range(n - lvl)]
    return p[0]

def lebesgue0(xs):
    """(sum_i |L_i(0)|, [L_i(0)]) exactly"""
    xs = [Fraction(x) for x in xs]
    Ls = []
    for i, xi in enumerate(xs):
        v = Fraction(1)
        for j, xj in enumerate(xs):
            if j != i:
                v *= xj / (xj - xi)
        Ls.append(v)
    return float(sum(abs(v) for v in Ls)), Ls

def coarse(x, bits=22):
    if x == 0: return 0.0
    m, e = math.frexp(float(x))
    return math.ldexp(round(m * (1 << bits)) / (1 << bits), e)

# ----------------------------------------------------------------------------------------------- generators
XKINDS = ['grid', 'grid_shuffled', 'geometric', 'random', 'mixed_sign']

def gen_xs(rng, dadi, k, kind):
    """k distinct x values with the integer `pts` that stand for them"""
    if kind in ('grid', 'grid_shuffled'):
        p0 = int(rng.integers(8, 50)); step = int(rng.integers(2, 14))
        pts = [p0 + i * step for i in range(k)]
        xs = [float(dadi.Numerics.default_grid(p)[1]) for p in pts]
        if kind == 'grid_shuffled':
            o = rng.permutation(k); pts = [pts[i] for i in o]; xs = [xs[i] for i in o]
        return pts, xs
    if kind == 'geometric':
        x0 = float(np.exp(rng.uniform(np.log(1e-4), np.log(0.05)))); r = float(rng.uniform(1.35, 2.5))
        if k > 1: r = min(r, max(1.2, (1.0 / x0) ** (1.0 / (k - 1))))
        xs = [coarse(x0 * r ** i) for i in range(k)]
    elif kind == 'random':
        while True:
            xs = sorted(coarse(v) for v in rng.uniform(0.01, 1.0, k))
            if all(b - a > 0.04 * b for a, b in zip(xs, xs[1:])): break
    else:  # mixed_sign: the formulas do not care about the sign of x
        while True:
            xs = sorted(coarse(v) for v in rng.uniform(-1.0, 1.0, k))
            if all(b - a > 0.08 for a, b in zip(xs, xs[1:])) and all(abs(v) > 0.02 for v in xs): break
    o = rng.permutation(k)
    xs = [xs[i] for i in o]
    pts = [int(v) for v in rng.choice(np.arange(5, 400), size=k, replace=False)]
    return pts, xs

def gen_case(rng, dadi, tier, k=None, **force):
    k = int(rng.integers(1, 7)) if k is None else k
    kind = force.get('xkind') or XKINDS[int(rng.choice(len(XKINDS), p=[0.3, 0.2, 0.2, 0.2, 0.1]))]
    pts, xs = gen_xs(rng, dadi, k, kind)
    valued = force.get('valued') or ('spectrum' if rng.random() < 0.45 else 'array')
    mode = force.get('mode') or ('log' if rng.random() < 0.35 else 'linear')
    if valued == 'spectrum':
        shape = [int(rng.integers(3, 8))] if rng.random() < 0.6 else [int(rng.integers(3, 5)), int(rng.integers(3, 5))]
    else:
        shape = [[1], [int(rng.integers(1, 9))], [2, 3], [0]][int(rng.choice(4, p=[0.15, 0.6, 0.2, 0.05]))]
    if force.get('planted') == 'both':
        shape = [int(rng.integers(5, 9))] if (valued == 'array' or rng.random() < 0.6) else [3, int(rng.integers(3, 5))]
    n = int(np.prod(shape))
    # degree < k: exactness applies; occasionally degree >= k (K and order only)
    if k == 0: deg = 0
    else: deg = int(rng.integers(0, k)) if rng.random() < 0.85 else k + int(rng.integers(0, 2))
    if mode == 'log':
        C = rng.uniform(-2, 2, (deg + 1, n)); C[0] = rng.uniform(-30, 3, n)        # spectra span many decades
    else:
        C = rng.uniform(-3, 3, (deg + 1, n)) * (10.0 ** rng.integers(-2, 3, (deg + 1, 1)))
        C[0] = np.exp(rng.uniform(np.log(1e-3), np.log(50), n)) * rng.choice([1, 1, 1, -1], n)
        if n and rng.random() < 0.2:
            C[0, int(rng.integers(n))] = 0.0                                      # an entry whose limit is exactly 0
    C = np.vectorize(coarse)(C) if C.size else C
    fm = force.get('fail_mag', [None, None, 10, 2, 5, 12, 0, 3.5, 0.75][int(rng.integers(9))])
    planted = []
    if force.get('planted') == 'both' and k >= 2:
        # one entry inside the stated window (must keep its extrapolated value) and one beyond it (must fall back),
        # on entries that are not masked corners
        lo, hi = (1, n - 1) if valued == 'spectrum' else (0, n)
        ids = [int(v) for v in rng.permutation(np.arange(lo, hi))[:2]]
        fmv = 10 if fm is None else fm
        inside = fmv - float(rng.choice([0.4, 1.0, 3.0, 0.45 * fmv, 0.8 * fmv]))
        beyond = fmv + float(rng.choice([0.4, 1.0, 3.0]))
        for idx, d in zip(ids, [inside, beyond] if inside > 0 else [beyond]):
            planted.append((idx, d, int(rng.choice([1, -1]))))
    elif k >= 2 and n >= 1 and rng.random() < (0.6 if 'planted' not in force else force['planted']):
        for _ in range(int(rng.integers(1, 3))):
            idx = int(rng.integers(n))
            if any(p[0] == idx for p in planted): continue
            fmv = 10 if fm is None else fm
            off = float(rng.choice([-3, -1, -0.4, 0.4, 1, 3, 20]))
            planted.append((idx, fmv + off if fmv + off > 0 else fmv + abs(off), int(rng.choice([1, -1]))))
    pts_kw = bool(rng.random() < 0.4)
    # ---- where the x values come from.  `xs` are the x values the grid dependence is polynomial in, i.e. the ones that
    # must be used: given explicitly (then the results may carry the same, other, or no x values) or carried by the results.
    xsrc = force.get('xsrc')
    if xsrc is None:
        if valued == 'array':
            xsrc = 'explicit' if rng.random() < 0.93 else 'absent'
        else:
            xsrc = ['results', 'explicit+same', 'explicit+other', 'explicit+none', 'absent'][int(rng.choice(5, p=[0.32, 0.12, 0.32, 0.17, 0.07]))]
    res_xs = None
    if valued == 'spectrum':
        if xsrc in ('results', 'explicit+same'): res_xs = list(xs)
        elif xsrc == 'explicit+other': res_xs = other_xs(rng, dadi, k, pts, xs, kind)
    return dict(k=k, pts_l=pts, xs=xs, xkind=kind, valued=valued, mode=mode, shape=shape, deg=deg, C=C,
                fail_mag=fm, planted=planted, pts_kw=pts_kw, explicit_x=bool(xsrc.startswith('explicit')), xsrc=xsrc, res_xs=res_xs,
                scale=coarse(float(rng.uniform(0.5, 2.0))), pop_ids=(['A', 'B'][:len(shape)] if rng.random() < 0.7 else None),
                scalar_pts=bool(k == 1 and rng.random() < 0.4), log_wrapper_fail_mag=bool(rng.random() < 0.5),
                # how the grid sizes are handed over: Python ints, numpy integer scalars (elements of an integer array), a tuple, an integer array
                pts_kind=['int', 'np_int', 'tuple', 'np_array'][int(rng.choice(4, p=[0.4, 0.3, 0.15, 0.15]))])

def other_xs(rng, dadi, k, pts, xs, kind):
    """k distinct x values, all different from the explicit ones, for the Spectra to carry: what Spectrum.from_phi would
    record for these pts (when the explicit ones are something else), or unrelated values in another order"""
    if kind not in ('grid', 'grid_shuffled') and rng.random() < 0.5:
        cand = [float(dadi.Numerics.default_grid(p)[1]) for p in pts]
    else:
        while True:
            cand = [coarse(v) for v in rng.uniform(0.005, 1.5, k)]
            if all(abs(a - b) > 0.03 * max(a, b) for i, a in enumerate(cand) for b in cand[i + 1:]): break
    if len(set(cand)) != k or any(abs(c - x) <= 1e-3 * abs(x) for c in cand for x in xs):
        cand = [coarse(abs(x) * (1.37 + 0.61 * i) + 0.011) for i, x in enumerate(xs)]
        if len(set(cand)) != k or any(c == x for c in cand for x in xs):
            cand = [2.0 + i for i in range(k)]
    return cand

def x_tokens(case, order=None):
    """(explicit, attrs) of the driver ops c07.xsel / c07.xdispatch / c07.xfull for this case"""
    order = list(range(case['k'])) if order is None else list(order)
    ex = fmt_list([case['xs'][i] for i in order]) if case['explicit_x'] else 'none'
    if case['valued'] == 'array': at = ['m'] * len(order)
    elif case.get('res_xs') is None: at = ['n'] * len(order)
    else: at = [rat(case['res_xs'][i]) for i in order]
    return ex, (','.join(at) if at else '-')

def tables(case):
    """the float arrays the model function returns for each pts (polynomial / exp-polynomial in x, planted entries
    adjusted on one grid so that the exact extrapolation of that entry lands `d` decades from the best value)"""
    k, xs, C = case['k'], case['xs'], case['C']
    n = int(np.prod(case['shape']))
    P = np.array([[sum(float(C[p, e]) * x ** p for p in range(C.shape[0])) for e in range(n)] for x in xs]).reshape(k, n)
    P = P * case['scale'] if case['mode'] == 'linear' else P
    plant_info = []
    P0 = P.copy()
    if k >= 2 and n:
        amp, Ls = lebesgue0(xs)
        ibest = int(np.argmin(xs))
        j = max(range(k), key=lambda i: (abs(Ls[i]) if i != ibest else -1))       # the grid whose value is adjusted
        for (idx, d, sgn) in case['planted']:
            if case['mode'] == 'linear':
                best = Fraction(float(P[ibest, idx]))
                if best == 0: continue
                # cancellation guard: going d decades *down* needs |ex| >> float error of the sum
                if sgn < 0 and amp * 1e-14 > 0.02 * 10.0 ** (-d): sgn = 1
                target = best * Fraction(10) ** int(round(d * sgn)) if float(d).is_integer() else best * Fraction(10.0 ** (d * sgn))
                rest = sum(Ls[i] * Fraction(float(P[i, idx])) for i in range(k) if i != j)
                P[j, idx] = float((target - rest) / Ls[j])
            else:
                best = Fraction(float(P[ibest, idx]))
                target = best + Fraction(d * sgn * math.log(10.0))
                rest = sum(Ls[i] * Fraction(float(P[i, idx])) for i in range(k) if i != j)
                P[j, idx] = float((target - rest) / Ls[j])
            plant_info.append((idx, d, sgn))
    if case['mode'] == 'log':
        with np.errstate(all='ignore'):
            Y = np.exp(P)
        badcol = ~np.all(np.isfinite(Y) & (Y > 0), axis=0) if n else np.zeros(0, dtype=bool)
        if np.any(badcol):                      # a planted log value left the float range: take the plant back
            P[:, badcol] = P0[:, badcol]
            plant_info = [p for p in plant_info if not badcol[p[0]]]
            with np.errstate(all='ignore'):
                Y = np.exp(P)
    else:
        Y = P
    return Y, plant_info

def make_func(dadi, case, Y, calls=None):
    """the user model: func(scale, pts, shift=0.0) (pts last positional, as documented)"""
    idx = {}
    for i, p in enumerate(case['pts_l']):
        idx.setdefault(p, i)
    shape = tuple(case['shape'])
    def func(scale_arg, pts, shift=0.0):
        if calls is not None: calls.append(pts)
        i = idx[int(pts)]
        a = (Y[i].reshape(shape) * (scale_arg / case['scale']) + shift).copy()
        if case['valued'] == 'spectrum':
            rx = case['res_xs'] if 'xsrc' in case else case['xs']       # replays of older cases: results carry xs
            fs = dadi.Spectrum(a, mask_corners=True, pop_ids=case['pop_ids'], extrap_x=(None if rx is None else rx[i]))
            return fs
        return a
    return func

def call_wrapped(dadi, case, func, order=None, fail_mag='case'):
    k = case['k']
    order = list(range(k)) if order is None else list(order)
    pts = [case['pts_l'][i] for i in order]; xs = [case['xs'][i] for i in order]
    kw = {}
    fm = case['fail_mag'] if fail_mag == 'case' else fail_mag
    if fm is not None: kw['fail_mag'] = fm
    xl = xs if case['explicit_x'] else None
    if case['mode'] == 'log':
        if fm is not None and case.get('log_wrapper_fail_mag') and _log_wrapper_takes_fail_mag(dadi):
            f = dadi.Numerics.make_extrap_log_func(func, extrap_x_l=xl, fail_mag=fm)
        elif fm is not None:    # make_extrap_log_func has no fail_mag argument: same thing through make_extrap_func
            f = dadi.Numerics.make_extrap_func(func, extrap_x_l=xl, extrap_log=True, fail_mag=fm)
        else:
            f = dadi.Numerics.make_extrap_log_func(func, extrap_x_l=xl)
    else:
        f = dadi.Numerics.make_extrap_func(func, extrap_x_l=xl, **kw)
    pk = case.get('pts_kind', 'int')
    if case.get('scalar_pts') and k == 1:
        arg = np.int64(pts[0]) if pk in ('np_int', 'np_array') else pts[0]
    elif pk == 'np_int': arg = [np.int64(v) for v in pts]
    elif pk == 'tuple': arg = tuple(pts)
    elif pk == 'np_array': arg = np.array(pts, dtype=np.int64)
    else: arg = pts
    if case['pts_kw']:
        return f(case['scale'], pts=arg)
    return f(case['scale'], arg)

def _log_wrapper_takes_fail_mag(dadi):
    import inspect
    try:
        return 'fail_mag' in inspect.signature(dadi.Numerics.make_extrap_log_func).parameters
    except (TypeError, ValueError):
        return False

def wname(case):
    return 'make_extrap_log_func' if case['mode'] == 'log' else 'make_extrap_func'

def small(case):
    d = dict(case); d['C'] = np.asarray(case['C']); d['planted'] = [list(p) for p in case['planted']]
    return d

def unmasked(r, case):
    """(flat data of the unmasked entries, flat mask)"""
    if case['valued'] == 'spectrum':
        m = np.ma.getmaskarray(r).ravel()
        return np.asarray(np.ma.getdata(r)).ravel(), m
    return np.asarray(r, dtype=float).ravel(), np.zeros(np.asarray(r).size, dtype=bool)

# ----------------------------------------------------------------------------------------------- one case: L3 + K
def check_case(chk, ctx, case, perms=6):
    dadi = ctx['dadi']; driver = ctx['driver']
    k = case['k']; name = wname(case)
    n = int(np.prod(case['shape']))
    Y, plant_info = tables(case)
    func = make_func(dadi, case, Y)
    key0 = '%s:k=%d' % (name, k)
    xsrc = case.get('xsrc', 'explicit' if case['explicit_x'] else 'results')
    ckey = (k, case['xkind'], case['valued'], case['mode'], case['pts_kw'], xsrc, len(case['shape']),
            case['deg'] < k, bool(plant_info), case['fail_mag'])
    chk.l3(ckey)
    chk.stat('k=%d' % k); chk.stat('x:' + case['xkind']); chk.stat('valued:' + case['valued']); chk.stat('mode:' + case['mode'])
    chk.stat('pts:' + ('keyword' if case['pts_kw'] else 'positional'))
    chk.stat('x_source:%s:%s' % (case['valued'], xsrc))
    chk.stat('fail_mag:%s' % ('default' if case['fail_mag'] is None else case['fail_mag']))
    if plant_info: chk.stat('planted_entries', len(plant_info))
    seen = ctx.setdefault('_sampled', set())
    if (k, case['mode'] == 'log' and k % 2 == 0) not in seen:
      seen.add((k, case['mode'] == 'log' and k % 2 == 0))
      chk.sample(dict(call=name, k=k, pts_l=case['pts_l'], xs=case['xs'], x_kind=case['xkind'], valued=case['valued'],
                    shape=case['shape'], degree=case['deg'], fail_mag=case['fail_mag'], planted=[list(p) for p in plant_info],
                    pts_keyword=case['pts_kw'], x_source=xsrc, extrap_x_of_results=case.get('res_xs')), cap=14)
    # ---- counts outside 1..6
    if k == 0 or k > 6:
        try:
            r = call_wrapped(dadi, case, func)
        except ValueError:
            _k_error(chk, ctx, case, Y, 'ValueError'); return
        except Exception as e:
            chk.fail(key0 + ':' + type(e).__name__, '%s with %d grids raises %r instead of the documented ValueError' % (name, k, e), small(case))
            _k_error(chk, ctx, case, Y, type(e).__name__); return
        chk.fail(key0 + ':accepted', '%s accepted %d grids (documented: between 1 and 6)' % (name, k), small(case)); return
    # ---- no x values anywhere: no explicit list and the results carry none (plain arrays / Spectra with extrap_x None)
    if xsrc == 'absent':
        l3_absent(chk, ctx, case, func, Y, key0); return
    # ---- the call itself
    try:
        with np.errstate(all='ignore'):
            r = call_wrapped(dadi, case, func)
    except Exception as e:
        chk.fail(key0 + ':' + type(e).__name__, '%s with %d grid size(s) %r raises %r' % (name, k, case['pts_l'], e), small(case))
        _k_error(chk, ctx, case, Y, type(e).__name__)
        return
    data, mask = unmasked(r, case)
    if data.size != n:
        chk.fail(key0 + ':shape', 'result has %d entries, model returns %d' % (data.size, n), small(case)); return
    keep = ~mask
    # ---- labels / type / mask
    if case['valued'] == 'spectrum':
        exp_mask = np.ma.getmaskarray(func(case['scale'], case['pts_l'][0])).ravel()
        if not isinstance(r, dadi.Spectrum) or list(r.pop_ids or []) != list(case['pop_ids'] or []) or not np.array_equal(mask, exp_mask):
            chk.fail(key0 + ':labels', 'Spectrum-valued model: type/pop_ids/mask not preserved (%s, %r, mask %r)'
                     % (type(r).__name__, getattr(r, 'pop_ids', None), mask.tolist()), small(case))
    # ---- exact references from the property statement
    amp = 1.0
    if k >= 2:
        amp, Ls = lebesgue0(case['xs'])
    if amp > AMP_MAX:
        chk.k_skipped += 1; chk.stat('skipped_illconditioned'); return
    Yin = Y if case['mode'] == 'linear' else np.log(Y)           # what the formulas are applied to (floats)
    ymax = float(np.max(np.abs(Yin))) if n else 0.0
    ibest = int(np.argmin(case['xs']))
    ex_exact = [neville0(case['xs'], [float(Yin[i, e]) for i in range(k)]) for e in range(n)]
    fm = 10 if case['fail_mag'] is None else case['fail_mag']
    planted_idx = set(p[0] for p in plant_info)
    expect = np.empty(n); fell = np.zeros(n, dtype=bool); unsure = np.zeros(n, dtype=bool)
    for e in range(n):
        exv = ex_exact[e]
        err_abs = 40 * EPS * amp * float(np.max(np.abs(Yin[:, e]))) if k >= 2 else 0.0
        if case['mode'] == 'linear':
            best = Fraction(float(Y[ibest, e]))
            expect[e] = float(exv)
            if k >= 2:
                if best == 0 or exv == 0 or (exv / best) < 0:
                    # the extrapolation is zero / has the other sign than the finest-grid value: "decades apart" is not defined
                    # (IEEE nan/inf for ndarrays, numpy.ma domain masking for Spectrum objects).  Not judged by L3; the ndarray
                    # semantics is compared with the model in K.
                    unsure[e] = True; chk.stat('l3_entries_sign_or_zero')
                else:
                    dec = abs(math.log10(float(exv / best)))
                    rel = err_abs / abs(float(exv))
                    slack = max(1e-6, 3 * rel) / math.log(10) if rel < 0.5 else 1e9
                    if abs(dec - fm) <= slack: unsure[e] = True
                    if dec > fm: fell[e] = True; expect[e] = float(best)
        else:
            bestlog = float(Yin[ibest, e])
            expect[e] = math.exp(float(exv)) if float(exv) < 700 else float('inf')
            if k >= 2:
                dec = abs(float(exv) - bestlog) / math.log(10)
                if abs(dec - fm) <= max(1e-6, 3 * err_abs): unsure[e] = True
                if dec > fm: fell[e] = True; expect[e] = float(Y[ibest, e])
    if plant_info: chk.stat('fallback_expected', int(np.sum(fell & keep & ~unsure)))
    # ---- L3 (a): exactness for polynomial dependence of degree < k, and the fallback rule
    sel = keep & ~unsure
    polynomial = case['deg'] < k
    for e in np.nonzero(sel)[0]:
        got = float(data[e])
        if case['mode'] == 'linear':
            tol = 1e-9 * max(ymax, abs(expect[e])) + (40 * EPS * amp * ymax)
            bad = not (abs(got - expect[e]) <= tol)
            # in addition: value at infinitely fine grid = scale * C[0]
            if polynomial and not fell[e] and e not in planted_idx:
                c0 = float(case['C'][0, e]) * case['scale']
                bad = bad or not (abs(got - c0) <= 1e-9 * max(ymax, abs(c0)) + 200 * EPS * amp * ymax)
        else:
            tolrel = 1e-9 + 200 * EPS * amp * max(ymax, 1.0)
            bad = not (math.isfinite(got) and abs(got - expect[e]) <= tolrel * abs(expect[e]))
            if polynomial and not fell[e] and e not in planted_idx:
                c0 = math.exp(float(case['C'][0, e]))
                bad = bad or not (abs(got - c0) <= tolrel * c0)
        if bad:
            what = 'fallback' if (fell[e] or e in planted_idx) else ('inexact' if polynomial else 'interpolation')
            note = ''
            if xsrc == 'explicit+other' and k >= 2:
                # is it the extrapolation in the x values the Spectra carry instead of the explicit ones?
                alt = float(neville0(case['res_xs'], [float(Yin[i, e]) for i in range(k)]))
                alt = alt if case['mode'] == 'linear' else math.exp(min(alt, 700))
                if math.isfinite(got) and abs(got - alt) <= 1e-6 * max(abs(alt), abs(got)):
                    what = 'x_source'
                    note = '; this is the extrapolation in the extrap_x values carried by the results %r: the explicit extrap_x_l %r was ignored' % (case['res_xs'], case['xs'])
            chk.fail('%s:%s' % (key0, what),
                     '%s with %d grids (x values from: %s): entry %d is %r, expected %r (%s; finest-grid value %r, exact extrapolation %r, fail_mag %r)%s'
                     % (name, k, xsrc, e, got, float(expect[e]), 'falls back to the finest-grid value' if fell[e] else 'value at x=0 of the degree-%d polynomial dependence' % min(case['deg'], k - 1),
                        float(Y[ibest, e]), float(ex_exact[e]) if case['mode'] == 'linear' else math.exp(min(float(ex_exact[e]), 700)), case['fail_mag'], note), small(case))
            break
    # ---- L3 (b): order of the grid list
    orders = list(itertools.permutations(range(k))) if k <= 4 else [tuple(ctx['_rng'].permutation(k)) for _ in range(perms)]
    if k >= 5: orders.append(tuple(reversed(range(k))))
    for o in orders[1:] if k <= 4 else orders:
        chk.l3(None)
        try:
            with np.errstate(all='ignore'):
                r2 = call_wrapped(dadi, case, func, order=o)
        except Exception as e2:
            chk.fail(key0 + ':order:' + type(e2).__name__, '%s raises %r for the ordering %r of the grid list' % (name, e2, [case['pts_l'][i] for i in o]), small(case)); break
        d2, m2 = unmasked(r2, case)
        ok = np.array_equal(m2, mask)
        for e in np.nonzero(sel)[0]:
            if case['mode'] == 'linear':
                ok = ok and abs(d2[e] - data[e]) <= 1e-9 * max(ymax, abs(data[e])) + 80 * EPS * amp * ymax
            else:
                ok = ok and abs(d2[e] - data[e]) <= (1e-9 + 400 * EPS * amp * max(ymax, 1.0)) * abs(data[e])
        if not ok:
            chk.fail(key0 + ':order', '%s: result depends on the order of the grid list (%r vs %r)' % (name, case['pts_l'], [case['pts_l'][i] for i in o]), small(case)); break
        chk.stat('orderings_checked')
    # ---- L3 (c): pts positional vs keyword; extra keyword arguments reach the model; no_extrap
    try:
        alt = dict(case); alt['pts_kw'] = not case['pts_kw']
        with np.errstate(all='ignore'):
            r3 = call_wrapped(dadi, alt, func)
        d3, m3 = unmasked(r3, case)
        if not (np.array_equal(m3, mask) and np.array_equal(d3[keep], data[keep], equal_nan=True)):
            chk.fail(key0 + ':pts_kw', 'pts passed positionally and by keyword give different results', small(case))
    except Exception as e3:
        chk.fail(key0 + ':pts_kw:' + type(e3).__name__, 'pts passed %s raises %r' % ('positionally' if case['pts_kw'] else 'by keyword', e3), small(case))
    # ---- K: implementation vs Lean model
    if driver is not None and driver.ok():
        k_case(chk, ctx, case, Y, Yin, data, keep, amp, ymax)

def _fmt_rows(Yin, cols):
    return ';'.join(fmt_list([float(v) for v in row[cols]]) for row in Yin) if len(Yin) else '-'

def _k_error(chk, ctx, case, Y, impl_exc):
    """the implementation raised: the model must refuse with the same kind of error"""
    driver = ctx['driver']
    if driver is None or not driver.ok(): return
    k = case['k']; n = int(np.prod(case['shape']))
    with np.errstate(all='ignore'):
        Yin = Y if case['mode'] == 'linear' else np.log(Y)
    Yin = np.where(np.isfinite(Yin), Yin, 1.0)       # the values are irrelevant for which error is raised
    ex, at = x_tokens(case)
    if n == 0 or k == 0:
        out = driver.ask('c07.xdispatch %s %s %s' % (ex, at, ';'.join(['1'] * k) if k else '-'))
    else:
        out = driver.ask('c07.xdispatch %s %s %s' % (ex, at, _fmt_rows(Yin, np.arange(n))))
    op = 'dispatch:error'
    if out.startswith('err ') and out[4:].split(':')[0] == impl_exc:
        chk.k_ok(op); chk.stat('error_kind:' + out[4:])
    else:
        chk.k_bad(op, small(case), impl_exc, out, None)

def k_case(chk, ctx, case, Y, Yin, data, keep, amp, ymax):
    dadi = ctx['dadi']; driver = ctx['driver']
    k = case['k']; n = int(np.prod(case['shape']))
    cols = np.nonzero(keep)[0]
    if len(cols) == 0:
        return
    rows = _fmt_rows(Yin, cols); xex, xat = x_tokens(case)
    # (1) dispatch without fallback: the wrapped function with fail_mag = inf
    func = make_func(dadi, case, Y)
    try:
        with np.errstate(all='ignore'):
            r = call_wrapped(dadi, case, func, fail_mag=float('inf'))
        impl = unmasked(r, case)[0][cols]
    except Exception as e:
        impl = None; exc = type(e).__name__
    out = driver.ask('c07.xdispatch %s %s %s' % (xex, xat, rows))
    op = 'dispatch:k=%d' % k
    if impl is None:
        if out.startswith('err ') and out[4:].split(':')[0] == exc: chk.k_ok(op)
        else: chk.k_bad(op, small(case), exc, out, None)
        return
    if not out.startswith('ok '):
        chk.k_bad(op, small(case), impl, out, None); return
    model = np.array([float(v) for v in parse_list(out[3:])])
    tol_abs = 1e-9 * max(ymax, float(np.max(np.abs(model))) if model.size else 0.0)
    if case['mode'] == 'linear':
        err = float(np.max(np.abs(impl - model))) if model.size else 0.0
        ok = np.all(np.isfinite(impl)) and err <= tol_abs
    else:
        with np.errstate(all='ignore'):
            li = np.log(impl)
        fin = model > -700                                        # exp underflows to 0 below
        err = float(np.max(np.abs(li[fin] - model[fin]))) if np.any(fin) else 0.0
        ok = err <= 1e-9 * max(1.0, ymax)
    if ok: chk.k_ok(op)
    else: chk.k_bad(op, small(case), impl, model, err)
    # (2) with fallback, linear mode, whole number of decades
    fm = case['fail_mag']
    fmv = 10 if fm is None else fm
    if case['mode'] == 'linear' and float(fmv).is_integer() and fmv >= 0:
        out = driver.ask('c07.xfull %d %s %s %s' % (int(fmv), xex, xat, rows))
        op = 'full:k=%d' % k
        if not out.startswith('ok '):
            chk.k_bad(op, small(case), data[cols], out, None); return
        parts = out[3:].split(' ')
        mv = np.array([float(v) for v in parse_list(parts[0])])
        near = np.array([c == '1' for c in parts[2].split(',')]) if parts[2] != '-' else np.zeros(0, dtype=bool)
        fb = np.array([c == '1' for c in parts[1].split(',')]) if parts[1] != '-' else np.zeros(0, dtype=bool)
        # an entry whose exact extrapolation is dominated by float cancellation cannot be decided in floats
        exm = model
        cancel = np.array([40 * EPS * amp * float(np.max(np.abs(Yin[:, c]))) > 0.02 * abs(exm[i]) for i, c in enumerate(cols)]) if k >= 2 else np.zeros(len(cols), dtype=bool)
        best = Y[int(np.argmin(case['xs']))][cols] if k >= 2 else mv
        with np.errstate(all='ignore'):
            ratio = np.where(best != 0, exm / np.where(best != 0, best, 1.0), np.inf)
        close_thr = np.zeros(len(cols), dtype=bool)
        for T in (10.0 ** fmv, 10.0 ** (-fmv)):
            close_thr |= np.abs(ratio - T) <= 0.05 * T
        skip = near | (cancel & (close_thr | (np.abs(exm) <= 40 * EPS * amp * ymax)))
        if case['valued'] == 'spectrum' and k >= 2:
            # numpy.ma masks log10 outside its domain and leaves implementation-defined data under the mask
            dom = (best == 0) | (exm == 0) | (ratio < 0)
            chk.stat('k_entries_ma_domain_skipped', int(np.sum(dom & ~skip)))
            skip = skip | dom
        chk.k_skipped += int(np.sum(skip))
        use = ~skip
        impl2 = data[cols]
        err = float(np.max(np.abs(impl2[use] - mv[use]))) if np.any(use) else 0.0
        if np.all(np.isfinite(impl2[use])) and err <= 1e-9 * max(ymax, float(np.max(np.abs(mv))) if mv.size else 0.0):
            chk.k_ok(op); chk.stat('model_fallback_entries', int(np.sum(fb & use)))
        else:
            chk.k_bad(op, small(case), impl2, mv, err)

# ----------------------------------------------------------------------------------------------- no x values anywhere
def l3_absent(chk, ctx, case, func, Y, key0):
    """no explicit extrap_x_l and results without x values: with 2..6 grids there is nothing to extrapolate in, so the call
    must be refused (plain arrays: the documented ValueError) -- never answered with a number; one grid needs no x."""
    dadi = ctx['dadi']; k = case['k']; name = wname(case)
    chk.stat('refusal_cases')
    exc = None; r = None
    try:
        with np.errstate(all='ignore'):
            r = call_wrapped(dadi, case, func)
    except Exception as e:
        exc = e
    if k >= 2:
        if exc is None:
            chk.fail(key0 + ':x_source:accepted', '%s with %d grids, no extrap_x_l and %s: returned a result although no x values are available'
                     % (name, k, 'plain arrays' if case['valued'] == 'array' else 'Spectrum results whose extrap_x is None'), small(case))
        elif case['valued'] == 'array' and not isinstance(exc, ValueError):
            chk.fail(key0 + ':x_source:' + type(exc).__name__, '%s with plain arrays and no extrap_x_l raises %r instead of the documented ValueError' % (name, exc), small(case))
    elif exc is None:
        want = func(case['scale'], case['pts_l'][0])
        d, m = unmasked(r, case); dw, mw = unmasked(want, case)
        if not (np.array_equal(m, mw) and np.allclose(d[~m], dw[~mw], rtol=1e-12, atol=0, equal_nan=True)):
            chk.fail(key0 + ':identity', 'one grid size does not return the model value', small(case))
    if exc is not None:
        _k_error(chk, ctx, case, Y, type(exc).__name__)
    else:
        driver = ctx['driver']
        if driver is not None and driver.ok():
            ex, at = x_tokens(case)
            out = driver.ask('c07.xsel %s %s %d' % (ex, at, k))
            if out.startswith('ok'): chk.k_ok('xsel:accepted')
            else: chk.k_bad('xsel:accepted', small(case), 'no error', out, None)

# ----------------------------------------------------------------------------------------------- K: which x list the formulas receive
def k_xsource(chk, ctx, rng, table, reps):
    """The k-point formulas of the real module are replaced by recorders for one call, so the x list `extrap_func` hands to
    them is observed directly and compared with the model's choice (generated `xSelect` + consumption), for every k = 1..6,
    with/without explicit extrap_x_l, results = plain arrays / Spectra with extrap_x / with extrap_x None / mixtures, both wrappers."""
    dadi = ctx['dadi']; N = dadi.Numerics; driver = ctx['driver']
    if driver is None or not driver.ok(): return
    kinds = ['array', 'val', 'none', 'val+none', 'array+val']
    names = sorted(set(nm for nm, _ in table.values()))
    for rep_ in range(reps):
        for k in range(1, 7):
            for explicit in (False, True):
                for kind in kinds:
                    if '+' in kind and k < 2: continue
                    pts = [int(v) for v in rng.choice(np.arange(5, 200), size=k, replace=False)]
                    vals = [coarse(v) for v in rng.permutation(np.linspace(0.02, 1.0, 2 * k))]
                    xs_e, xs_r = vals[:k], vals[k:]
                    if '+' in kind:
                        a, b = kind.split('+')
                        per = [a, b] + [str(rng.choice([a, b])) for _ in range(k - 2)]
                        per = [per[i] for i in rng.permutation(k)]
                    else:
                        per = [kind] * k
                    at = ','.join('m' if q == 'array' else ('n' if q == 'none' else rat(xs_r[i])) for i, q in enumerate(per))
                    def model(p, _pts=pts, _per=per, _xr=xs_r):
                        i = _pts.index(int(p)); v = np.array([0.0, 1.0 + i, 2.5, 0.0])
                        if _per[i] == 'array': return v
                        return dadi.Spectrum(v, extrap_x=(_xr[i] if _per[i] == 'val' else None))
                    log = bool(rng.random() < 0.5)
                    seen = []
                    def recorder(ys, xs):
                        seen.append(list(xs))
                        [x * 1.0 for x in xs]                 # the formulas do arithmetic with every x
                        return ys[0] * 1.0
                    saved = {nm: getattr(N, nm) for nm in names if hasattr(N, nm)}
                    try:
                        for nm in saved: setattr(N, nm, recorder)
                        xl = list(xs_e) if explicit else None
                        f = N.make_extrap_log_func(model, extrap_x_l=xl) if log else N.make_extrap_func(model, extrap_x_l=xl)
                        with np.errstate(all='ignore'):
                            f(pts)
                        impl = ('ok', seen[-1] if seen else None)
                    except Exception as e:
                        impl = ('err', type(e).__name__)
                    finally:
                        for nm, fn in saved.items(): setattr(N, nm, fn)
                    out = driver.ask('c07.xsel %s %s %d' % (fmt_list(xs_e) if explicit else 'none', at, k))
                    op = 'xsel:k=%d' % k
                    inp = dict(xsel=True, k=k, explicit_extrap_x_l=(xs_e if explicit else None), results=per, results_extrap_x=xs_r, log=log)
                    chk.stat('xsel:%s:%s' % ('explicit' if explicit else 'no_explicit', kind))
                    if impl[0] == 'err':
                        if out.startswith('err ') and out[4:].split(':')[0] == impl[1]: chk.k_ok(op); chk.stat('error_kind:' + out[4:])
                        else: chk.k_bad(op, inp, impl[1], out, None)
                    elif not out.startswith('ok '):
                        chk.k_bad(op, inp, impl[1], out, None)
                    elif impl[1] is None or [Fraction(float(v)) for v in impl[1]] == parse_list(out[3:]):
                        chk.k_ok(op)
                    else:
                        chk.k_bad(op, inp, impl[1], out, None)

def k_binding(chk, ctx):
    """what make_extrap_log_func hands to make_extrap_func: the closure of the real wrapper vs the generated binding"""
    import ast as _ast
    dadi = ctx['dadi']; N = dadi.Numerics; driver = ctx['driver']
    if driver is None or not driver.ok(): return
    out = driver.ask('c07.binding')
    if not out.startswith('ok '):
        chk.k_bad('binding', {}, None, out, None); return
    def model(pts): return np.array([1.0])
    xl = [0.25, 0.5]
    f = N.make_extrap_log_func(model, xl)
    try:
        cells = dict(zip(f.__code__.co_freevars, [c.cell_contents for c in (f.__closure__ or ())]))
    except Exception:
        cells = {}
    given = {'func': model, 'extrap_x_l': xl}
    for ent in out[3:].split(';'):
        p_, v = ent.split('=', 1)
        if p_ not in cells:
            chk.stat('binding_unobservable:' + p_); continue
        if v.startswith('const:'): want = _ast.literal_eval(v[6:])
        elif v.startswith('arg:'):
            nm = v[4:].split('=')[0]
            want = given[nm] if nm in given else _ast.literal_eval(v[4:].split('=', 1)[1])
        else:
            chk.k_bad('binding', dict(binding=out), None, ent, None); continue
        got = cells[p_]
        if (got is want) or (type(got) is type(want) and got == want): chk.k_ok('binding:' + p_)
        else: chk.k_bad('binding:' + p_, dict(binding=out), repr(got), ent, None)

# ----------------------------------------------------------------------------------------------- K on the bare formulas
def k_formulas(chk, ctx, rng, n):
    dadi = ctx['dadi']; driver = ctx['driver']
    if driver is None or not driver.ok(): return {}
    out = driver.ask('c07.table')
    table = {}
    if out.startswith('ok '):
        body = out[3:].split(' ')[0]
        for ent in body.split(';'):
            kk, nm, pts = ent.split(':'); table[int(kk)] = (nm, int(pts))
    chk.notes.append('dispatch table read from the source: ' + out)
    cfg = driver.ask('c07.cfg'); chk.notes.append('glue flags (fallbackMinLen defaultFailMag resultsPerGrid fallbackShape logWrap): ' + cfg)
    for it in range(n):
        for k, (nm, npts) in sorted(table.items()):
            kind = XKINDS[int(rng.integers(len(XKINDS)))]
            _, xs = gen_xs(rng, dadi, k, kind)
            amp, _ = lebesgue0(xs)
            m = int(rng.integers(1, 6))
            ys = [np.vectorize(coarse)(rng.uniform(-5, 5, m) * 10.0 ** rng.integers(-3, 4)) for _ in range(k)]
            f = getattr(dadi.Numerics, nm, None)
            rows = ';'.join(fmt_list(y.tolist()) for y in ys)
            out = driver.ask('c07.dispatch %s %s' % (rows, fmt_list(xs)))
            op = 'formula:' + nm
            inp = dict(formula=nm, xs=xs, ys=[y.tolist() for y in ys])
            if f is None:
                if out.startswith('err NameError'): chk.k_ok(op); chk.stat('error_kind:' + out[4:])
                else: chk.k_bad(op, inp, 'NameError', out, None)
                continue
            if amp > AMP_MAX:
                chk.k_skipped += 1; continue
            try:
                with np.errstate(all='ignore'):
                    impl = np.asarray(f(ys, xs), dtype=float)
            except Exception as e:
                if out.startswith('err ') and out[4:].split(':')[0] == type(e).__name__: chk.k_ok(op)
                else: chk.k_bad(op, inp, repr(e), out, None)
                continue
            if not out.startswith('ok '):
                chk.k_bad(op, inp, impl, out, None); continue
            model = np.array([float(v) for v in parse_list(out[3:])])
            ymax = max(float(np.max(np.abs(y))) for y in ys)
            err = float(np.max(np.abs(impl - model)))
            if err <= 1e-9 * max(ymax, float(np.max(np.abs(model)))): chk.k_ok(op)
            else: chk.k_bad(op, inp, impl, model, err)
    # x list of the wrong length (explicit extrap_x_l): tuple unpacking fails
    for k in (2, 3):
        if k not in table: continue
        nm = table[k][0]; f = getattr(dadi.Numerics, nm, None)
        if f is None: continue
        xs = [0.5, 0.25, 0.125, 0.0625][:k + 1]; ys = [np.array([1.0, 2.0])] * k
        out = driver.ask('c07.dispatch %s %s' % (';'.join(fmt_list(y.tolist()) for y in ys), fmt_list(xs)))
        try:
            f(ys, xs); impl = 'no error'
        except Exception as e:
            impl = type(e).__name__
        if out.startswith('err ') and out[4:].split(':')[0] == impl: chk.k_ok('formula:unpack'); chk.stat('error_kind:' + out[4:])
        else: chk.k_bad('formula:unpack', dict(formula=nm, xs=xs), impl, out, None)
    # numpy.argmin (first minimum wins)
    for it in range(n * 2):
        m = int(rng.integers(1, 8))
        xs = [coarse(v, 6) for v in rng.uniform(0, 1, m)]
        if m > 1 and rng.random() < 0.4: xs[int(rng.integers(m))] = min(xs)
        out = driver.ask('c07.argmin ' + fmt_list(xs))
        if out == 'ok %d' % int(np.argmin(xs)): chk.k_ok('argmin')
        else: chk.k_bad('argmin', dict(xs=xs), int(np.argmin(xs)), out, None)
    return table

# ----------------------------------------------------------------------------------------------- L3 on real models
def l3_real_models(chk, ctx, rng, reps):
    dadi = ctx['dadi']; N = dadi.Numerics
    models = [('Demographics1D.snm', dadi.Demographics1D.snm, lambda: (), (lambda: (int(rng.integers(3, 9)),))),
              ('Demographics1D.two_epoch', dadi.Demographics1D.two_epoch, lambda: (float(rng.uniform(0.3, 3)), float(rng.uniform(0.02, 0.2))),
               (lambda: (int(rng.integers(3, 9)),))),
              ('Demographics2D.split_mig', dadi.Demographics2D.split_mig, lambda: (float(rng.uniform(0.5, 2)), float(rng.uniform(0.5, 2)), float(rng.uniform(0.02, 0.1)), float(rng.uniform(0, 2))),
               (lambda: (int(rng.integers(2, 5)), int(rng.integers(2, 5)))))]
    for rep in range(reps):
        for mname, mf, pgen, nsgen in models:
            params, ns = pgen(), nsgen()
            two = mname.startswith('Demographics2D')
            # extrap_x recorded when sampling from phi = first interior grid point
            pts = int(rng.integers(10, 18)) if two else int(rng.integers(12, 40))
            chk.l3(('extrap_x', mname))
            try:
                fs = mf(params, ns, pts)
                xx = N.default_grid(pts)
                if not (getattr(fs, 'extrap_x', None) == xx[1]):
                    chk.fail('from_phi:extrap_x', '%s(pts=%d).extrap_x is %r, the first interior grid point is %r' % (mname, pts, getattr(fs, 'extrap_x', None), xx[1]),
                             dict(real_model=mname, params=params, ns=ns, pts=pts))
            except Exception as e:
                chk.fail('from_phi:extrap_x:' + type(e).__name__, '%s raises %r' % (mname, e), dict(real_model=mname, params=params, ns=ns, pts=pts)); continue
            for log in (False, True):
                wn = 'make_extrap_log_func' if log else 'make_extrap_func'
                fex = (N.make_extrap_log_func if log else N.make_extrap_func)(mf)
                for k in range(1, 7):
                    p0 = int(rng.integers(10, 14)) if two else int(rng.integers(14, 30))
                    step = int(rng.integers(2, 5)) if two else int(rng.integers(4, 11))
                    pts_l = [p0 + i * step for i in range(k)]
                    inp = dict(real_model=mname, params=params, ns=ns, pts_l=pts_l, log=log)
                    chk.l3(('real', mname, k, log)); chk.stat('real_model_calls')
                    try:
                        r = fex(params, ns, pts_l)
                    except Exception as e:
                        chk.fail('%s:k=%d:%s' % (wn, k, type(e).__name__), '%s(%s) with %d grid sizes %r raises %r' % (wn, mname, k, pts_l, e), inp); continue
                    o = [int(i) for i in rng.permutation(k)]
                    try:
                        r2 = fex(params, ns, pts=[pts_l[i] for i in o])
                    except Exception as e:
                        chk.fail('%s:k=%d:order:%s' % (wn, k, type(e).__name__), '%s(%s) raises %r with pts= keyword / reordered grids' % (wn, mname, e), inp); continue
                    okm = np.array_equal(np.ma.getmaskarray(r), np.ma.getmaskarray(r2))
                    a = np.ma.getdata(r)[~np.ma.getmaskarray(r)]; b = np.ma.getdata(r2)[~np.ma.getmaskarray(r)]
                    amp = lebesgue0([float(N.default_grid(p)[1]) for p in pts_l])[0] if k >= 2 else 1.0
                    if not okm or not np.all(np.abs(a - b) <= (1e-9 + 400 * EPS * amp) * np.max(np.abs(a))):
                        chk.fail('%s:k=%d:order' % (wn, k), '%s(%s): result depends on the order of the grid list / on passing pts by keyword' % (wn, mname), inp)
                    if not isinstance(r, dadi.Spectrum) or r.pop_ids != fs.pop_ids or r.shape != fs.shape:
                        chk.fail('%s:k=%d:labels' % (wn, k), '%s(%s): labels/shape not preserved' % (wn, mname), inp)
                    if k >= 2:
                        # an explicit extrap_x_l overrides the extrap_x that from_phi recorded on these Spectra: the result must be the
                        # Lagrange value at 0 of the raw per-grid spectra in the explicit x values (exact weights, float combination)
                        x_exp = [coarse(1.0 / p) for p in pts_l]
                        ampx, Lsx = lebesgue0(x_exp)
                        chk.l3(('real_explicit', mname, k, log))
                        try:
                            fexx = (N.make_extrap_log_func if log else N.make_extrap_func)(mf, extrap_x_l=x_exp)
                            rx = fexx(params, ns, pts_l)
                            raw = fexx(params, ns, pts_l, no_extrap=True)
                        except Exception as e:
                            chk.fail('%s:k=%d:x_source:%s' % (wn, k, type(e).__name__), '%s(%s, extrap_x_l=%r) raises %r' % (wn, mname, x_exp, e), inp); continue
                        if ampx <= AMP_MAX:
                            stack = np.array([np.ma.getdata(q) for q in raw], dtype=float)
                            W = np.array([float(L) for L in Lsx])
                            use = ~np.ma.getmaskarray(r)
                            with np.errstate(all='ignore'):
                                if log:
                                    use = use & np.all(stack > 0, axis=0)
                                    ref = np.exp(np.tensordot(W, np.log(np.where(stack > 0, stack, 1.0)), axes=1))
                                    scale_ = ref * (1.0 + np.max(np.abs(np.log(np.where(stack > 0, stack, 1.0))), axis=0))
                                else:
                                    ref = np.tensordot(W, stack, axes=1)
                                    scale_ = np.max(np.abs(stack))
                                best_ = stack[int(np.argmin(x_exp))]
                                use = use & (best_ > 0) & (ref > 0) & (np.abs(np.log10(np.where((ref > 0) & (best_ > 0), ref / np.where(best_ > 0, best_, 1.0), 1.0))) < 9.5)
                            gx = np.ma.getdata(rx)
                            if not np.all(np.abs(gx[use] - ref[use]) <= (1e-9 + 400 * EPS * ampx) * (scale_[use] if log else scale_)):
                                chk.fail('%s:k=%d:x_source' % (wn, k), '%s(%s) with the explicit extrap_x_l %r: the result is not the extrapolation of the per-grid spectra in these x values '
                                         '(max deviation %.3g; the spectra carry extrap_x %r)' % (wn, mname, x_exp, float(np.max(np.abs(gx[use] - ref[use]))) if np.any(use) else 0.0,
                                                                                                 [getattr(q, 'extrap_x', None) for q in raw]), inp)
                            chk.stat('real_model_explicit_x')
                    if k == 1:
                        direct = mf(params, ns, pts_l[0])
                        if not np.allclose(np.ma.getdata(direct)[~direct.mask], a, rtol=1e-12, atol=0):
                            chk.fail('%s:k=1:identity' % wn, 'one grid size does not return the model value', inp)

def l3_glue(chk, ctx, rng):
    """documented error for results without extrap_x; no_extrap returns the raw list; the wrapper keeps name/doc"""
    dadi = ctx['dadi']; N = dadi.Numerics
    def model(a, pts):
        "doc of model"
        return np.array([a + 1.0 / pts, 2.0])
    f = N.make_extrap_func(model)
    chk.l3(('glue', 'no_x'))
    try:
        f(1.0, [10, 20]); chk.fail('make_extrap_func:missing_extrap_x:accepted', 'array results without extrap_x and no extrap_x_l were accepted', dict(glue='missing_extrap_x'))
    except ValueError:
        pass
    except Exception as e:
        chk.fail('make_extrap_func:missing_extrap_x:' + type(e).__name__, 'raises %r instead of ValueError' % (e,), dict(glue='missing_extrap_x'))
    chk.l3(('glue', 'no_extrap'))
    g = N.make_extrap_func(model, extrap_x_l=[0.1, 0.05])
    try:
        raw = g(1.0, [10, 20], no_extrap=True)
        if not (isinstance(raw, list) and len(raw) == 2 and np.array_equal(raw[0], model(1.0, 10)) and np.array_equal(raw[1], model(1.0, 20))):
            chk.fail('make_extrap_func:no_extrap', 'no_extrap=True does not return the list of raw results', dict(glue='no_extrap'))
    except Exception as e:
        chk.fail('make_extrap_func:no_extrap:' + type(e).__name__, 'no_extrap=True raises %r' % (e,), dict(glue='no_extrap'))
    if g.__name__ != 'model' or g.__doc__ != model.__doc__:
        chk.fail('make_extrap_func:name_doc', 'wrapper does not keep __name__/__doc__', dict(glue='name_doc'))

# ----------------------------------------------------------------------------------------------- L3: labels of Spectrum-valued models
MASK_KINDS = ['none', 'corners', 'one_corner', 'interior', 'per_grid']

def gen_label_case(rng, dadi, k, mode, valued, mask_kind, **force):
    """A model whose k per-grid results are prepared once (so the SAME object can be handed out on every call): Spectrum-valued
    with a chosen mask (none at all / both corners / one corner / arbitrary entries / another mask on every grid), folded or
    not, pop_ids set, arbitrary numbers (0, negative) under the mask; or plain arrays.  Every unmasked entry depends on x as a
    positive polynomial (exp of a polynomial in log mode) of degree < k; one unmasked entry may be planted beyond fail_mag."""
    kind = force.get('xkind') or ['grid', 'grid_shuffled', 'geometric'][int(rng.integers(3))]
    while True:
        pts, xs = gen_xs(rng, dadi, k, kind)
        if k < 2 or lebesgue0(xs)[0] <= 200: break
    two = bool(rng.random() < 0.5)
    shape = [int(rng.integers(3, 6)), int(rng.integers(3, 6))] if two else [int(rng.integers(4, 9))]
    n = int(np.prod(shape))
    folded = bool(valued == 'spectrum' and force.get('folded', rng.random() < 0.35))
    deg = int(rng.integers(0, k))
    xm = max(abs(x) for x in xs)
    C = [np.vectorize(coarse)(rng.uniform(0.5, 1.5, n))]
    for j in range(1, deg + 1):
        C.append(np.vectorize(coarse)(rng.uniform(-1, 1, n) * (0.6 / k) / xm ** j))     # |sum of the higher terms| <= 0.6 * min C0: positive
    fm = force.get('fail_mag', [None, None, 3, 6][int(rng.integers(4))])
    masks = []
    if valued == 'spectrum':
        corners = [0, n - 1]
        base = np.zeros(n, dtype=bool)
        if mask_kind == 'corners': base[corners] = True
        elif mask_kind == 'one_corner': base[corners[int(rng.integers(2))]] = True
        elif mask_kind == 'interior':
            base[rng.choice(n, size=int(rng.integers(1, max(2, n // 3))), replace=False)] = True
        for i in range(k):
            m = base.copy()
            if mask_kind == 'per_grid':
                m[rng.choice(n, size=int(rng.integers(0, max(2, n // 3))), replace=False)] = True
                if i == 0 and rng.random() < 0.5: m[0] = True
            masks.append([int(v) for v in m])
    order_kinds = ['finest_first', 'coarsest_first', 'random'] if k >= 2 else ['given']
    return dict(labels_case=True, k=k, pts_l=pts, xs=xs, xkind=kind, mode=mode, valued=valued, mask_kind=mask_kind, shape=shape, folded=folded,
                deg=deg, C=[c.tolist() for c in C], fail_mag=fm, masks=masks, pop_ids=(['A', 'B'][:len(shape)] if valued == 'spectrum' else None),
                xsrc=force.get('xsrc') or ('results' if (valued == 'spectrum' and rng.random() < 0.6) else 'explicit'),
                pts_kw=bool(rng.random() < 0.4), memo=bool(force.get('memo', rng.random() < 0.6)),
                plant=(bool(k >= 2 and force.get('plant', rng.random() < 0.6)), float(rng.choice([1.0, 2.0, 4.0])), int(rng.choice([1, -1])), float(rng.random())),
                junk=[coarse(v) for v in rng.uniform(-2, 2, 4)] + [0.0], np_x=bool(rng.random() < 0.5),
                perm=[int(i) for i in rng.permutation(k)])

def label_objects(dadi, case):
    """(the k result objects, masks actually carried (flat, k x n), finest-grid index, Lebesgue constant, planted entry or None,
    value table Yin the formulas see (k x n), expected limit per entry)"""
    k, xs = case['k'], case['xs']; shape = tuple(case['shape']); n = int(np.prod(shape))
    C = [np.array(c, dtype=float) for c in case['C']]
    if case['folded']:                       # folding is linear: fold every coefficient array, the dependence stays polynomial
        C = [np.asarray(np.ma.getdata(dadi.Spectrum(c.reshape(shape), mask_corners=False).fold())).ravel() for c in C]
        fmask = np.ma.getmaskarray(dadi.Spectrum(np.ones(shape), mask_corners=False).fold()).ravel()
    else:
        fmask = np.zeros(n, dtype=bool)
    P = np.array([[sum(float(C[p][e]) * x ** p for p in range(len(C))) for e in range(n)] for x in xs]).reshape(k, n)
    masks = [np.array(m, dtype=bool) | fmask for m in case['masks']] if case['valued'] == 'spectrum' else [np.zeros(n, dtype=bool)] * k
    anym = np.any(masks, axis=0) if k else np.zeros(n, dtype=bool)
    ibest = int(np.argmin(xs)); amp = 1.0; planted = None
    fmv = 10 if case['fail_mag'] is None else case['fail_mag']
    if k >= 2:
        amp, Ls = lebesgue0(xs)
        free = np.nonzero(~anym)[0]
        if case['plant'][0] and len(free):
            # prefer an unmasked corner: that is where a result with another mask than its inputs shows
            cand = [e for e in (0, n - 1) if not anym[e]]
            e = int(cand[0]) if (cand and case['plant'][3] < 0.6) else int(free[int(case['plant'][3] * len(free)) % len(free)])
            d = fmv + case['plant'][1]; sgn = case['plant'][2]
            j = max(range(k), key=lambda i: (abs(Ls[i]) if i != ibest else -1))
            if case['mode'] == 'linear':
                if sgn < 0 and amp * 1e-13 > 0.02 * 10.0 ** (-d): sgn = 1
                best = Fraction(float(P[ibest, e])); target = best * Fraction(10) ** int(round(d * sgn))
            else:
                best = Fraction(float(P[ibest, e])); target = best + Fraction(d * sgn * math.log(10.0))
            rest = sum(Ls[i] * Fraction(float(P[i, e])) for i in range(k) if i != j)
            v = float((target - rest) / Ls[j])
            if case['mode'] == 'log' or v > 0:        # linear mode: all per-grid values stay positive (numpy.ma masks log10 outside its domain)
                P[j, e] = v; planted = e
    Y = np.exp(P) if case['mode'] == 'log' else P.copy()
    limit = np.exp(C[0]) if case['mode'] == 'log' else C[0].copy()
    objs = []
    for i in range(k):
        a = Y[i].copy()
        if case['valued'] == 'spectrum':
            hid = np.nonzero(masks[i])[0]
            a[hid] = [case['junk'][(int(e) + i) % len(case['junk'])] for e in hid]
            a[fmask] = 0.0
            rx = case['xs'][i] if case['xsrc'] == 'results' else None
            if rx is not None and case.get('np_x') and (i + k) % 2 == 0: rx = np.float64(rx)      # from_phi records a numpy scalar
            o = dadi.Spectrum(a.reshape(shape), mask=masks[i].reshape(shape), mask_corners=False, data_folded=case['folded'],
                              check_folding=False, pop_ids=case['pop_ids'], extrap_x=rx)
            masks[i] = np.ma.getmaskarray(o).ravel().copy()
        else:
            o = a.reshape(shape)
        objs.append(o)
    return objs, masks, ibest, amp, planted, (np.log(Y) if case['mode'] == 'log' else Y), Y, limit

def _snapshot(o):
    if isinstance(o, np.ma.MaskedArray):
        return (np.array(np.ma.getdata(o), dtype=float, copy=True), np.ma.getmaskarray(o).copy(), getattr(o, 'folded', None),
                None if getattr(o, 'pop_ids', None) is None else list(o.pop_ids), getattr(o, 'extrap_x', None))
    return (np.array(o, dtype=float, copy=True), None, None, None, None)

def _same_snapshot(a, b):
    return (np.array_equal(a[0], b[0], equal_nan=True) and (a[1] is None) == (b[1] is None) and (a[1] is None or np.array_equal(a[1], b[1]))
            and a[2] == b[2] and a[3] == b[3] and a[4] == b[4])

def check_label_case(chk, ctx, case):
    """L3, from "array- and Spectrum-valued models ... labels are preserved ... independent of the order of the grid list":
    the extrapolated Spectrum is a Spectrum with the folded flag and pop_ids of the model's results, masked exactly where one
    of them is masked, and every other entry (corners included when the model leaves them unmasked) holds the exact limit /
    the finest-grid value for the planted entry -- on a first and on a repeated call, for the finest grid listed first, the
    coarsest first and a random order; the objects the model handed out are not modified (a memoising model hands out the
    same objects again)."""
    dadi = ctx['dadi']; N = dadi.Numerics
    k = case['k']; name = wname(case); key0 = '%s:k=%d' % (name, k)
    shape = tuple(case['shape']); n = int(np.prod(shape))
    import logging
    lg = [logging.getLogger(nm) for nm in ('Spectrum_mod', 'Numerics')]; old = [l.level for l in lg]
    for l in lg: l.setLevel(logging.ERROR)
    try:
        objs, masks, ibest, amp, planted, Yin, Y, limit = label_objects(dadi, case)
    finally:
        for l, lv in zip(lg, old): l.setLevel(lv)
    chk.l3(('labels', k, case['mode'], case['valued'], case['mask_kind'], case['folded'], case['memo'], case['xsrc'], planted is not None, len(shape)))
    chk.stat('labels:mask=%s' % (case['mask_kind'] if case['valued'] == 'spectrum' else 'array')); chk.stat('labels:k=%d' % k)
    chk.stat('labels:' + ('memoising' if case['memo'] else 'fresh_objects')); chk.stat('labels:folded' if case['folded'] else 'labels:unfolded')
    if planted is not None: chk.stat('labels:planted_fallback' + (':corner' if planted in (0, n - 1) else ''))
    exp_mask = np.any(masks, axis=0)
    chk.stat('labels:unmasked_corners', int(case['valued'] == 'spectrum') * int((not exp_mask[0]) + (not exp_mask[n - 1])))
    expect = limit.copy()
    if planted is not None: expect[planted] = Y[ibest, planted]
    ymax = float(np.max(np.abs(Yin[:, ~exp_mask]))) if np.any(~exp_mask) else 0.0
    snaps = [_snapshot(o) for o in objs]
    idx = {}
    for i, p in enumerate(case['pts_l']): idx.setdefault(p, i)
    def model(scale_arg, pts):
        o = objs[idx[int(pts)]]
        if case['memo']: return o
        return o.copy() if not isinstance(o, dadi.Spectrum) else dadi.Spectrum(np.ma.getdata(o).copy(), mask=np.ma.getmaskarray(o).copy(), mask_corners=False,
                                                                               data_folded=o.folded, check_folding=False, pop_ids=o.pop_ids, extrap_x=o.extrap_x)
    small_ = dict(case)
    orders = {'given': list(range(k))}
    if k >= 2:
        rest = [i for i in case['perm'] if i != ibest]
        icoarse = int(np.argmax(case['xs']))
        orders = {'finest_first': [ibest] + rest, 'coarsest_first': [icoarse] + [i for i in case['perm'] if i != icoarse], 'random': list(case['perm'])}
    fmkw = {} if case['fail_mag'] is None else {'fail_mag': case['fail_mag']}
    for oname, o in orders.items():
        pts = [case['pts_l'][i] for i in o]
        xl = [case['xs'][i] for i in o] if case['xsrc'] == 'explicit' else None
        if case['mode'] == 'log' and not fmkw: f = N.make_extrap_log_func(model, extrap_x_l=xl)
        else: f = N.make_extrap_func(model, extrap_x_l=xl, extrap_log=(case['mode'] == 'log'), **fmkw)
        prev = None
        for callno in (1, 2):
            chk.l3(None); chk.stat('labels:calls')
            tag = '%s, %d grids %r (%s), %s model, call #%d' % (name, k, pts, oname, 'memoising' if case['memo'] else 'non-caching', callno)
            try:
                with np.errstate(all='ignore'):
                    r = f(1.0, pts=pts) if case['pts_kw'] else f(1.0, pts)
            except Exception as e:
                chk.fail('%s:labels:%s' % (key0, type(e).__name__), '%s raises %r' % (tag, e), small_); return
            # -- the model's own objects
            if case['memo']:
                for i, (o_, s_) in enumerate(zip(objs, snaps)):
                    if not _same_snapshot(_snapshot(o_), s_):
                        now = _snapshot(o_)
                        what = ('data' if not np.array_equal(now[0], s_[0], equal_nan=True) else 'mask' if (s_[1] is not None and not np.array_equal(now[1], s_[1]))
                                else 'extrap_x %r -> %r' % (s_[4], now[4]) if now[4] != s_[4] else 'folded/pop_ids')
                        chk.fail('%s:labels:model_modified' % key0, '%s: the result object the model returned for pts=%d was modified by the extrapolation (%s)'
                                 % (tag, case['pts_l'][i], what), small_); return
            # -- type and labels
            if case['valued'] == 'spectrum':
                if not isinstance(r, dadi.Spectrum):
                    chk.fail('%s:labels:type' % key0, '%s: result is %s, not a Spectrum' % (tag, type(r).__name__), small_); return
                if list(r.pop_ids or []) != list(case['pop_ids'] or []):
                    chk.fail('%s:labels:pop_ids' % key0, '%s: pop_ids %r, the model gives %r' % (tag, r.pop_ids, case['pop_ids']), small_); return
                if bool(r.folded) != case['folded']:
                    chk.fail('%s:labels:folded' % key0, '%s: folded flag %r, the model gives %r' % (tag, r.folded, case['folded']), small_); return
                got_mask = np.ma.getmaskarray(r).ravel()
                if callno == 1 and r.shape == shape: k_mask(chk, ctx, case, masks, got_mask)
                if r.shape != shape or not np.array_equal(got_mask, exp_mask):
                    extra = np.nonzero(got_mask & ~exp_mask)[0].tolist() if r.shape == shape else None
                    lost = np.nonzero(~got_mask & exp_mask)[0].tolist() if r.shape == shape else None
                    chk.fail('%s:labels:mask' % key0, '%s: the result is not masked exactly where one of the model results is: newly masked flat entries %r '
                             '(of which corners %r), entries that lost their mask %r; masks of the model results per grid %r'
                             % (tag, extra, [e for e in (extra or []) if e in (0, n - 1)], lost, [np.nonzero(m)[0].tolist() for m in masks]), small_); return
                data = np.asarray(np.ma.getdata(r), dtype=float).ravel()
            else:
                if isinstance(r, np.ma.MaskedArray) or np.asarray(r).shape != shape:
                    chk.fail('%s:labels:type' % key0, '%s: result is %s of shape %r' % (tag, type(r).__name__, np.asarray(r).shape), small_); return
                data = np.asarray(r, dtype=float).ravel()
            # -- values of the unmasked entries
            for e in np.nonzero(~exp_mask)[0]:
                got = float(data[e]); want = float(expect[e])
                if case['mode'] == 'linear': okv = abs(got - want) <= 1e-9 * max(ymax, abs(want)) + 200 * EPS * amp * ymax
                else: okv = math.isfinite(got) and abs(got - want) <= (1e-9 + 200 * EPS * amp * max(ymax, 1.0)) * abs(want)
                if not okv:
                    what = 'fallback' if e == planted else 'inexact'
                    chk.fail('%s:labels:%s' % (key0, what), '%s: unmasked entry %d%s is %r, expected %r (%s)'
                             % (tag, e, ' (a corner)' if e in (0, n - 1) else '', got, want,
                                'its exact extrapolation lies %g decades from the finest-grid value %r, fail_mag %r: falls back to the finest-grid value'
                                % ((10 if case['fail_mag'] is None else case['fail_mag']) + case['plant'][1], float(Y[ibest, e]), case['fail_mag'])
                                if e == planted else 'the value at infinitely fine grid of the degree-%d dependence' % case['deg']), small_); return
            # -- the same call again gives the same answer
            if prev is not None and not (np.array_equal(prev[~exp_mask], data[~exp_mask], equal_nan=True)):
                chk.fail('%s:labels:repeat' % key0, '%s: a repeated call returns other values than the first one' % tag, small_); return
            prev = data

def k_mask(chk, ctx, case, masks, got_mask):
    """K: mask bit of every entry class (corner or not x the mask bits of that entry in the k results) -- the real result vs the
    generated dispatch/formulas run on mask bits with the generated Spectrum arithmetic (op c07.mask)"""
    driver = ctx['driver']
    if driver is None or not driver.ok(): return
    n = len(got_mask); memo = ctx.setdefault('_mask_memo', {})
    for e in range(n):
        corner = e in (0, n - 1)
        bits = tuple(int(m[e]) for m in masks)
        if (corner, bits) not in memo:
            memo[(corner, bits)] = driver.ask('c07.mask %d %s' % (int(corner), ','.join(str(b) for b in bits)))
        out = memo[(corner, bits)]
        if out != 'ok %d' % int(got_mask[e]):
            chk.k_bad('mask:k=%d' % case['k'], dict(case), 'entry %d (corner=%s) masks per grid %r -> result mask %d' % (e, corner, list(bits), int(got_mask[e])), out, None); return
    chk.k_ok('mask:k=%d' % case['k']); chk.stat('k_mask_entry_classes', len(set((e in (0, n - 1), tuple(int(m[e]) for m in masks)) for e in range(n))))

def l3_labels(chk, ctx, rng, reps):
    dadi = ctx['dadi']
    for rep in range(reps):
        for k in range(1, 7):
            for mode in ('linear', 'log'):
                for mk in MASK_KINDS:
                    check_label_case(chk, ctx, gen_label_case(rng, dadi, k, mode, 'spectrum', mk))
                check_label_case(chk, ctx, gen_label_case(rng, dadi, k, mode, 'array', 'none'))
            if k >= 2:
                # the two ways an extrapolation that writes into its inputs shows: a memoising model, and the finest grid listed first
                # with an entry that must fall back -- both kinds of model, unmasked corners
                for memo in (True, False):
                    for valued in ('spectrum', 'array'):
                        check_label_case(chk, ctx, gen_label_case(rng, dadi, k, 'linear', valued, 'none', memo=memo, plant=True, folded=False))

# ----------------------------------------------------------------------------------------------- entry points
def run(chk, ctx):
    tier = ctx['tier']; dadi = ctx['dadi']
    rng = common.Rng(ctx['seed'], 'C07'); ctx['_rng'] = rng
    chk.rule = ('cases: k = number of grid sizes in 0..8 (mostly 1..6) x x-values (default_grid(pts)[1] increasing / shuffled, geometric, random, '
                'mixed sign; all distinct) x array- or Spectrum-valued model (1-D/2-D, masked corners, pop_ids, size-0/size-1 arrays) x linear or log '
                'mode x polynomial degree (< k: exactness applies; >= k: order/K only) x fail_mag (default, whole and fractional decades) x pts '
                'positional/keyword/scalar x source of the x values (explicit extrap_x_l with array results / with Spectrum results carrying the same, other or no (None) '
                'extrap_x; extrap_x of the results; none at all = must be refused) x planted entries whose exact extrapolation lies a chosen '
                'number of decades above/below the finest-grid value; every ordering of the grid list for k<=4, random orderings + reversal for k=5,6; '
                'labels sweep: k=1..6 x linear/log x Spectrum-valued models masked nowhere / at both corners / at one corner / at arbitrary entries / differently on every grid '
                '(folded or not, pop_ids, numbers incl. 0 and negatives under the mask, extrap_x float or numpy scalar) and array-valued models, memoising (same object handed out on every '
                'call) or not, an unmasked (corner) entry planted beyond fail_mag, finest grid first / coarsest first / random order, every call made twice; '
                'real models snm/two_epoch/split_mig with k=1..6. non-trivial/distinct = distinct (k, x kind, valued, mode, pts style, x source, rank, '
                'degree<k, planted, fail_mag); re-orderings of one case are counted as evaluations only')
    chk.unproved = ['round-off: theorems are about exact field arithmetic; agreement of the float formulas with them is numerical (K, 1e-9 of the input scale, ill-conditioned x sets skipped)',
                    'log variant: exp/log are real functions in C07_log_k; the float exp/log round trip and the fallback decision in log mode are only searched (L3)',
                    'fallback test for a fractional fail_mag and the IEEE corner cases (ratio <= 0, best = 0) are modelled (K) / searched (L3), the theorem covers positive ratios and whole decades',
                    'labels: the mask of a Spectrum-valued result is proved for the generated formulas run on mask bits with the translated Spectrum arithmetic (C07_mask_union) '
                    'and compared (K, c07.mask); pop_ids, folded flag, Spectrum type, that the fallback step and numpy.ma leave the mask alone, that the model\'s own result objects are '
                    'not modified, pts positional/keyword/scalar, no_extrap: glue, searched by L3 only',
                    'which x values are used: the statements assigning x_l are translated (xSelect, C07_xsource_*/C07_xs_*) and the x list the real formulas receive is compared (K); '
                    'that a TypeError is what arithmetic with None raises is modelled by hand (xValues) and compared in K',
                    'extrap_x recorded by Spectrum.from_phi: checked on real models (L3), not modelled']
    chk.assumptions += ['tools/gen_Extrap.py (closed formulas, dispatch chain and fallback test of dadi/Numerics.py -> polymorphic Lean definitions)']
    nform = 6 if tier == 'quick' else 60
    table = k_formulas(chk, ctx, rng, nform)
    k_xsource(chk, ctx, rng, table, 1 if tier == 'quick' else 12)
    k_binding(chk, ctx)
    # structured sweep first (every k in 1..6 in both modes, both value kinds), then random cases, then edge counts
    cases = []
    for k in range(1, 7):
        for mode in ('linear', 'log'):
            for valued, xsrc in (('array', 'explicit'), ('array', 'absent'), ('spectrum', 'results'), ('spectrum', 'explicit+same'),
                                 ('spectrum', 'explicit+other'), ('spectrum', 'explicit+none'), ('spectrum', 'absent')):
                cases.append(gen_case(rng, dadi, tier, k=k, mode=mode, valued=valued, xsrc=xsrc))
    # the fallback clause for every k >= 2, both modes (log mode with the default fail_mag goes through make_extrap_log_func), the
    # stated default of ten decades and a chosen number: one entry inside the window, one beyond it
    for k in range(2, 7):
        for mode in ('linear', 'log'):
            for fmag in (None, [2, 5, 12, 3.5][int(rng.integers(4))]):
                cases.append(gen_case(rng, dadi, tier, k=k, mode=mode, planted='both', fail_mag=fmag,
                                      xkind=['grid', 'grid_shuffled', 'geometric', 'random'][int(rng.integers(4))],
                                      xsrc=None))
    nrand = 60 if tier == 'quick' else 5000
    for _ in range(nrand):
        cases.append(gen_case(rng, dadi, tier))
    for k in (0, 7, 8):
        for mode in ('linear', 'log'):
            cases.append(gen_case(rng, dadi, tier, k=k, mode=mode, valued='array', planted=0.0, xkind='geometric', xsrc='explicit'))
    for c in cases:
        check_case(chk, ctx, c, perms=4 if tier == 'quick' else 12)
    l3_glue(chk, ctx, rng)
    l3_labels(chk, ctx, rng, 1 if tier == 'quick' else 25)
    l3_real_models(chk, ctx, rng, 1 if tier == 'quick' else 6)

def replay(chk, ctx, data):
    rng = common.Rng(ctx['seed'], 'C07'); ctx['_rng'] = rng
    inp = data.get('input', {})
    if inp.get('labels_case'):
        check_label_case(chk, ctx, inp)
    elif 'pts_l' in inp and 'C' in inp:
        c = dict(inp)
        Cd = inp['C']
        c['C'] = np.array(Cd['data'], dtype=float).reshape(Cd['shape']) if isinstance(Cd, dict) else np.array(Cd, dtype=float)
        c['planted'] = [(int(p[0]), p[1], int(p[2])) for p in inp.get('planted', [])]
        c['fail_mag'] = inp.get('fail_mag')
        check_case(chk, ctx, c)
    elif 'real_model' in inp:
        l3_real_models(chk, ctx, rng, 1)
    elif 'glue' in inp:
        l3_glue(chk, ctx, rng)
    elif 'xsel' in inp or 'binding' in inp:
        table = k_formulas(chk, ctx, rng, 1)
        k_xsource(chk, ctx, rng, table, 2); k_binding(chk, ctx)
    else:
        run(chk, ctx)
