"""C04 — mass leaves only via fixation/loss; frozen and isolated marginals exact; no influx into
frozen/nomut populations; frozen + migration rejected.
K: full sweeps with flags vs the Lean model (shared op with C03).  L3: the identities on the real integrators."""
import numpy as np, math, itertools
from . import common, gen
from .common import close
from .integ_common import *
from .c02_precalc import Recorder

PROP = 'C04'
GENERATED = ['Coeffs']
NEEDS_BUILD = True
DRIVER_MODULES = ['Integ']

def marginal(phi, xx, keep):
    """trapezoid-marginalise every axis not in `keep`"""
    out = phi
    for ax in reversed(range(phi.ndim)):
        if ax not in keep:
            out = np.trapezoid(out, xx, axis=ax)
    return out

def grid_for(dadi, rng, pts, it):
    """grids for the L3 clauses: the default (symmetric) grid one time in three, otherwise grids whose first and last spacings differ;
    one time in four the grid is handed over as a non-contiguous (strided) view of a longer array — the drivers must read every axis'
    grid through their own contiguous copy (seed C04-13: yy, zz aliased the caller's strided array in one driver)"""
    g = _grid_for(dadi, rng, pts, it)
    if it % 4 == 3:
        big = np.empty(2 * len(g)); big[::2] = g; big[1::2] = -7.0
        g = big[::2]
    return g

def _grid_for(dadi, rng, pts, it):
    if it % 3 == 0:
        return dadi.Numerics.default_grid(pts)
    if it % 3 == 1 and hasattr(dadi.Numerics, 'quadratic_grid'):
        try:
            g = np.asarray(dadi.Numerics.quadratic_grid(pts), dtype=float)
            if len(g) == pts and g[0] == 0 and g[-1] == 1: return g
        except Exception:
            pass
    return gen.grid(rng, pts, kind=['asym', 'random', 'dadi-quadratic'][int(rng.integers(3))])[0]

def l3_frozen_marginal(chk, ctx, rng, n):
    dadi = ctx['dadi']
    # every (driver with pre-computed coefficients, frozen population) pair with the Chang-Cooper option on, constant parameters,
    # selection and migration among the others — on every run (seed C04-9: one coefficient block of one driver used delj for 1-delj)
    forced = [(d, k) for d in (2, 3) for k in range(d)]
    # and every (4-/5-population driver, frozen population) pair on a generic density (seed C04-15: a corner guard of ONE axis kernel of the
    # 5-D driver read the wrong loop index, visible only in the marginal of one particular frozen population), on every run
    forced += [(d, k) for d in (4, 5) for k in range(d)]
    for it in range(-len(forced), n):
        fc = forced[it + len(forced)] if it < 0 else None
        d = 2 + it % 4 if fc is None else fc[0]
        pts = {2: 14, 3: 9, 4: 7, 5: 5}[d] + int(rng.integers(0, 2))
        xx = grid_for(dadi, rng, pts, it)
        phi = gen.density(rng, [pts] * d)
        if it % 3 == 2:
            # a density that went through reorder_pops (a transposed view), as demes-built models produce
            perm = [int(x) + 1 for x in rng.permutation(d)]
            phi = dadi.PhiManip.reorder_pops(np.ascontiguousarray(np.transpose(phi, np.argsort([q - 1 for q in perm]))), perm)
        nus, ms, gammas, hs, th, fr, nm = random_model(rng, d, g_max=8)
        if not any(fr):
            k = int(rng.integers(d)); fr[k] = True
            for (i, j) in list(ms):
                if i == k or j == k: ms[(i, j)] = 0.0
        if all(fr): fr[int(rng.integers(d))] = False
        varying = bool((it // 4) % 2)          # independent of d (= 2 + it % 4)
        delj = bool((it // 8) % 2)             # the Chang-Cooper option: both the C kernels and the pre-computed Python coefficients
        if fc is not None:
            varying = False if d <= 3 else bool(fc[1] % 2); delj = d <= 3
            fr = [i == fc[1] for i in range(d)]
            gammas = [float(rng.choice([-1, 1])) * float(rng.uniform(4, 9)) for _ in range(d)]
            for (i, j) in list(ms):
                ms[(i, j)] = 0.0 if (i == fc[1] or j == fc[1]) else float(rng.uniform(0.5, 3))
        T = float(rng.uniform(0.01, 0.1))
        kw = kwargs_for(d, nus, ms, gammas, hs, th, fr, nm)
        if varying:
            free = [i for i in range(d) if not fr[i]][0]
            kw['nu%d' % (free + 1)] = (lambda t, v=nus[free]: v * (1 + 0.5 * math.sin(30 * t)))
        key = 'frozen-marginal:%dD:varying=%s:delj=%s' % (d, varying, delj)
        chk.l3((key, tuple(fr)))
        inp = dict(d=d, pts=pts, frozen=fr, nomut=nm, nus=nus, ms=str(ms), gammas=gammas, hs=hs, theta0=th, T=T, varying=varying, use_delj_trick=delj, phi=phi if phi.size < 400 else None)
        old_delj = dadi.Integration.use_delj_trick
        dadi.Integration.use_delj_trick = delj
        try:
            out = integrate(dadi, d, phi, xx, T, **kw)       # passed as it is (possibly a transposed view); must not be modified
        except Exception as e:
            chk.fail(key + ':raises:' + type(e).__name__, 'integrator raises %r' % (e,), inp); continue
        finally:
            dadi.Integration.use_delj_trick = old_delj
        for k in range(d):
            if not fr[k]: continue
            m0 = marginal(phi, xx, [k]); m1 = marginal(out, xx, [k])
            a, b = m0[1:-1], m1[1:-1]
            err = float(np.max(np.abs(a - b))); scale = float(np.max(np.abs(a)))
            if not (err <= 1e-10 * scale):
                j = int(np.argmax(np.abs(a - b))) + 1
                chk.fail(key + ':pop%d' % (k + 1), 'marginal of frozen population %d changed at interior frequency x[%d]: %.6g -> %.6g' % (k + 1, j, m0[j], m1[j]), inp)

def l3_isolated_marginal(chk, ctx, rng, n, forced=None):
    """no migration, no selection: marginal of any subset S evolves as S integrated alone with the same time steps.
    `forced`: list of (d, k): additionally one case per pair with population k in S and EVERY population of S (and one outside S)
    given its own time-dependent size, so each population's size function of each driver is exercised on every run."""
    dadi = ctx['dadi']; I = dadi.Integration
    old = I.use_old_timestep
    I.use_old_timestep = True       # dt = 0.1*dx[0] for every dimensionality: "the same time steps"
    try:
        cases = [None] * n + list(forced or [])
        for it, fc in enumerate(cases):
            d = 2 + it % 4 if fc is None else fc[0]
            pts = {2: 12, 3: 8, 4: 6, 5: 5}[d] + int(rng.integers(0, 2))
            xx = grid_for(dadi, rng, pts, it)
            phi = gen.density(rng, [pts] * d)
            nus = [gen.loguniform(rng, 0.1, 10) for _ in range(d)]
            fr = [bool(rng.random() < 0.15) for _ in range(d)]
            if all(fr): fr[0] = False
            th = float(rng.uniform(0.3, 3))
            varying = bool((it // 4) % 2) if fc is None else True     # independent of d (= 2 + it % 4)
            T = float(rng.uniform(2, 6)) * 0.1 * (xx[1] - xx[0])
            size = int(rng.integers(1, d))
            S = sorted(int(x) for x in rng.choice(d, size=size, replace=False))
            if fc is not None:
                k = fc[1]; fr[k] = False
                if k not in S: S = sorted(S[:-1] + [k]) if len(S) > 1 else [k]
            zero = [0.0] * d; half = [0.5] * d
            kw = kwargs_for(d, nus, {}, zero, half, th, fr, None)
            kwS = kwargs_for(len(S), [nus[i] for i in S], {}, [0.0] * len(S), [0.5] * len(S), th, [fr[i] for i in S], None)
            if varying and fc is None:
                f = (lambda t, v=nus[S[0]]: v * (1 + 0.5 * math.sin(300 * t)))
                kw['nu%d' % (S[0] + 1)] = f
                kwS['nu' if len(S) == 1 else 'nu1'] = f
            elif varying:
                for j, i in enumerate(S):
                    f = (lambda t, v=nus[i], w=200 + 70 * i: v * (1 + 0.5 * math.sin(w * t)))
                    kw['nu%d' % (i + 1)] = f
                    kwS['nu' if len(S) == 1 else 'nu%d' % (j + 1)] = f
                out = [i for i in range(d) if i not in S]
                if out:
                    kw['nu%d' % (out[0] + 1)] = (lambda t, v=nus[out[0]]: v * (1 + 0.3 * math.cos(150 * t)))
            key = 'isolated-marginal:%dD->%dD:varying=%s' % (d, len(S), varying)
            chk.l3((key, tuple(S), tuple(fr)))
            inp = dict(d=d, S=S, pts=pts, nus=nus, frozen=fr, theta0=th, T=T, varying=varying)
            try:
                full = integrate(dadi, d, phi, xx, T, **kw)
                phiS = np.ascontiguousarray(marginal(phi, xx, S))
                if len(S) == 1 and kwS.get('frozen'):
                    alone = phiS.copy()
                else:
                    alone = integrate(dadi, len(S), phiS.copy(), xx, T, **kwS)
            except Exception as e:
                chk.fail(key + ':raises:' + type(e).__name__, 'integrator raises %r' % (e,), inp); continue
            mS = marginal(full, xx, S)
            inner = tuple(slice(1, -1) for _ in S)
            a, b = mS[inner], alone[inner]
            err = float(np.max(np.abs(a - b))); scale = float(np.max(np.abs(b)))
            if not (err <= 1e-9 * scale):
                chk.fail(key, 'marginal over populations %s of the %d-D run differs from integrating them alone by %.3g (scale %.3g) at interior frequencies' % ([s + 1 for s in S], d, err, scale), inp)
    finally:
        I.use_old_timestep = old


def l3_flag_table(chk, ctx, rng):
    """'Frozen populations and nomut populations receive no new mutations' — exhaustively over the flags: starting from the ZERO
    density (so everything present afterwards is new mutations), without migration, population k's axis line (all other
    frequencies 0) is non-zero iff k is neither frozen nor (2-D) nomut, and nothing lies off the axis lines; constant and
    time-dependent drivers; 2-D: all 16 (frozen1, frozen2, nomut1, nomut2); 3-5-D: all 2^d frozen vectors (5-D: a random half)."""
    dadi = ctx['dadi']
    for d in range(2, 6):
        pts = {2: 9, 3: 7, 4: 6, 5: 5}[d]
        xx = dadi.Numerics.default_grid(pts)
        combos = []
        for bits in range(2 ** d):
            fr = [bool(bits >> i & 1) for i in range(d)]
            if d == 2:
                for nb in range(4): combos.append((fr, [bool(nb & 1), bool(nb >> 1 & 1)]))
            else:
                combos.append((fr, None))
        if d == 5: combos = [c for c in combos if rng.random() < 0.5]
        for fr, nm in combos:
            for varying in (False, True):
                nus = [gen.loguniform(rng, 0.3, 5) for _ in range(d)]
                kw = kwargs_for(d, nus, {}, [0.0] * d, [0.5] * d, 1.0, fr, nm)
                if varying:
                    i0 = int(rng.integers(d))
                    kw['nu%d' % (i0 + 1)] = (lambda t, v=nus[i0]: v * (1 + 0.4 * math.sin(40 * t)))
                key = 'mutation-support:%dD:varying=%s' % (d, varying)
                inp = dict(d=d, pts=pts, frozen=fr, nomut=nm, nus=nus, varying=varying, T=0.05)
                chk.l3((key, tuple(fr), tuple(nm or ())))
                try:
                    out = integrate(dadi, d, np.zeros([pts] * d), xx, 0.05, **kw)
                except Exception as e:
                    chk.fail(key + ':raises:' + type(e).__name__, 'integrator raises %r' % (e,), inp); continue
                off = out.copy()
                for k in range(d):
                    idx = tuple(slice(None) if l == k else 0 for l in range(d))
                    line = out[idx]; off[idx] = 0
                    allowed = not fr[k] and not (d == 2 and nm is not None and nm[k])
                    got = bool(np.any(line[1:] != 0))
                    if got != allowed:
                        chk.fail(key + ':pop%d' % (k + 1), 'population %d (frozen=%s, nomut=%s) %s new mutations (max on its axis line %.3g)'
                                 % (k + 1, fr[k], None if nm is None else nm[k], 'received' if got else 'received no', float(np.max(np.abs(line[1:])))), inp)
                if np.any(off != 0):
                    chk.fail(key + ':off-axis', 'density appeared off the single-population axis lines from a zero start without migration (max %.3g)' % float(np.max(np.abs(off))), inp)

def l3_mass_per_kernel(chk, ctx, rng, n):
    """every kernel sweep conserves the trapezoid mass of every non-corner line; corner lines lose exactly the
    documented absorbing term; injection adds dt*theta0/(2*x[1]) per receiving population and nothing else."""
    dadi = ctx['dadi']; I = dadi.Integration
    AX = 'xyzab'
    for it in range(n):
        d = 1 + it % 5
        pts = {1: 16, 2: 10, 3: 7, 4: 5, 5: 4}[d] + int(rng.integers(0, 2))
        xx = grid_for(dadi, rng, pts, it)
        w = trap_w(xx)
        phi = gen.density(rng, [pts] * d)
        nus, ms, gammas, hs, th, fr, nm = random_model(rng, d, g_max=8)
        varying = bool(it % 2) or d > 3
        delj = bool((it // 10) % 2)
        kw = kwargs_for(d, nus, ms, gammas, hs, th, fr, nm)
        if varying:
            kw['theta0'] = (lambda t, v=th: v)
        dts = [I._compute_dt(np.diff(xx), nus[i], [ms[(i, j)] for j in range(d) if j != i] or [0], gammas[i], hs[i]) for i in range(d)]
        T = min(dts) * float(rng.uniform(1.2, 2.8))
        key = 'line-mass:%dD:varying=%s:delj=%s' % (d, varying, delj)
        chk.l3((key, tuple(fr), tuple(nm)))
        inp = dict(d=d, pts=pts, nus=nus, ms=str(ms), gammas=gammas, hs=hs, theta0=th, frozen=fr, nomut=nm, T=T, varying=varying, use_delj_trick=delj)
        old_delj = I.use_delj_trick
        I.use_delj_trick = delj
        injected = []
        names = {1: '_inject_mutations_1D', 2: '_inject_mutations_2D', 3: '_inject_mutations_3D', 4: '_inject_mutations_4D', 5: '_inject_mutations_5D'}
        real_inj = getattr(I, names[d])
        def rec_inj(phi_, dt_, *a):
            before = phi_.copy()
            out = real_inj(phi_, dt_, *a)
            injected.append((before, out.copy(), dt_))
            return out
        setattr(I, names[d], rec_inj)
        try:
            with Recorder(dadi) as rec:
                integrate(dadi, d, phi.copy(), xx, T, **kw)
        except Exception as e:
            chk.fail(key + ':raises:' + type(e).__name__, 'integrator raises %r' % (e,), inp); continue
        finally:
            setattr(I, names[d], real_inj)
            I.use_delj_trick = old_delj
        bad = False
        for (name, pin, args, kwc, out) in rec.calls:
            if name == 'tridiag':
                a_, b_, c_, r_ = args
                # 1-D constant path: r = phi/dt, b includes 1/dt: recover dt from the recorded call
                continue
            ax = AX.index(name[-1])
            others = [l for l in range(d) if l != ax]
            W = np.ones([pts] * (d - 1)) if d > 1 else np.ones(())
            m_in = np.tensordot(pin, w, axes=([ax], [0])); m_out = np.tensordot(out, w, axes=([ax], [0]))
            for oi in itertools.product(*[range(pts) for _ in others]):
                ys = [xx[i] for i in oi]
                corner = (d == 1) or all(y == 0 for y in ys) or all(y == 1 for y in ys)
                if corner: continue
                a0 = m_in[oi]; a1 = m_out[oi]
                if not (abs(a0 - a1) <= 1e-10 * max(abs(a0), float(np.max(np.abs(m_in))) * 1e-6, 1e-300)):
                    chk.fail(key + ':noncorner:%s' % name, '%s changed the trapezoid mass of the non-corner line at other-indices %s: %.10g -> %.10g' % (name, list(oi), a0, a1), inp)
                    bad = True; break
            if bad: break
        if bad: continue
        for before, after, dt_ in injected:
            diff = after - before
            nz = np.argwhere(np.abs(diff) > 0)
            allowed = {}
            for k in range(d):
                on = (not fr[k]) and not (d == 2 and nm[k]) if d > 1 else True
                if on:
                    e = [0] * d; e[k] = 1
                    allowed[tuple(e)] = dt_ * th / (2 * xx[1])
            wfull = [w] * d
            for idx in map(tuple, nz):
                if idx not in allowed:
                    chk.fail(key + ':inject-support', 'mutation injection changed entry %s (frozen=%s nomut=%s)' % (list(idx), fr, nm), inp); bad = True; break
                mass = diff[idx] * np.prod([w[i] for i in idx])
                if not math.isclose(mass, allowed[idx], rel_tol=1e-10):
                    chk.fail(key + ':inject-amount', 'injection at %s adds trapezoid mass %.12g, documented dt*theta0/(2*x1) = %.12g' % (list(idx), mass, allowed[idx]), inp); bad = True; break
            if bad: break
            got = set(map(tuple, nz))
            miss = [k for k in allowed if k not in got and allowed[k] != 0]
            if miss:
                chk.fail(key + ':inject-missing', 'no mutations injected at %s although that population is neither frozen nor nomut' % miss, inp); break

def l3_reject(chk, ctx, rng, n):
    dadi = ctx['dadi']
    pts = 5
    xx = dadi.Numerics.default_grid(pts)
    for d in range(2, 6):
        phi = gen.density(rng, [pts] * d)
        pairs = [(i, j) for i in range(d) for j in range(d) if i != j]
        for k in range(d):
            for (i, j) in pairs:
                for varying in (False, True, 'm(t)', 'm(t), zero at the start', 'm(t), switches on later'):
                    fr = [False] * d; fr[k] = True
                    ms = {(i, j): 0.7}
                    kw = kwargs_for(d, [1.0] * d, ms, [0.0] * d, [0.5] * d, 1.0, fr, None)
                    if varying is True: kw['theta0'] = (lambda t: 1.0)
                    elif varying:
                        # a time-dependent rate: non-zero throughout / exactly 0 at initial_t / 0 until half-way
                        f = {'m(t)': (lambda t: 0.7 + t), 'm(t), zero at the start': (lambda t: 3e5 * t),
                             'm(t), switches on later': (lambda t: 0.0 if t < 5e-7 else 0.7)}[varying]
                        kw['m%d%d' % (i + 1, j + 1)] = f
                    should = (k in (i, j))
                    key = 'frozen-mig:%dD:frozen%d:m%d%d:varying=%s' % (d, k + 1, i + 1, j + 1, varying)
                    chk.l3(('frozen-mig', d, k, i, j, varying))
                    try:
                        integrate(dadi, d, phi.copy(), xx, 1e-6, **kw)
                        raised = False
                    except ValueError:
                        raised = True
                    except Exception as e:
                        chk.fail(key + ':raises:' + type(e).__name__, 'unexpected %r' % (e,), dict(d=d, frozen=fr, m=(i + 1, j + 1))); continue
                    if raised != should:
                        chk.fail(key, ('frozen population %d with migration m%d%d=0.7 was %s' % (k + 1, i + 1, j + 1, 'rejected although the rate does not involve it' if raised else 'accepted')),
                                 dict(d=d, frozen=fr, m=(i + 1, j + 1), varying=varying))

def run(chk, ctx):
    tier = ctx['tier']; rng = common.Rng(ctx['seed'], 'C04'); q = tier == 'quick'
    chk.rule = ('L3: frozen marginals (2-5 pops, random frozen subsets, const and time-varying), isolated marginals of random subsets (shared time steps), '
                'per-kernel line-mass bookkeeping through recorded kernel calls, injection support/amount, exhaustive frozen x migration-rate rejection table; '
                'K: full sweeps with flags vs the Lean model, 2-3 step runs with every parameter time-dependent / constant vs the model and vs the translated time loop; '
                'schedule oracle: steps, step variable, sizes at next_t, injection amount/support, sweep order observed through recorded calls. '
                'non-trivial = distinct (clause, d, subset/flags, varying)')
    chk.unproved = ['isolated marginals: proved for any d <= 5 and any subset S on a common grid (C04_isolated_marginal_general_*); the populations outside S keep their pivot '
                    'condition as a hypothesis (discharged for neutral, migration-free populations and under the Peclet-type condition of C02_pivots_peclet), and different grids per axis '
                    'are covered only by the sweep-level theorems plus the numerical L3 check',
                    'round-off: identities are exact in the model, checked at 1e-9..1e-10 on the float implementation',
                    'C04 theorems are stated on the functional form (stepFam/stepAxisFn); that the tabulated arrays equal it on every valid index is proved in Props/C03 (C03_tabulated_*)']
    from . import c03
    c03.k_sweep(chk, ctx, rng, 10 if q else 50, tier)
    k_program(chk, ctx, common.Rng(ctx['seed'], 'C04-program'), 1 if q else 4, tier, modes=('vary', 'const'))
    l3_frozen_marginal(chk, ctx, rng, 16 if q else 96)
    l3_isolated_marginal(chk, ctx, rng, 12 if q else 72, forced=[(d, k) for d in range(2, 6) for k in range(d)])
    l3_mass_per_kernel(chk, ctx, rng, 15 if q else 80)
    l3_reject(chk, ctx, rng, 1)
    l3_schedule(chk, ctx, common.Rng(ctx['seed'], 'C04-schedule'), 30 if q else 150)
    l3_flag_table(chk, ctx, rng)

def replay(chk, ctx, data):
    run(chk, ctx)
