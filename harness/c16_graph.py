"""C16, graph level (round 4) — correspondence (K) between the real graph-level functions of dadi.Demes and the Lean model of
Model/DemesConv.lean + Generated/Demes.lean, through the driver ops `c16g …` (Driver/DemesGraph.lean):

  _migration_rate_in_interval (incl. objects with `.demes` only), the epoch search of _sizes_at_time (incl. intervals no epoch covers),
  DemesUtil.slice on whole graphs, _augment_with_ancient_samples, the preparation done by SFS (augmentation + conversion to
  generations, captured from inside SFS), _get_demographic_events (intervals, demes present, events), _get_integration_parameters
  (T, frozen flags, migration matrices, nu functions), and the call sequence of _compute_sfs + the final reorder_pops of SFS
  (recorded with stubs) — plus a direct oracle of the clause "time units / sample order do not change what is computed" on the
  captured calls.

Wire format: see Driver/DemesGraph.lean.
"""
import re, math, copy, types
from fractions import Fraction
import numpy as np
from . import common
from . import c16_scen as S

INF = float('inf')

def rat(x):
    return common.rat(float(x))

def tstr(t):
    return 'inf' if t == INF else rat(t)

# ------------------------------------------------------------------------------------------------- names
class Names:
    """python deme names <-> model names.  base names are numbered in graph order; `X_sampled_12_5` is X stamped with 12.5"""
    def __init__(self, base_names):
        self.num = {n: i for i, n in enumerate(base_names)}
        self.rev = {i: n for n, i in self.num.items()}
    def split(self, name):
        """python name -> (base index, [stamp floats])"""
        if name in self.num: return self.num[name], []
        parts = name.split('_sampled_')
        if parts[0] not in self.num: raise KeyError(name)
        return self.num[parts[0]], [float(p.replace('_', '.')) for p in parts[1:]]
    def enc(self, name):
        b, st = self.split(name)
        return '~'.join([str(b)] + [rat(x) for x in st])
    def encs(self, names):
        return '+'.join(self.enc(n) for n in names) if names else '_'
    @staticmethod
    def dec(tok):
        """model token -> (base index, [stamp floats])"""
        p = tok.split('~')
        return int(p[0]), [float(Fraction(x)) for x in p[1:]]
    @staticmethod
    def decs(tok):
        return [] if tok == '_' else [Names.dec(x) for x in tok.split('+')]
    def same(self, pyname, model):
        try: a = self.split(pyname)
        except KeyError: return False
        return a[0] == model[0] and len(a[1]) == len(model[1]) and all(abs(x - y) <= 1e-9 * max(1.0, abs(y)) for x, y in zip(a[1], model[1]))
    def same_list(self, pynames, models):
        return len(pynames) == len(models) and all(self.same(a, b) for a, b in zip(pynames, models))

def rats(xs):
    return '+'.join(rat(x) for x in xs) if len(xs) else '_'

def enc_graph(gdict, N, sym_migs=()):
    """g.asdict() -> wire token"""
    ds = []
    for d in gdict['demes']:
        eps = '&'.join('%s:%s:%s:%s' % (e['size_function'], rat(e['start_size']), rat(e['end_size']), rat(e['end_time'])) for e in d['epochs'])
        ds.append('@'.join([N.enc(d['name']), tstr(d['start_time']), N.encs(d.get('ancestors', [])), rats(d.get('proportions', [])), eps or '_']))
    ms = []
    for m in gdict.get('migrations', []):
        ms.append(enc_mig(m, N))
    ps = []
    for p in gdict.get('pulses', []):
        ps.append('@'.join([N.encs(p['sources']), N.enc(p['dest']), rats(p['proportions']), rat(p['time'])]))
    return '|'.join([';'.join(ds) or '_', ';'.join(ms) or '_', ';'.join(ps) or '_'])

def enc_mig(m, N):
    if 'demes' in m:
        a = m['demes'][0]
        return '@'.join([N.enc(a), N.enc(a), N.encs(m['demes']), rat(m['rate']), tstr(m['start_time']), rat(m['end_time'])])
    return '@'.join([N.enc(m['source']), N.enc(m['dest']), '_', rat(m['rate']), tstr(m['start_time']), rat(m['end_time'])])

def dec_graph(tok, eval_sym):
    """model graph token -> dict(demes=[(name, start, ancestors, props, [(fn, ss, es, et)])], migs=[(src, dst, rate, st, et)], pulses=[…])"""
    d, m, p = tok.split('|')
    out = dict(demes=[], migs=[], pulses=[])
    if d != '_':
        for x in d.split(';'):
            n, st, an, pr, ep = x.split('@')
            eps = []
            if ep != '_':
                for e in ep.split('&'):
                    fn, ss, es, et = e.split(':')
                    eps.append((fn, float(Fraction(ss)), None if es == 'none' else eval_sym(es), float(Fraction(et))))
            out['demes'].append((Names.dec(n), INF if st == 'inf' else float(Fraction(st)), Names.decs(an),
                                 [] if pr == '_' else [float(Fraction(v)) for v in pr.split('+')], eps))
    if m != '_':
        for x in m.split(';'):
            a, b, sy, r, st, et = x.split('@')
            out['migs'].append((Names.dec(a), Names.dec(b), float(Fraction(r)), INF if st == 'inf' else float(Fraction(st)), float(Fraction(et))))
    if p != '_':
        for x in p.split(';'):
            so, de, pr, t = x.split('@')
            out['pulses'].append((Names.decs(so), Names.dec(de), [float(Fraction(v)) for v in pr.split('+')] if pr != '_' else [], float(Fraction(t))))
    return out

def near(a, b, rtol=1e-10):
    if a == INF or b == INF: return a == b
    return abs(a - b) <= rtol * max(1.0, abs(a), abs(b))

def graph_matches(g_real, model, N):
    """resolved demes graph vs decoded model graph: demes in order (name, start, ancestors, proportions, epochs), migrations as a multiset
    in order, pulses in order.  Returns None or a description of the first difference."""
    gd = g_real.asdict()
    if len(gd['demes']) != len(model['demes']): return 'number of demes %d vs %d' % (len(gd['demes']), len(model['demes']))
    for d, m in zip(gd['demes'], model['demes']):
        if not N.same(d['name'], m[0]): return 'deme name %s vs %r' % (d['name'], m[0])
        if not near(d['start_time'], m[1]): return 'start time of %s: %r vs %r' % (d['name'], d['start_time'], m[1])
        if not N.same_list(d['ancestors'], m[2]): return 'ancestors of %s: %r vs %r' % (d['name'], d['ancestors'], m[2])
        if len(d['proportions']) != len(m[3]) or not all(near(a, b) for a, b in zip(d['proportions'], m[3])): return 'proportions of %s' % d['name']
        if len(d['epochs']) != len(m[4]): return 'number of epochs of %s: %d vs %d' % (d['name'], len(d['epochs']), len(m[4]))
        for e, me in zip(d['epochs'], m[4]):
            if me[2] is None: return 'epoch of %s: the model has no end size' % d['name']
            if not (near(e['start_size'], me[1]) and near(e['end_size'], me[2]) and near(e['end_time'], me[3])):
                return 'epoch of %s: %r vs %r' % (d['name'], (e['start_size'], e['end_size'], e['end_time']), me[1:])
            # demes turns a non-constant epoch whose sizes coincide into 'constant'
            if e['size_function'] != me[0] and not (e['start_size'] == e['end_size']): return 'size function of an epoch of %s: %s vs %s' % (d['name'], e['size_function'], me[0])
    rm = gd.get('migrations', [])
    if len(rm) != len(model['migs']): return 'number of migrations %d vs %d' % (len(rm), len(model['migs']))
    for a, b in zip(rm, model['migs']):
        if not (N.same(a['source'], b[0]) and N.same(a['dest'], b[1]) and near(a['rate'], b[2]) and near(a['start_time'], b[3]) and near(a['end_time'], b[4])):
            return 'migration %r vs %r' % (a, b)
    rp = gd.get('pulses', [])
    if len(rp) != len(model['pulses']): return 'number of pulses %d vs %d' % (len(rp), len(model['pulses']))
    for a, b in zip(rp, model['pulses']):
        if not (N.same_list(a['sources'], b[0]) and N.same(a['dest'], b[1]) and all(near(x, y) for x, y in zip(a['proportions'], b[2])) and near(a['time'], b[3])):
            return 'pulse %r vs %r' % (a, b)
    return None

def lib_events(g, N):
    """g.discrete_demographic_events() in the order _get_demographic_events reads it -> wire token"""
    ev = g.discrete_demographic_events()
    out = []
    for p in ev['pulses']: out.append('@'.join([rat(p.time), 'pulses', N.encs(p.sources), N.enc(p.dest), rats(p.proportions)]))
    for b in ev['branches']: out.append('@'.join([rat(b.time), 'branch', N.enc(b.parent), N.enc(b.child), '_']))
    for m in ev['mergers']: out.append('@'.join([rat(m.time), 'merge', N.encs(m.parents), N.enc(m.child), rats(m.proportions)]))
    for a in ev['admixtures']: out.append('@'.join([rat(a.time), 'admix', N.encs(a.parents), N.enc(a.child), rats(a.proportions)]))
    for s in ev['splits']: out.append('@'.join([rat(s.time), 'split', N.enc(s.parent), N.encs(s.children), '_']))
    return ';'.join(out) or '_'

def enc_event(time, e, N):
    """an entry of demo_events -> the model's output form `time@kind@a@b@c`"""
    k = e[0]
    if k == 'pulses': body = ['pulses', N.encs(list(e[1])), N.enc(e[2]), rats(list(e[3]))]
    elif k == 'branch': body = ['branch', N.enc(e[1]), N.enc(e[2]), '_']
    elif k in ('merge', 'admix'): body = [k, N.encs(list(e[1])), N.enc(e[3]), rats(list(e[2]))]
    elif k == 'split': body = ['split', N.enc(e[1]), N.encs(list(e[2])), '_']
    elif k == 'marginalize': body = ['marginalize', N.enc(e[1]), '_', '_']
    else: raise ValueError(k)
    return '@'.join([tstr(time)] + body)

def event_tokens_equal(a, b):
    """two event tokens, numbers compared as numbers"""
    pa, pb = a.split('@'), b.split('@')
    if len(pa) != len(pb) or pa[1] != pb[1]: return False
    def num(x): return INF if x == 'inf' else float(Fraction(x))
    if not near(num(pa[0]), num(pb[0])): return False
    for x, y in zip(pa[2:], pb[2:]):
        if x == y: continue
        xs, ys = x.split('+'), y.split('+')
        if len(xs) != len(ys): return False
        for u, v in zip(xs, ys):
            us, vs = u.split('~'), v.split('~')
            if len(us) != len(vs): return False
            for i, (p, q) in enumerate(zip(us, vs)):
                if p == q: continue
                try:
                    if not near(float(Fraction(p)), float(Fraction(q))): return False
                except Exception: return False
    return True

# ------------------------------------------------------------------------------------------------- K families
def k_migrate(chk, ctx, rng, n, eval_sym):
    dadi = ctx['dadi']; drv = ctx['driver']; D = dadi.Demes.Demes
    from .c16 import resolve
    for it in range(n):
        h = S.History(rng, max_live=4)
        gd = h.graph_dict(); g = resolve(gd)
        names = [d.name for d in g.demes]; N = Names(names)
        # the migrations as the real objects, plus (every other history) objects that only have `.demes`: the AttributeError branch
        migs = []; wire = []
        for m in g.migrations:
            migs.append(m); wire.append(enc_mig(dict(source=m.source, dest=m.dest, rate=m.rate, start_time=m.start_time, end_time=m.end_time), N))
        if it % 2 == 1 and len(names) >= 2:
            for _ in range(int(rng.integers(1, 4))):
                k = int(rng.integers(2, min(4, len(names)) + 1))
                ds = [names[i] for i in rng.permutation(len(names))[:k]]
                hi = float(rng.choice(h.bounds[:-1])); lo = float(rng.choice([b for b in h.bounds if b < hi]))
                o = types.SimpleNamespace(demes=ds, rate=float(S.round_sig(rng.uniform(1e-4, 1e-2), 3)), start_time=hi, end_time=lo)
                pos = int(rng.integers(len(migs) + 1))
                migs.insert(pos, o); wire.insert(pos, enc_mig(dict(demes=ds, rate=o.rate, start_time=hi, end_time=lo), N))
                chk.stat('K-migrate:objects-with-demes-only')
        fake = types.SimpleNamespace(migrations=migs)
        ivs = list(zip(h.bounds[:-1], h.bounds[1:])) + [(INF, h.bounds[0])]
        for _ in range(8):
            a, b = [names[i] for i in rng.permutation(len(names))[:2]] if len(names) >= 2 else (names[0], names[0])
            iv = ivs[int(rng.integers(len(ivs)))]
            if rng.random() < 0.25 and len(h.bounds) > 2:             # an interval spanning two integration intervals
                i = int(rng.integers(len(h.bounds) - 2)); iv = (h.bounds[i], h.bounds[i + 2])
            impl = float(D._migration_rate_in_interval(fake, a, b, iv))
            ans = drv.ask('c16g migrate %s %s %s %s %s' % (';'.join(wire) or '_', N.enc(a), N.enc(b), tstr(iv[0]), tstr(iv[1])))
            inp = dict(graph=common.jsonable(gd), source=a, dest=b, interval=[iv[0], iv[1]], extra=len(migs) - len(g.migrations))
            if ans.startswith('ok '):
                model = float(Fraction(ans.split()[1]))
                (chk.k_ok('migrate') if near(impl, model, 1e-13) else chk.k_bad('migrate', inp, impl, model, abs(impl - model)))
                if impl != 0: chk.stat('K-migrate:non-zero')
            else:
                chk.k_bad('migrate', inp, impl, ans, 'model error')

def k_epochsel(chk, ctx, rng, n, eval_sym):
    """_sizes_at_time on whole demes: the model chooses the epoch itself; also intervals that no epoch of the deme covers"""
    dadi = ctx['dadi']; drv = ctx['driver']; D = dadi.Demes.Demes
    from .c16 import resolve
    for it in range(n):
        h = S.History(rng, max_live=4, cut_prob=0.8)
        gd = h.graph_dict(); g = resolve(gd); N = Names([d.name for d in g.demes])
        gdd = g.asdict()
        for d in gdd['demes']:
            tok = enc_graph(dict(demes=[d]), N).split('|')[0]
            bs = sorted(set([b for b in h.bounds if d['start_time'] >= b >= d['epochs'][-1]['end_time']]), reverse=True)
            ivs = list(zip(bs[:-1], bs[1:]))
            if d['start_time'] == INF: ivs.append((INF, bs[0]))
            if len(bs) > 2 and rng.random() < 0.5: ivs.append((bs[0], bs[2]))          # may straddle an epoch boundary: no epoch covers it
            for iv in ivs:
                try:
                    s0, s1, fn = D._sizes_at_time(g, d['name'], iv)
                    impl = [float(s0), float(s1)]
                except UnboundLocalError:
                    impl = None
                ans = drv.ask('c16g epochsel %s %s %s' % (tok, tstr(iv[0]), tstr(iv[1])))
                inp = dict(graph=common.jsonable(gd), deme=d['name'], interval=[iv[0], iv[1]])
                covered = any(st >= iv[0] and e['end_time'] <= iv[1] for st, e in zip([d['start_time']] + [e['end_time'] for e in d['epochs'][:-1]], d['epochs']))
                chk.stat('K-epochsel:%s' % ('covered' if covered else 'no-epoch-covers'))
                if ans.startswith('ok '):
                    p = ans.split()
                    model = [eval_sym(p[4]), eval_sym(p[5])]
                    if impl is None or not (np.all(np.isfinite(model)) or not np.all(np.isfinite(impl))):
                        chk.k_bad('epochsel', inp, impl, ans, 'model has a value, the code is unbound / finite')
                    elif not np.all(np.isfinite(impl)): chk.k_skipped += 1
                    elif fn != p[3] or not common.close(impl, model, rtol=1e-11, atol=1e-300)[0]: chk.k_bad('epochsel', inp, impl + [fn], ans, 'sizes differ')
                    else: chk.k_ok('epochsel')
                elif ans.startswith('err unbound'):
                    (chk.k_ok('epochsel') if impl is None else chk.k_bad('epochsel', inp, impl, ans, 'model unbound, code has a value'))
                else:
                    chk.k_bad('epochsel', inp, impl, ans, 'model error')

def slice_times(h, rng, k=3):
    tmax = h.bounds[0] * 1.2
    c = [float(rng.uniform(0, tmax)) for _ in range(k)] + [float(b) for b in h.bounds[:-1] if rng.random() < 0.3]
    return [t for t in c if t > 0]

def k_slicegraph(chk, ctx, rng, n, eval_sym):
    dadi = ctx['dadi']; drv = ctx['driver']
    from .c16 import resolve
    for it in range(n):
        h = S.History(rng, max_live=4, small_Ne=True, cut_prob=0.8, fn_probs=(0.25, 0.4, 0.35))
        gd = h.graph_dict(); g = resolve(gd); N = Names([d.name for d in g.demes])
        tok = enc_graph(g.asdict(), N)
        for t in slice_times(h, rng) + [0.0]:
            inp = dict(graph=common.jsonable(gd), t=t)
            try:
                g2 = dadi.Demes.DemesUtil.slice(g, t)
            except Exception as e:
                chk.k_skipped += 1; chk.stat('K-slicegraph:raises:' + type(e).__name__); continue
            ans = drv.ask('c16g slicegraph %s %s' % (rat(t), tok))
            if not ans.startswith('ok '):
                chk.k_bad('slicegraph', inp, None, ans, 'model error'); continue
            why = graph_matches(g2, dec_graph(ans.split()[1], eval_sym), N)
            (chk.k_ok('slicegraph') if why is None else chk.k_bad('slicegraph', inp, why, ans[:300], 'sliced graphs differ'))
            chk.stat('K-slicegraph:%s' % ('t=0' if t == 0 else 'demes-dropped' if len(g2.demes) < len(g.demes) else 'all-demes-kept'))
        ans = drv.ask('c16g slicegraph %s %s' % (rat(-1.0), tok))
        try:
            dadi.Demes.DemesUtil.slice(g, -1.0); impl = 'returns'
        except ValueError: impl = 'raises'
        (chk.k_ok('slicegraph') if (impl == 'raises') == ans.startswith('err rejected') else chk.k_bad('slicegraph', dict(t=-1.0), impl, ans, 'guard differs'))

def sample_sets(h, g, rng, k=3):
    """lists of (deme, time) with at least one non-zero time: present-day + ancient, only ancient, the same deme twice"""
    out = []
    demes_ = [(d.name, float(d.start_time), float(d.end_time)) for d in g.demes]
    def inside(d):
        hi = min(d[1], h.bounds[0] * 1.3) if d[1] != INF else h.bounds[0] * 1.3
        return float(S.round_sig(d[2] + (hi - d[2]) * float(rng.uniform(0.1, 0.9)), 6))
    for _ in range(k):
        n = int(rng.integers(1, 4))
        sel = [demes_[i] for i in rng.integers(len(demes_), size=n)]
        mode = rng.choice(['mixed', 'only-ancient', 'twice', 'same-time'])
        smp = []
        for i, d in enumerate(sel):
            t = inside(d)
            if mode == 'mixed' and i == 0 and d[2] == 0: t = 0.0
            smp.append((d[0], t))
        if mode == 'mixed' and not any(t == 0 for _, t in smp):
            fin = [d for d in demes_ if d[2] == 0]
            smp.insert(int(rng.integers(len(smp) + 1)), (fin[int(rng.integers(len(fin)))][0], 0.0))
        if mode == 'twice': smp.append((sel[0][0], inside(sel[0])))
        if mode == 'same-time' and len(smp) >= 2:
            # two demes sampled at the same (youngest) time, if both are alive then
            t0 = min(t for _, t in smp)
            smp = [(nm, t0 if [x for x in demes_ if x[0] == nm][0][1] > t0 >= [x for x in demes_ if x[0] == nm][0][2] else t) for nm, t in smp]
        if len(set(smp)) != len(smp) or not any(t != 0 for _, t in smp): continue
        out.append((str(mode), smp))
    return out

def k_augment(chk, ctx, rng, n, eval_sym):
    dadi = ctx['dadi']; drv = ctx['driver']; D = dadi.Demes.Demes
    from .c16 import resolve
    for it in range(n):
        h = S.History(rng, max_live=4, small_Ne=True, cut_prob=0.7)
        gd = h.graph_dict(); g = resolve(gd); N = Names([d.name for d in g.demes])
        tok = enc_graph(g.asdict(), N)
        for mode, smp in sample_sets(h, g, rng):
            sd = [a for a, _ in smp]; ts = [t for _, t in smp]
            inp = dict(graph=common.jsonable(gd), sampled=sd, times=ts)
            try:
                g2, sd2, fz = D._augment_with_ancient_samples(g, list(sd), list(ts))
            except Exception as e:
                chk.k_skipped += 1; chk.stat('K-augment:raises:' + type(e).__name__); continue
            ans = drv.ask('c16g augment %s %s %s' % (tok, N.encs(sd), rats(ts)))
            if not ans.startswith('ok '):
                chk.k_bad('augment', inp, None, ans, 'model error'); continue
            p = ans.split()
            why = graph_matches(g2, dec_graph(p[1], eval_sym), N)
            if why is None and not N.same_list(list(sd2), Names.decs(p[2])): why = 'sampled demes %r vs %s' % (sd2, p[2])
            if why is None and not N.same_list(list(fz), Names.decs(p[3])): why = 'frozen demes %r vs %s' % (fz, p[3])
            (chk.k_ok('augment') if why is None else chk.k_bad('augment', inp, why, ans[:400], 'augmented graphs differ'))
            chk.stat('K-augment:%s:%s' % (mode, 'sliced' if min(ts) > 0 else 'unsliced'))

class _Stop(Exception):
    pass

def captured_prepare(dadi, g, sd, ts, sample_times_none=False):
    """run the real SFS up to `_get_integration_parameters` and return what it was given: (graph in generations, sampled_pops, frozen list)"""
    D = dadi.Demes.Demes
    box = {}
    o1, o2 = D._get_demographic_events, D._get_integration_parameters
    def w1(g_, ev, sampled_pops):
        box['sampled'] = list(sampled_pops); return o1(g_, ev, sampled_pops)
    def w2(g_, pres, frozen_list, Ne=None):
        box['g'] = g_; box['frozen'] = list(frozen_list); raise _Stop()
    D._get_demographic_events, D._get_integration_parameters = w1, w2
    try:
        try:
            D.SFS(g, list(sd), [2] * len(sd), 6, sample_times=(None if sample_times_none else list(ts)))
        except _Stop:
            pass
    finally:
        D._get_demographic_events, D._get_integration_parameters = o1, o2
    if 'g' not in box: raise RuntimeError('SFS did not reach _get_integration_parameters')
    return box['g'], box['sampled'], box['frozen']

def k_prepare(chk, ctx, rng, n, eval_sym):
    """what SFS hands to the importer (after `_augment_with_ancient_samples` and `_convert_to_generations`, in the order of the source),
    for graphs in generations and in years — and, directly on the code (L3): the graph in years and the same graph in generations
    give the same prepared graph"""
    dadi = ctx['dadi']; drv = ctx['driver']
    from .c16 import resolve
    for it in range(n):
        h = S.History(rng, max_live=4, small_Ne=True, cut_prob=0.6)
        gt = float(rng.choice([25.0, 29.0, 0.5, 2.0]))
        gd = h.graph_dict(); g = resolve(gd); N = Names([d.name for d in g.demes])
        gy = resolve(h.graph_dict(time_units='years', generation_time=gt, tmul=gt))
        sets = sample_sets(h, g, rng, k=2) + [('present', [(nm, 0.0) for nm in h.final[:2]])]
        for mode, smp in sets:
            sd = [a for a, _ in smp]; ts = [t for _, t in smp]
            res = {}
            for units, graph, times, isgen in (('generations', g, ts, 1), ('years', gy, [t * gt for t in ts], 0)):
                inp = dict(graph=common.jsonable(gd), units=units, generation_time=gt, sampled=sd, times=times)
                try:
                    g2, sd2, fz = captured_prepare(dadi, graph, sd, times)
                except Exception as e:
                    chk.k_skipped += 1; chk.stat('K-prepare:raises:' + type(e).__name__); continue
                res[units] = (g2, sd2, fz)
                ans = drv.ask('c16g prepare %d %s %s %s %s' % (isgen, rat(gt if not isgen else 1.0), enc_graph(graph.asdict(), N), N.encs(sd), rats(times)))
                if not ans.startswith('ok '):
                    chk.k_bad('prepare', inp, None, ans, 'model error'); continue
                p = ans.split()
                why = graph_matches(g2, dec_graph(p[1], eval_sym), N)
                if why is None and not N.same_list(list(sd2), Names.decs(p[2])): why = 'sampled demes %r vs %s' % (sd2, p[2])
                if why is None and not N.same_list(list(fz), Names.decs(p[3])): why = 'frozen demes %r vs %s' % (fz, p[3])
                (chk.k_ok('prepare') if why is None else chk.k_bad('prepare', inp, why, ans[:400], 'prepared graphs differ'))
                chk.stat('K-prepare:%s:%s' % (units, mode))
            # L3, on the code alone: same history in years and in generations -> the same prepared graph (names apart: they carry the time)
            if len(res) == 2:
                chk.l3(('prepare-units', mode, gt, len(sd)))
                a, b = res['generations'], res['years']
                why = prepared_equal(a, b, gt)
                if why is not None:
                    chk.fail('units:prepare:mismatch', 'the graph written in years (generation_time %g) and the same graph in generations are prepared differently by SFS '
                             '(ancient samples %r): %s' % (gt, smp, why), dict(kind='prepare-units', graph=common.jsonable(gd), generation_time=gt, samples=[list(x) for x in smp]))

def prepared_equal(a, b, gt):
    """two (graph, sampled, frozen) triples describe the same history; names `X_sampled_<t>` of b carry times gt-fold larger"""
    def canon(name, div):
        p = name.split('_sampled_')
        return (p[0], tuple(round(float(x.replace('_', '.')) / div, 9) for x in p[1:]))
    def names_eq(x, y):
        cx, cy = canon(x, 1.0), canon(y, gt)
        return cx[0] == cy[0] and len(cx[1]) == len(cy[1]) and all(near(u, v, 1e-8) for u, v in zip(cx[1], cy[1]))
    ga, gb = a[0].asdict(), b[0].asdict()
    if len(ga['demes']) != len(gb['demes']): return 'number of demes %d vs %d' % (len(ga['demes']), len(gb['demes']))
    for x, y in zip(ga['demes'], gb['demes']):
        if not names_eq(x['name'], y['name']): return 'deme %s vs %s' % (x['name'], y['name'])
        if not near(x['start_time'], y['start_time'], 1e-9): return 'start time of %s: %r vs %r' % (x['name'], x['start_time'], y['start_time'])
        if len(x['ancestors']) != len(y['ancestors']) or not all(names_eq(u, v) for u, v in zip(x['ancestors'], y['ancestors'])): return 'ancestors of %s' % x['name']
        if len(x['epochs']) != len(y['epochs']): return 'epochs of %s' % x['name']
        for e, f in zip(x['epochs'], y['epochs']):
            if not (near(e['end_time'], f['end_time'], 1e-9) and near(e['start_size'], f['start_size'], 1e-9) and near(e['end_size'], f['end_size'], 1e-9)):
                return 'epoch of %s: %r vs %r' % (x['name'], e, f)
    for key, flds in (('migrations', ('start_time', 'end_time', 'rate')), ('pulses', ('time',))):
        if len(ga.get(key, [])) != len(gb.get(key, [])): return 'number of %s' % key
        for x, y in zip(ga.get(key, []), gb.get(key, [])):
            if not all(near(x[f], y[f], 1e-9) for f in flds): return '%s: %r vs %r' % (key, x, y)
    if len(a[1]) != len(b[1]) or not all(names_eq(u, v) for u, v in zip(a[1], b[1])): return 'sampled demes %r vs %r' % (a[1], b[1])
    if len(a[2]) != len(b[2]) or not all(names_eq(u, v) for u, v in zip(a[2], b[2])): return 'frozen demes %r vs %r' % (a[2], b[2])
    return None

def k_plan(chk, ctx, rng, n, eval_sym):
    """_get_demographic_events + _get_integration_parameters on whole graphs: intervals, live demes, events, T, frozen flags, M, nu"""
    dadi = ctx['dadi']; drv = ctx['driver']; D = dadi.Demes.Demes
    from .c16 import resolve
    for it in range(n):
        h = S.History(rng, max_live=5, want_ancient=(it % 3 == 0), small_Ne=(it % 3 == 0))
        gd = h.graph_dict(); g0 = resolve(gd); N = Names([d.name for d in g0.demes])
        sd = [a for a, _ in h.samples]; ts = [t for _, t in h.samples]
        g = g0; frozen = []; sampled = list(sd)
        if any(t > 0 for t in ts):
            try:
                g, sampled, frozen = D._augment_with_ancient_samples(g0, list(sd), list(ts))
            except Exception:
                chk.k_skipped += 1; continue
        tok = enc_graph(g.asdict(), N)
        inp = dict(graph=common.jsonable(gd), samples=[list(x) for x in h.samples])
        ev, pres = D._get_demographic_events(g, g.discrete_demographic_events(), sampled)
        ivs = sorted(pres.items())[::-1]
        # intervals and live demes
        ans = drv.ask('c16g intervals %s' % tok)
        ok = ans.startswith('ok ')
        if ok:
            rows = [] if ans.split()[1] == '_' else ans.split()[1].split(';')
            ok = len(rows) == len(ivs)
            for r, (iv, live) in zip(rows, ivs):
                a, b, nm = r.split(':')
                ok = ok and near(INF if a == 'inf' else float(Fraction(a)), float(iv[0])) and near(float(Fraction(b)), float(iv[1])) and N.same_list(list(live), Names.decs(nm))
        (chk.k_ok('intervals') if ok else chk.k_bad('intervals', inp, [(list(map(float, iv)), list(l)) for iv, l in ivs], ans[:400], 'intervals / demes present differ'))
        # events
        impl_ev = []
        for tm in sorted(ev.keys(), reverse=True):
            pass
        ans = drv.ask('c16g demoevents %s %s %s' % (tok, lib_events(g, N), N.encs(sampled)))
        if ans.startswith('ok '):
            model = [] if ans.split()[1] == '_' else ans.split()[1].split(';')
            by_time = {}
            for m in model:
                by_time.setdefault(float('inf') if m.split('@')[0] == 'inf' else float(Fraction(m.split('@')[0])), []).append(m)
            good = True
            nreal = 0
            for tm, lst in ev.items():
                if not lst: continue
                key = [k for k in by_time if near(k, float(tm))]
                mine = by_time.get(key[0], []) if key else []
                nreal += len(lst)
                if len(mine) != len(lst) or not all(event_tokens_equal(enc_event(float(tm), e, N), m) for e, m in zip(lst, mine)): good = False
            if nreal != len(model): good = False
            (chk.k_ok('demoevents') if good else chk.k_bad('demoevents', inp, {str(float(k)): [str(e) for e in v] for k, v in ev.items() if v}, ans[:400], 'demo_events differ'))
            for tm, lst in ev.items():
                for e in lst: chk.stat('K-plan:event:' + e[0])
        else:
            chk.k_bad('demoevents', inp, None, ans, 'model error')
        # integration parameters
        Ne = None if rng.random() < 0.5 else float(h.Ne * rng.choice([0.5, 2.0, 1.37]))
        nf, mm, its, fz = D._get_integration_parameters(g, pres, list(frozen), Ne=Ne)
        ans = drv.ask('c16g plan %s %s %s' % (tok, N.encs(list(frozen)), 'auto' if Ne is None else rat(Ne)))
        if not ans.startswith('ok '):
            chk.k_bad('plan', inp, None, ans, 'model error'); continue
        NeV = float(Fraction(ans.split()[1])); rows = ans.split()[2].split(';')
        good = len(rows) == len(its) and near(NeV, float(D._get_root_Ne(g)) if Ne is None else Ne, 1e-14)
        allc = []
        if good:
            for k, r in enumerate(rows):
                T, live, frz, ac, M = r.split('@')
                Mm = [[float(Fraction(x)) for x in row.split('+')] for row in M.split(',')]
                good = good and near(float(Fraction(T)), float(its[k]), 1e-12) and N.same_list(list(ivs[k][1]), Names.decs(live)) \
                    and [c == '1' for c in frz] == [bool(x) for x in fz[k]] and common.close(np.asarray(mm[k], dtype=float), np.asarray(Mm), rtol=1e-12, atol=1e-300)[0]
                allc.append(ac == '1')
                good = good and (ac == '1') == (not any(callable(f) for f in nf[k]))
        (chk.k_ok('plan') if good else chk.k_bad('plan', dict(inp, Ne=Ne), dict(T=[float(x) for x in its], frozen=[list(map(bool, x)) for x in fz]), ans[:500], 'integration parameters differ'))
        if any(frozen): chk.stat('K-plan:with-frozen-branches')
        for frac in (0.0, 0.37, 1.0):
            ans = drv.ask('c16g plannu %s %s %s' % (tok, rat(NeV), rat(frac)))
            if not ans.startswith('ok '):
                chk.k_bad('plannu', inp, None, ans, 'model error'); continue
            rows = ans.split()[1].split(';')
            good = len(rows) == len(nf); worst = 0.0
            for k, r in enumerate(rows):
                if not good: break
                terms = r.split('+')
                if len(terms) != len(nf[k]): good = False; break
                if its[k] == 0 and any(callable(f) for f in nf[k]): continue       # t / T with T = 0: never evaluated by the integrators
                for f, term in zip(nf[k], terms):
                    impl = float(f(frac * its[k])) if callable(f) else float(f)
                    if term == 'none': good = False; break
                    okc, err, _ = common.close(impl, eval_sym(term), rtol=1e-11, atol=1e-300)
                    if not okc: good = False; worst = max(worst, err)
            (chk.k_ok('plannu') if good else chk.k_bad('plannu', dict(inp, Ne=NeV, frac=frac), None, ans[:300], worst))

PHIMANIP_STUBS = ['phi_1D', 'phi_1D_to_2D', 'phi_2D_to_3D_split_1', 'phi_2D_to_3D_split_2', 'phi_2D_to_3D_admix', 'phi_3D_to_4D', 'phi_4D_to_5D',
                  'remove_pop'] + [x for v in S.PULSE_NAMES.values() for x in v]

def recorded_steps(dadi, g, sampled, frozen, Ne, N):
    """run the real _get_demographic_events, _get_integration_parameters, _compute_sfs and the final reordering of SFS with every numerical
    primitive stubbed; return the list of calls in the model's wire form"""
    D = dadi.Demes.Demes; P = dadi.PhiManip
    steps = []
    orig = {k: getattr(P, k) for k in PHIMANIP_STUBS + ['reorder_pops']}
    oi, oa = D._integrate_phi, D._apply_event
    def integ(phi, xx, params, pop_ids):
        nu, T, M, gamma, h_, theta, frz = params
        steps.append('I@%s@%s@%s' % (rat(T), N.encs(list(pop_ids)), ''.join('1' if x else '0' for x in frz) or '_')); return 'PHI'
    def apply(phi, xx, pop_ids, event, interval, sample_sizes, demes_present):
        steps.append('E@%s@%s' % (N.encs(list(pop_ids)), enc_event(0.0, event, N).split('@', 1)[1])); return oa(phi, xx, pop_ids, event, interval, sample_sizes, demes_present)
    def reorder(phi, order):
        steps.append('R@' + ('+'.join(str(int(o)) for o in order) or '_')); return 'PHI'
    try:
        for k in PHIMANIP_STUBS: setattr(P, k, (lambda *a, **kw: 'PHI'))
        P.reorder_pops = reorder; D._integrate_phi = integ; D._apply_event = apply
        ev, pres = D._get_demographic_events(g, g.discrete_demographic_events(), sampled)
        nf, mm, its, fz = D._get_integration_parameters(g, pres, list(frozen), Ne=Ne)
        failed = False
        try:
            phi, xx, cur = D._compute_sfs(ev, pres, [2] * len(sampled), nf, mm, its, fz, 6, 1.0, None, None)
        except Exception as e:
            failed = True; steps.append('F')
        if not failed:
            new_order = [cur.index(pop) + 1 for pop in sampled]             # the statement of SFS (its shape is checked by the translator)
            reorder('PHI', new_order)
    finally:
        for k, v in orig.items(): setattr(P, k, v)
        D._integrate_phi, D._apply_event = oi, oa
    return steps

def steps_equal(a, b):
    if len(a) != len(b): return False
    for x, y in zip(a, b):
        if x == y: continue
        px, py = x.split('@'), y.split('@')
        if px[0] != py[0] or len(px) != len(py): return False
        if px[0] == 'I':
            if not near(float(Fraction(px[1])), float(Fraction(py[1])), 1e-12): return False
            if not event_tokens_equal('0@x@' + px[2], '0@x@' + py[2]) or px[3] != py[3]: return False
        elif px[0] == 'E':
            if not event_tokens_equal('0@' + '@'.join(px[2:]), '0@' + '@'.join(py[2:])) or not event_tokens_equal('0@x@' + px[1], '0@x@' + py[1]): return False
        else: return False
    return True

def k_steps(chk, ctx, rng, n, eval_sym):
    """the call sequence of _compute_sfs (+ the final reorder_pops) vs the model's `importSteps`; and on the code alone (L3): the recorded
    calls do not change when the graph is written in other units / scaled, and a permutation of the sampled demes changes only the
    final reordering"""
    dadi = ctx['dadi']; drv = ctx['driver']; D = dadi.Demes.Demes
    from .c16 import resolve, scale_graph
    for it in range(n):
        h = S.History(rng, max_live=5, want_ancient=(it % 3 == 1), small_Ne=(it % 3 == 1))
        gd = h.graph_dict(); g0 = resolve(gd); N = Names([d.name for d in g0.demes])
        sd = [a for a, _ in h.samples]; ts = [t for _, t in h.samples]
        def prepared(graph, times):
            if any(t > 0 for t in times): return D._augment_with_ancient_samples(graph, list(sd), list(times))
            return graph, list(sd), []
        try:
            g, sampled, frozen = prepared(g0, ts)
        except Exception:
            chk.k_skipped += 1; continue
        Ne = None if rng.random() < 0.6 else float(h.Ne * rng.choice([0.5, 2.0]))
        inp = dict(graph=common.jsonable(gd), samples=[list(x) for x in h.samples], Ne=Ne)
        real = recorded_steps(dadi, g, sampled, frozen, Ne, N)
        ans = drv.ask('c16g steps %s %s %s %s %s' % (enc_graph(g.asdict(), N), lib_events(g, N), N.encs(sampled), N.encs(list(frozen)), 'auto' if Ne is None else rat(Ne)))
        if not ans.startswith('ok '):
            chk.k_bad('steps', inp, real, ans, 'model error'); continue
        model = ans.split()[1].split(';')
        (chk.k_ok('steps') if steps_equal(real, model) else chk.k_bad('steps', inp, real, model, 'call sequences differ'))
        chk.stat('K-steps:calls', len(real))
        if 'F' in real: chk.stat('K-steps:code-raises')
        for s_ in real: chk.stat('K-steps:' + {'I': 'integrate', 'E': 'event', 'R': 'reorder', 'F': 'fail'}[s_[0]])
        if 'F' in real: continue
        # ---- L3 on the recorded calls: scaled graph (sizes and times x c, rates / c, default Ne), other units, permuted samples
        c = float(rng.choice([0.5, 3.0, 10.0]))
        if Ne is None and not any(t > 0 for t in ts):
            chk.l3(('steps-scale', c, len(real)))
            g2 = resolve(scale_graph(gd, c))
            r2 = recorded_steps(dadi, g2, sampled, frozen, None, N)
            if not steps_equal(real, r2):
                chk.fail('scale:calls:mismatch', 'sizes and times multiplied by %g, rates divided: the calls made by _compute_sfs differ' % c, dict(kind='steps-scale', graph=common.jsonable(gd), c=c, samples=[list(x) for x in h.samples]))
        if len(sd) > 1 and not any(t > 0 for t in ts):
            perm = rng.permutation(len(sd)).tolist()
            chk.l3(('steps-order', tuple(perm), len(real)))
            r3 = recorded_steps(dadi, g, [sampled[i] for i in perm], frozen, Ne, N)
            want_last = 'R@' + '+'.join(str(int(real[-1].split('@')[1].split('+')[i])) for i in perm)
            if not (steps_equal(real[:-1], r3[:-1]) and r3[-1] == want_last):
                chk.fail('order:calls:mismatch', 'sampled demes listed in the order %s: the calls differ by more than the final reordering' % perm,
                         dict(kind='steps-order', graph=common.jsonable(gd), perm=perm, Ne=Ne, samples=[list(x) for x in h.samples]))

def k_admixargs(chk, ctx, rng, eval_sym):
    """_admix_new_pop_phi for 2, 3, 4 populations and every choice / order of 2..n parents: the proportions the constructor receives"""
    import itertools
    dadi = ctx['dadi']; drv = ctx['driver']; D = dadi.Demes.Demes; P = dadi.PhiManip
    targets = ['phi_2D_to_3D_admix', 'phi_3D_to_4D', 'phi_4D_to_5D']
    calls = []
    orig = {t: getattr(P, t) for t in targets}
    def mk(name):
        def stub(*a, **k):
            calls.append((name, [float(x) for x in a if isinstance(x, (int, float)) and not isinstance(x, bool)])); return 'PHI'
        return stub
    try:
        for t in targets: setattr(P, t, mk(t))
        xx = np.linspace(0, 1, 5)
        for n in (2, 3, 4):
            for npar in range(1, n + 1):
                for pi in itertools.permutations(range(n), npar):
                    if npar > 2 and rng.random() < 0.5: continue
                    del calls[:]
                    ids = ['p%d' % k for k in range(n)]
                    props = [round(float(x), 3) for x in rng.dirichlet([1.0] * npar)]
                    props[-1] = round(1.0 - sum(props[:-1]), 6)
                    D._admix_new_pop_phi('PHI', xx, list(props), ids, [ids[i] for i in pi], ids + ['new'])
                    ans = drv.ask('c16g admixargs %d %s %s' % (n, ','.join(str(i) for i in pi), common.fmt_list(props)))
                    inp = dict(op='_admix_new_pop_phi', npop=n, parents=list(pi), proportions=props)
                    if not ans.startswith('ok '):
                        chk.k_bad('admixargs', inp, calls, ans, 'model error'); continue
                    _, fn, args = ans.split()
                    want = [float(x) for x in common.parse_list(args)]
                    ok = len(calls) == 1 and calls[0][0] == fn and calls[0][1] == want
                    (chk.k_ok('admixargs') if ok else chk.k_bad('admixargs', inp, calls, dict(fn=fn, args=want), 'function / proportions differ'))
                    # L3 on the code: parameter f_j of the constructor = the proportion of the parent that sits on axis j
                    chk.l3(('admix-axis', n, tuple(pi)))
                    expect = [0.0] * n
                    for i, pr in zip(pi, props): expect[i] = pr
                    if len(calls) != 1 or calls[0][1] != expect[:n - 1]:
                        chk.fail('wiring:admix:parents-order', '_admix_new_pop_phi with %d populations and parents on axes %s (proportions %s) passes %r to %s; '
                                 'the proportions by axis are %r' % (n, list(pi), props, calls[0][1] if calls else None, calls[0][0] if calls else None, expect[:n - 1]),
                                 dict(kind='admix-axis', npop=n, parents=list(pi), proportions=props))
    finally:
        for t in targets: setattr(P, t, orig[t])

def replay_case(chk, ctx, inp):
    """re-evaluate one L3 case of this module"""
    dadi = ctx['dadi']; D = dadi.Demes.Demes
    from .c16 import resolve, scale_graph, dec
    inp = dec(inp)
    kind = inp['kind']
    if kind == 'admix-axis':
        P = dadi.PhiManip; calls = []
        targets = ['phi_2D_to_3D_admix', 'phi_3D_to_4D', 'phi_4D_to_5D']; orig = {t: getattr(P, t) for t in targets}
        try:
            for t in targets: setattr(P, t, (lambda name: (lambda *a, **k: calls.append((name, [float(x) for x in a if isinstance(x, (int, float)) and not isinstance(x, bool)])) or 'PHI'))(t))
            n = inp['npop']; ids = ['p%d' % k for k in range(n)]
            D._admix_new_pop_phi('PHI', np.linspace(0, 1, 5), list(inp['proportions']), ids, [ids[i] for i in inp['parents']], ids + ['new'])
        finally:
            for t in targets: setattr(P, t, orig[t])
        expect = [0.0] * n
        for i, pr in zip(inp['parents'], inp['proportions']): expect[i] = pr
        if len(calls) != 1 or calls[0][1] != expect[:n - 1]:
            chk.fail('wiring:admix:parents-order', 'replay: %r passed, proportions by axis %r' % (calls, expect[:n - 1]), common.jsonable(inp))
        return
    gd = inp['graph']; g0 = resolve(gd); N = Names([d.name for d in g0.demes])
    smp = [tuple(x) for x in inp['samples']]
    sd = [a for a, _ in smp]; ts = [t for _, t in smp]
    if kind == 'prepare-units':
        gt = inp['generation_time']
        gy = resolve(scale_graph(gd, 1.0, gt, 'years', gt))
        a = captured_prepare(dadi, g0, sd, ts); b = captured_prepare(dadi, gy, sd, [t * gt for t in ts])
        why = prepared_equal(a, b, gt)
        if why is not None: chk.fail('units:prepare:mismatch', 'replay: ' + why, common.jsonable(inp))
        return
    real = recorded_steps(dadi, g0, list(sd), [], inp.get('Ne'), N)
    if kind == 'steps-scale':
        r2 = recorded_steps(dadi, resolve(scale_graph(gd, inp['c'])), list(sd), [], None, N)
        if not steps_equal(real, r2): chk.fail('scale:calls:mismatch', 'replay: the calls differ', common.jsonable(inp))
    elif kind == 'steps-order':
        perm = inp['perm']
        r3 = recorded_steps(dadi, g0, [sd[i] for i in perm], [], inp.get('Ne'), N)
        want_last = 'R@' + '+'.join(str(int(real[-1].split('@')[1].split('+')[i])) for i in perm)
        if not (steps_equal(real[:-1], r3[:-1]) and r3[-1] == want_last): chk.fail('order:calls:mismatch', 'replay: the calls differ', common.jsonable(inp))
    else:
        raise common.Infra('unknown case kind %r' % kind)
