"""C03 — integration is linear in (density, theta0) and independent of the reference size.
K: time-step rule, injection, one full sweep and short multi-step drivers (const and affine-in-time
parameters) vs the exact-rational model, frozen/nomut flags on.
L3: superposition and re-scaling residuals on one_pop..five_pops (constant and time-varying parameters, Integration.use_delj_trick
off and on, parameter regimes moderate / ten decades wide / strong effective selection, members of very different absolute size),
on the equilibrium constructors (effective selection drawn per regime, raw coefficients placed on either side of a pivot), and on
whole models.  T: the regime switches of phi_1D / phi_1D_genic as functions of the call's arguments (Generated/EqSwitch.lean)."""
import numpy as np, math
from . import common, gen
from .common import rat, fmt_list, fmt_nd, fmt_grids, parse_nd, close
from .integ_common import *

PROP = 'C03'
GENERATED = ['Coeffs', 'EqSwitch']
NEEDS_BUILD = True
DRIVER_MODULES = ['Integ']

def k_dt(chk, ctx, rng, n):
    dadi = ctx['dadi']; I = dadi.Integration; drv = ctx['driver']
    for it in range(n):
        d = int(rng.integers(1, 6))
        nus, ms, gammas, hs, th, fr, nm = random_model(rng, d, frozen_ok=False, g_max=40, m_max=20, nu_range=(1e-2, 1e2))
        if it % 7 == 0: gammas = [0.0] * d
        dx = np.diff(np.linspace(0, 1, 5))
        impl = min(I._compute_dt(dx, nus[i], [ms[(i, j)] for j in range(d) if j != i] or [0], gammas[i], hs[i]) for i in range(d))
        out = drv.ask('dt %s %s' % (rat(I.timescale_factor), pops_str(d, nus, ms, gammas, hs)))
        if not out.startswith('ok '):
            chk.k_bad('dt', dict(d=d, nus=nus, ms=str(ms), gammas=gammas, hs=hs), impl, out, None); continue
        model = float('inf') if out[3:] == 'inf' else float(common.parse_frac(out[3:]))
        if math.isclose(impl, model, rel_tol=1e-12): chk.k_ok('dt')
        else: chk.k_bad('dt', dict(d=d, nus=nus, ms=str(ms), gammas=gammas, hs=hs), impl, model, abs(impl - model))

SZ_Q = {1: (5, 10), 2: (4, 5), 3: (3, 4), 4: (3, 3), 5: (3, 3)}
SZ_T = {1: (5, 20), 2: (4, 8), 3: (4, 6), 4: (3, 4), 5: (3, 3)}      # 5-D with 4 points per axis: up to ten minutes per exact sweep

def k_sweep(chk, ctx, rng, n, tier):
    """inject + one full time step through the public driver (T < dt so exactly one step) vs model `sweep`;
    then short multi-step runs vs `integ const` / `integ fn`."""
    dadi = ctx['dadi']; I = dadi.Integration; drv = ctx['driver']
    for it in range(n):
        import time as _t
        t_case = _t.time()
        d = 1 + it % 5
        lo, hi = (SZ_T if tier == 'thorough' else SZ_Q)[d]
        pts = int(rng.integers(lo, hi + 1))
        xx, kind = gen.grid(rng, pts)
        phi = gen.coarse(gen.density(rng, [pts] * d), 24)
        nus, ms, gammas, hs, th, fr, nm = random_model(rng, d)
        beta = gen.loguniform(rng, 0.2, 5) if (d == 1 and rng.random() < 0.5) else None
        if d >= 4 or (d == 3 and tier == 'thorough'):      # keep exact rationals small in 4-D/5-D and on the larger 3-D grids (still arbitrary floats, fewer mantissa bits)
            r = lambda v: gen.round_sig(v, 10)
            nus = [r(v) for v in nus]; gammas = [r(v) for v in gammas]; hs = [r(v) for v in hs]; th = r(th)
            ms = {k: r(v) for k, v in ms.items()}
            xx = gen.coarse(xx, 12); xx[0] = 0.0; xx[-1] = 1.0
            phi = gen.coarse(phi, 10)
        kw = kwargs_for(d, nus, ms, gammas, hs, th, fr, nm, beta)
        dts = [I._compute_dt(np.diff(xx), nus[i], [ms[(i, j)] for j in range(d) if j != i] or [0], gammas[i], hs[i]) for i in range(d)]
        dt = min(dts)
        nsteps = int(rng.integers(1, 4)) if d <= 2 else int(rng.integers(1, 3))
        mode = ['one', 'const', 'fn'][it % 3] if d <= 3 else ['one', 'fn'][it % 2]
        inp = dict(d=d, pts=pts, grid=kind, xx=xx, kw={k: v for k, v in kw.items()}, mode=mode, phi=phi)
        if mode == 'one':
            T = dt * float(rng.uniform(0.3, 0.9))
            # force the time-dependent driver (on-the-fly kernels) by passing theta0 as a function half of the time
            kw2 = dict(kw)
            if rng.random() < 0.5 or d > 3:
                kw2['theta0'] = (lambda t, v=th: v)
            impl = integrate(dadi, d, phi.copy(), xx, T, **kw2)
            line = ' '.join(['sweep', rat(T), bools_str(fr), bools_str(nm), rat(th), rat(beta) if beta is not None else '-',
                             pops_str(d, nus, ms, gammas, hs), fmt_grids([xx] * d), fmt_nd(phi)])
            out = drv.ask(line)
            op = 'sweep:%dD' % d
        elif mode == 'const':
            T = dt * (nsteps - 1 + float(rng.uniform(0.2, 0.8)))
            impl = integrate(dadi, d, phi.copy(), xx, T, **kw)
            line = ' '.join(['integ', 'const', rat(I.timescale_factor), rat(T), '0', bools_str(fr), bools_str(nm), rat(th),
                             rat(beta) if beta is not None else '-', pops_str(d, nus, ms, gammas, hs), fmt_grids([xx] * d), fmt_nd(phi)])
            out = drv.ask(line)
            if out.startswith('ok '): out = 'ok ' + out[3:].split(' ', 1)[1]
            op = 'integ_const:%dD' % d
        else:
            # affine-in-time nu of population 1 and theta0
            T = dt * (nsteps - 1 + float(rng.uniform(0.2, 0.8))) * 0.7
            c1 = float(rng.uniform(0, 2)) * nus[0] / max(T, 1e-9) * 0.3
            th1 = float(rng.uniform(-0.2, 0.2)) * th / max(T, 1e-9)
            kwf = dict(kw)
            nuname = 'nu' if d == 1 else 'nu1'
            kwf[nuname] = (lambda t, a=nus[0], b=c1: a + b * t)
            kwf['theta0'] = (lambda t, a=th, b=th1: a + b * t)
            impl = integrate(dadi, d, phi.copy(), xx, T, **kwf)
            zero = [0.0] * d
            p1 = pops_str(d, [c1] + [0.0] * (d - 1), {}, zero, zero)
            line = ' '.join(['integ', 'fn', rat(I.timescale_factor), rat(T), '0', bools_str(fr), bools_str(nm), rat(th), rat(th1),
                             rat(beta) if beta is not None else '-', '0' if beta is not None else '-',
                             pops_str(d, nus, ms, gammas, hs), p1, fmt_grids([xx] * d), fmt_nd(phi)])
            out = drv.ask(line)
            op = 'integ_fn:%dD' % d
        if not out.startswith('ok '):
            chk.k_bad(op, inp, None, out, None); continue
        model, _ = parse_nd(out[3:])
        ok, err, scale = close(impl, model, rtol=1e-9)
        if ok: chk.k_ok(op)
        else: chk.k_bad(op, inp, impl, model, err)
        import time as _t
        chk.stats.setdefault('K_seconds', {}); chk.stats['K_seconds'][op] = round(chk.stats['K_seconds'].get(op, 0) + (_t.time() - t_case), 2)
        chk.stat('K:' + mode); chk.stat('frozen:%d' % sum(fr)); chk.stat('nomut:%d' % sum(nm))

def timefun(rng, v, T, positive=True):
    """a smooth function of time around v"""
    a = float(rng.uniform(0.2, 1.0)); w = float(rng.uniform(0.5, 3)) / max(T, 1e-3)
    return lambda t, v=v, a=a, w=w: v * (1 + 0.5 * a * math.sin(w * t))

class delj_trick:
    """run a block with the module option Integration.use_delj_trick set (and restored afterwards)"""
    def __init__(self, I, on): self.I = I; self.on = bool(on)
    def __enter__(self): self.old = self.I.use_delj_trick; self.I.use_delj_trick = self.on
    def __exit__(self, *a): self.I.use_delj_trick = self.old

# Parameter regimes.  The invariance is exact, so every regime switch on the way (the fallback of Chang-Cooper's delj, the
# sign tests of the boundary fluxes, the positivity test of the time-step rule, overflow guards) has to be decided by
# reference-size-invariant quantities.  To put the raw (reference-size dependent) rates m, gamma, gamma/c, m/c and the invariant
# ones (gamma*nu, m*nu, drift/diffusion ratios per cell) on opposite sides of whatever threshold a guard may use:
#   'moderate'  rates of order 1..10 (the bulk), any c in [0.05,20]
#   'wide'      magnitudes log-uniform over ten decades (1e-9 .. 30): every cell quantity and its c-fold sweep a continuum of
#               absolute sizes.  c is a power of two there: the two computations are then the same floating-point
#               computation up to exact binary scalings, so the comparison is sharp however small the drift
#               (with a general c the closed form of delj loses eps/r digits for a drift/diffusion ratio r -> 0)
#   'strong'    |gamma*nu| = 30..600 with nu log-uniform in 0.02..50: raw gamma between ~1 and ~3e4, so |gamma| and |gamma*nu|
#               differ by up to a factor 50 either way
REGIMES = ['moderate', 'wide', 'strong']

def regime_model(rng, d, regime, delj=False, xx=None):
    nus, ms, gammas, hs, th, fr, nm = random_model(rng, d)
    if delj:
        # Chang-Cooper's delj evaluates exp(r), r = 2*M*dx/V per cell (|r| <= 4|gamma*nu|dx + 4 nu sum(m)): stay below the
        # overflow of exp (r ~ 709), which is the same for both parameterisations and not the subject here
        ms = {(i, j): min(v, 40.0 / (nus[i] * max(d - 1, 1))) for (i, j), v in ms.items()}
    if regime == 'wide':
        gammas = [float(rng.choice([-1.0, 1.0])) * gen.loguniform(rng, 1e-9, 30) for _ in range(d)]
        ms = {k: (gen.loguniform(rng, 1e-9, 10) if v != 0 else 0.0) for k, v in ms.items()}
    elif regime == 'strong':
        nus = [gen.loguniform(rng, 0.02, 50) for _ in range(d)]
        gmax = 600.0
        if delj:
            gmax = min(gmax, 100.0 / float(np.max(np.diff(xx))))
            ms = {(i, j): min(v, 40.0 / (nus[i] * max(d - 1, 1))) for (i, j), v in ms.items()}       # nus were redrawn
        gammas = [float(rng.choice([-1.0, 1.0])) * gen.loguniform(rng, 30, gmax) / nus[i] for i in range(d)]
    return nus, ms, gammas, hs, th, fr, nm

def pick_c(rng, it, regime):
    """reference-size ratio: the end points 0.05 and 20 of the quantified range, powers of two, anything in between"""
    if regime == 'wide':
        return float(rng.choice([1 / 16, 1 / 8, 8.0, 16.0]))
    k = it % 4
    if k == 0: return float(2.0 ** int(rng.choice([-4, -3, -2, -1, 1, 2, 3, 4])))
    if k == 1: return float(rng.choice([0.05, 20.0]))
    return gen.loguniform(rng, 0.05, 20)

def short_T(dadi, rng, d, xx, nus, ms, gammas, hs, lo=1.5, hi=5.5):
    """a duration of a few time steps of the schedule the drivers will choose"""
    I = dadi.Integration
    dt = min(I._compute_dt(np.diff(xx), nus[i], [ms[(i, j)] for j in range(d) if j != i] or [0], gammas[i], hs[i]) for i in range(d))
    return float(dt * rng.uniform(lo, hi))

def l3_superposition(chk, ctx, rng, n, tier):
    dadi = ctx['dadi']; I = dadi.Integration
    for it in range(n):
        d = 1 + it % 5
        pts = {1: 20, 2: 12, 3: 9, 4: 6, 5: 5}[d] + int(rng.integers(0, 3))
        xx = dadi.Numerics.default_grid(pts)
        phi1 = gen.density(rng, [pts] * d); phi2 = gen.density(rng, [pts] * d)
        delj = bool((it // 10) % 2)
        regime = REGIMES[(it // 20) % 3]
        nus, ms, gammas, hs, th, fr, nm = regime_model(rng, d, regime, delj, xx)
        th1, th2 = float(rng.uniform(0, 3)), float(rng.uniform(0, 3))
        a, b = float(rng.uniform(-2, 3)), float(rng.uniform(-2, 3))
        if a * th1 + b * th2 < 0:          # the drivers reject a negative theta0: keep the combination admissible
            a, b = abs(a), abs(b)
        # degenerate members of the family, where a shortcut on "nothing to do" would go wrong: a zero density with theta0 != 0
        # ((phi, th) = (phi, 0) + (0, th)), and a combination whose densities cancel exactly while the mutation rates do not;
        # and members far from unit size: a cut-off on the absolute size of a density entry or of the mutation influx would
        # break additivity there — 'mixed': one member is tiny and enters with a correspondingly large coefficient, so that the
        # member and the combination sit on opposite sides of any such cut-off; 'tiny' / 'huge': everything is
        shape = ['generic', 'zero-density', 'cancelling', 'mixed', 'tiny', 'huge'][(it // 5) % 6]
        if shape == 'zero-density':
            phi2 = np.zeros_like(phi1); th1 = 0.0; a, b = 1.0, 1.0; th2 = max(th2, 0.1)
        elif shape == 'cancelling':
            phi2 = phi1.copy(); a, b = 1.0, -1.0; th1, th2 = max(th1, th2) + 0.5, min(th1, th2)
        elif shape == 'mixed':
            s1 = gen.loguniform(rng, 1e-14, 1e-4)
            phi1 = phi1 * s1; th1 = max(th1, 0.1) * s1; a = (abs(a) + 0.1) / s1; b = abs(b) + 0.1
        elif shape == 'tiny':
            s1, s2 = gen.loguniform(rng, 1e-14, 1e-6), gen.loguniform(rng, 1e-14, 1e-6)
            phi1 = phi1 * s1; th1 = th1 * s1; phi2 = phi2 * s2; th2 = th2 * s2; a, b = abs(a) + 0.1, abs(b) + 0.1
        elif shape == 'huge':
            a, b = gen.loguniform(rng, 1e3, 1e9), gen.loguniform(rng, 1e3, 1e9)
        T = float(rng.uniform(0.005, 0.05)) if regime == 'moderate' else short_T(dadi, rng, d, xx, nus, ms, gammas, hs)
        varying = bool((it + it // 5) % 2)
        def run(phi, theta):
            kw = kwargs_for(d, nus, ms, gammas, hs, theta, fr, nm)
            if varying:
                nm0 = 'nu' if d == 1 else 'nu1'
                kw[nm0] = (lambda t, v=nus[0]: v * (1 + 0.3 * math.sin(40 * t)))
                if isinstance(theta, float):
                    kw['theta0'] = (lambda t, v=theta: v * (1 + 0.2 * t))
            with delj_trick(I, delj):
                return integrate(dadi, d, phi, xx, T, **kw)        # the caller's arrays are passed as they are (and re-used below)
        key = 'superposition:%dD:varying=%s:%s' % (d, varying, shape) + (':delj' if delj else '') + ('' if regime == 'moderate' else ':' + regime)
        chk.l3((key, tuple(fr), tuple(nm)))
        chk.stat('superposition:delj=%s:%s' % (delj, regime))
        inp = dict(d=d, pts=pts, nus=nus, ms=str(ms), gammas=gammas, hs=hs, frozen=fr, nomut=nm, th1=th1, th2=th2, a=a, b=b, T=T, varying=varying,
                   shape=shape, use_delj_trick=delj, regime=regime)
        try:
            r1 = run(phi1, th1); r2 = run(phi2, th2)
            r12 = run(a * phi1 + b * phi2, a * th1 + b * th2)   # built from the same phi1, phi2 after they were integrated
        except Exception as e:
            chk.fail(key + ':raises:' + type(e).__name__, 'integrator raises %r' % (e,), inp); continue
        ref = a * r1 + b * r2
        scale = max(np.max(np.abs(a * r1)), np.max(np.abs(b * r2)), 1e-300)
        err = float(np.max(np.abs(r12 - ref)))
        if not (err <= 1e-10 * scale):
            chk.fail(key, 'F(a*phi1+b*phi2, a*th1+b*th2) differs from a*F(phi1,th1)+b*F(phi2,th2) by %.3g (scale %.3g)' % (err, scale), inp)

def l3_sign(chk, ctx, rng, n):
    """linearity for densities of ANY sign (members of the superposition family with theta0 = 0): F(-phi) = -F(phi), and
    F(phi with the lines through some entries negated) + F(the complementary part) = F(phi); every driver, constant
    (pre-computed-coefficient kernels) and time-varying, each population's axis"""
    dadi = ctx['dadi']; I = dadi.Integration
    for it in range(n):
        d = 1 + it % 5
        varying = bool((it // 5) % 2)
        pts = {1: 16, 2: 10, 3: 8, 4: 6, 5: 5}[d] + int(rng.integers(0, 2))
        xx = dadi.Numerics.default_grid(pts)
        phi = gen.density(rng, [pts] * d)
        nus, ms, gammas, hs, th, fr, nm = regime_model(rng, d, 'moderate', False, xx)
        T = float(rng.uniform(0.005, 0.03))
        def run(p):
            kw = kwargs_for(d, nus, ms, gammas, hs, 0.0, fr, nm)
            if varying:
                kw['nu' if d == 1 else 'nu1'] = (lambda t, v=nus[0]: v * (1 + 0.3 * math.sin(40 * t)))
            return integrate(dadi, d, p, xx, T, **kw)
        # a part of the density that is non-positive along whole lines of one axis: the entries of a random set of lines, negated
        ax = int(rng.integers(d))
        sel = rng.random([pts if l != ax else 1 for l in range(d)]) < 0.5
        part = np.where(np.broadcast_to(sel, phi.shape), -phi, 0.0)
        key = 'superposition:%dD:varying=%s:sign' % (d, varying)
        chk.l3((key, ax, tuple(fr)))
        inp = dict(d=d, pts=pts, nus=nus, ms=str(ms), gammas=gammas, hs=hs, frozen=fr, nomut=nm, T=T, varying=varying, axis=ax, phi=phi, lines=sel)
        try:
            r = run(phi); rn = run(-phi); rp = run(part); rc = run(phi + part)
        except Exception as e:
            chk.fail(key + ':raises:' + type(e).__name__, 'integrator raises %r on a density with negative entries and theta0 = 0' % (e,), inp); continue
        scale = max(float(np.max(np.abs(r))), 1e-300)
        e1 = float(np.max(np.abs(rn + r))); e2 = float(np.max(np.abs(rc - (r + rp))))
        if not (e1 <= 1e-10 * scale):
            chk.fail(key + ':negated', 'F(-phi, 0) differs from -F(phi, 0) by %.3g (scale %.3g)' % (e1, scale), inp)
        elif not (e2 <= 1e-10 * scale):
            chk.fail(key + ':lines', 'F(phi + part, 0) differs from F(phi, 0) + F(part, 0) by %.3g (scale %.3g) for a part that is non-positive along whole lines of axis %d' % (e2, scale, ax), inp)

def l3_rescale(chk, ctx, rng, n, tier):
    """(nu, T, m, gamma, theta0) -> (c nu, c T, m/c, gamma/c, theta0/c) on one_pop..five_pops: constant parameters (pre-computed
    tridiagonal systems in 1-3 populations) and time-varying ones (systems built on the fly by the C kernels, as in every 4/5
    population run), Integration.use_delj_trick off and on, in each parameter regime."""
    dadi = ctx['dadi']; I = dadi.Integration
    for it in range(n):
        d = 1 + it % 5
        pts = {1: 20, 2: 12, 3: 9, 4: 6, 5: 5}[d] + int(rng.integers(0, 3))
        xx = dadi.Numerics.default_grid(pts)
        phi = gen.density(rng, [pts] * d)
        varying = bool((it // 5) % 2)
        delj = bool((it // 10) % 2)
        regime = REGIMES[(it // 20) % 3]
        nus, ms, gammas, hs, th, fr, nm = regime_model(rng, d, regime, delj, xx)
        c = pick_c(rng, it, regime)
        T = float(rng.uniform(0.005, 0.05)) if regime == 'moderate' else short_T(dadi, rng, d, xx, nus, ms, gammas, hs)
        kw = kwargs_for(d, nus, ms, gammas, hs, th, fr, nm)
        kwc = kwargs_for(d, [c * v for v in nus], {k: v / c for k, v in ms.items()}, [g / c for g in gammas], hs, th / c, fr, nm)
        if varying:
            nm0 = 'nu' if d == 1 else 'nu1'
            f = (lambda t, v=nus[0]: v * (1 + 0.3 * math.sin(40 * t)))
            kw[nm0] = f
            kwc[nm0] = (lambda t, f=f, c=c: c * f(t / c))
        pow2 = c == 2.0 ** round(math.log2(c))
        key = 'rescale:%dD:varying=%s' % (d, varying) + (':delj' if delj else '') + ('' if regime == 'moderate' else ':' + regime)
        chk.l3((key, tuple(fr), pow2))
        chk.stat('rescale:delj=%s:%s' % (delj, regime))
        inp = dict(d=d, pts=pts, c=c, nus=nus, ms=str(ms), gammas=gammas, hs=hs, frozen=fr, nomut=nm, theta0=th, T=T, varying=varying,
                   use_delj_trick=delj, regime=regime)
        try:
            with delj_trick(I, delj):
                r = integrate(dadi, d, phi, xx, T, **kw)
                rc = integrate(dadi, d, phi, xx, c * T, **kwc)        # same starting density object, second parameterisation
        except Exception as e:
            chk.fail(key + ':raises:' + type(e).__name__, 'integrator raises %r' % (e,), inp); continue
        # a power of two re-scales every intermediate exactly: nothing but the last bits may differ
        ok, err, scale = close(rc, r, rtol=1e-12 if regime == 'wide' else 1e-9)
        # T may sit within round-off of a multiple of dt: then one run takes an extra negligible step — still equal to 1e-9
        if not ok:
            chk.fail(key, 'densities differ by %.3g (scale %.3g) after re-expressing relative to a reference size %g times larger%s' % (
                err, scale, c, ' (Integration.use_delj_trick = True)' if delj else ''), inp)

def l3_dt_wiring(chk, ctx, rng, n):
    """The time-step rule is applied to the right quantities at every call site: each driver (constant and
    time-dependent path, 1-5 populations) must call the rule once per population k with (nu_k, [m_kl for l != k], gamma_k, h_k);
    and the resulting dt schedule must scale by exactly c under the reference-size re-scaling (all regimes,
    including the weak-everything regime where the selection term decides)."""
    dadi = ctx['dadi']; I = dadi.Integration
    real = I._compute_dt
    for it in range(n):
        d = 1 + it % 5
        varying = bool((it // 5) % 2)
        weak = bool((it // 10) % 2)
        pts = 5
        xx = dadi.Numerics.default_grid(pts)
        phi = gen.density(rng, [pts] * d)
        if weak:
            nus = [float(rng.uniform(2, 10)) for _ in range(d)]
            gammas = [float(rng.uniform(-0.3, 0.3)) for _ in range(d)]
            ms = {(i, j): float(rng.uniform(0, 0.02)) for i in range(d) for j in range(d) if i != j}
        else:
            nus = [gen.loguniform(rng, 0.1, 10) for _ in range(d)]
            gammas = [float(rng.uniform(-10, 10)) for _ in range(d)]
            ms = {(i, j): float(rng.uniform(0, 5)) for i in range(d) for j in range(d) if i != j}
        hs = [float(rng.uniform(0.05, 0.95)) for _ in range(d)]
        th = float(rng.uniform(0.5, 2))
        c = float(rng.choice([0.0625, 0.25, 4.0, 16.0]))
        def run(c):
            kw = kwargs_for(d, [c * v for v in nus], {k: v / c for k, v in ms.items()}, [g / c for g in gammas], hs, th / c)
            if varying:
                kw['theta0'] = (lambda t, v=th / c: v)
            calls = []
            def rec(dx, nu, ms_, gamma, h):
                r = real(dx, nu, ms_, gamma, h)
                calls.append((float(nu), tuple(float(x) for x in ms_), float(gamma), float(h), float(r)))
                return r
            I._compute_dt = rec
            try:
                T = 1e-9 * c
                integrate(dadi, d, phi.copy(), xx, T, **kw)
            finally:
                I._compute_dt = real
            return calls
        key = 'dt-wiring:%dD:varying=%s' % (d, varying)
        chk.l3((key, weak))
        inp = dict(d=d, varying=varying, weak=weak, nus=nus, ms={'%d%d' % (i+1, j+1): v for (i, j), v in ms.items()}, gammas=gammas, hs=hs, c=c)
        try:
            calls1 = run(1.0); callsc = run(c)
        except Exception as e:
            chk.fail(key + ':raises:' + type(e).__name__, 'integrator raises %r' % (e,), inp); continue
        want = [(nus[k], tuple(ms[(k, l)] for l in range(d) if l != k) or (0.0,), gammas[k], hs[k]) for k in range(d)]
        got = [cl[:4] for cl in calls1[:d]]
        def same(a, b):
            return abs(a[0] - b[0]) <= 1e-12 * abs(b[0]) and len(a[1]) == len(b[1]) and all(abs(x - y) <= 1e-12 * max(abs(y), 1e-300) for x, y in zip(sorted(a[1]), sorted(b[1]))) \
                and abs(a[2] - b[2]) <= 1e-12 * max(abs(b[2]), 1e-300) and abs(a[3] - b[3]) <= 1e-12
        if len(calls1) < d or not all(same(g, w) for g, w in zip(got, want)):
            chk.fail(key + ':args', 'time-step rule called with %r, expected per-population (nu_k, [m_kl], gamma_k, h_k) = %r' % (got, want), inp)
            continue
        dt1 = min(cl[4] for cl in calls1[:d]); dtc = min(cl[4] for cl in callsc[:d])
        if not (abs(dtc - c * dt1) <= 1e-12 * abs(c * dt1)):
            chk.fail(key + ':homogeneity', 'dt after re-scaling by c=%g is %.17g, expected c*dt = %.17g' % (c, dtc, c * dt1), inp)

EQ_VARIANTS = ['genic', 'dominance', 'genic', 'dominance', 'genic', 'snm']
EQ_STRATA = ['weak', 'mid', 'near', 'strong']

def eq_params(rng, it):
    """One equilibrium in two parameterisations (nu, gamma) and (c nu, gamma/c).  The density depends on the effective selection
    G = gamma*nu*4beta/(beta+1)^2 only, so G is drawn first, per stratum: weak (the exact closed form and its large-|G| asymptote
    differ visibly), mid, near (around the switch to the asymptotic / re-normalised forms), strong (exp(2|G|) overflows).  Then
    the raw coefficients are placed on purpose: |gamma| of one parameterisation below and of the other above a pivot drawn
    log-uniformly in 20..2000 (not tied to the constants in the source), as far as nu stays within 1e-3..1e3 — so that a
    switch decided on the raw gamma (or on nu) instead of G takes different branches for the two."""
    variant = EQ_VARIANTS[it % len(EQ_VARIANTS)]
    stratum = EQ_STRATA[(it // len(EQ_VARIANTS)) % len(EQ_STRATA)]
    beta = 1.0 if rng.random() < 0.6 else gen.loguniform(rng, 0.2, 5)
    bf = 4 * beta / (beta + 1) ** 2
    h = 0.5 if variant != 'dominance' else float(rng.choice([rng.uniform(0.05, 0.45), rng.uniform(0.55, 0.95)]))
    th = float(rng.uniform(0.5, 2))
    k = int(rng.integers(4))
    c = [0.05, 20.0, float(2.0 ** int(rng.choice([-4, -3, -2, -1, 1, 2, 3, 4]))), gen.loguniform(rng, 0.05, 20)][k]
    if variant == 'snm':
        return dict(variant=variant, stratum='-', nu=gen.loguniform(rng, 1e-2, 1e2), gamma=0.0, h=h, beta=beta, theta0=th, c=c, G=0.0, straddle=False)
    absG = {'weak': float(rng.uniform(0.5, 9)), 'mid': float(rng.uniform(9, 250)), 'near': float(rng.uniform(250, 350)),
            'strong': gen.loguniform(rng, 350, 1500)}[stratum]
    G = -absG if rng.random() < 0.65 else absG
    straddle = False
    for _ in range(20):
        pivot = gen.loguniform(rng, 20, 2000)
        u = float(rng.uniform(0.05, 0.95))
        ga = pivot * c ** u                  # |gamma| of the first parameterisation; the second has |gamma|/c
        nu = absG / (ga * bf)
        if 1e-3 <= nu <= 1e3 and 1e-3 <= c * nu <= 1e3:
            straddle = True; break
    if not straddle:
        nu = gen.loguniform(rng, max(1e-2, 1e-2 / c), min(1e2, 1e2 / c)); ga = absG / (nu * bf)
    return dict(variant=variant, stratum=stratum, nu=nu, gamma=math.copysign(ga, G), h=h, beta=beta, theta0=th, c=c, G=G, straddle=straddle)

def eq_same(a, b, rtol=1e-9):
    """entry by entry: a guard that matters only where the density is exponentially small still has to be found"""
    a = np.asarray(a, float); b = np.asarray(b, float)
    if not (np.all(np.isfinite(a)) and np.all(np.isfinite(b))):
        return False, float('inf')
    tiny = 1e-280
    err = np.abs(a - b) / np.maximum(np.maximum(np.abs(a), np.abs(b)), tiny)
    err = np.where(np.maximum(np.abs(a), np.abs(b)) < tiny, 0.0, err)
    return bool(np.all(err <= rtol)), float(np.max(err))

def l3_equilibrium(chk, ctx, rng, n):
    """the equilibrium constructors are part of 'whole models': phi_1D(c*nu, theta0/c, gamma/c) must equal phi_1D(nu, theta0, gamma),
    finite and entry by entry, in every regime of the effective selection and wherever the raw coefficients fall"""
    dadi = ctx['dadi']; P = dadi.PhiManip
    xx = dadi.Numerics.default_grid(30)
    for it in range(n):
        q = eq_params(rng, it)
        key = 'equilibrium-rescale:%s' % ('snm' if q['gamma'] == 0 else q['variant'])
        chk.l3((key, q['stratum'], q['G'] < 0, q['straddle'], q['beta'] == 1.0))
        chk.stat('equilibrium:%s:%s' % (q['stratum'], 'raw-straddles-pivot' if q['straddle'] else 'free'))
        for thr in (300.0,):   # coverage report only: how often |gamma| and |G| end up on opposite sides of the source's own constant
            if (abs(q['gamma']) > thr) != (abs(q['G']) > thr) or (abs(q['gamma'] / q['c']) > thr) != (abs(q['G']) > thr):
                chk.stat('equilibrium:raw-and-effective-on-opposite-sides-of-300')
        inp = {k: v for k, v in q.items()}
        nu, th, gamma, h, beta, c = q['nu'], q['theta0'], q['gamma'], q['h'], q['beta'], q['c']
        try:
            a = P.phi_1D(xx, nu=nu, theta0=th, gamma=gamma, h=h, beta=beta)
            b = P.phi_1D(xx, nu=c * nu, theta0=th / c, gamma=gamma / c, h=h, beta=beta)
        except Exception as e:
            chk.fail(key + ':raises:' + type(e).__name__, 'phi_1D raises %r' % (e,), inp); continue
        ok, err = eq_same(b, a)
        if not ok:
            chk.fail(key, 'phi_1D(nu=c*nu, theta0/c, gamma/c) differs from phi_1D(nu, theta0, gamma) by %.3g (entry-wise relative; inf = non-finite entries), '
                     'c=%g nu=%g gamma=%g (gamma*nu*4beta/(beta+1)^2 = %g) h=%g beta=%g' % (err, c, nu, gamma, q['G'], h, beta), inp)
        # "output scales with theta0": the equilibrium density is linear in theta0 — also when the same (grid, gamma, nu, h) was already
        # evaluated with another theta0 earlier in this process (a memo of the quadratures must not capture theta0)
        s_ = float(rng.choice([0.25, 3.0, 1e-4, 40.0]))
        try:
            a2 = P.phi_1D(xx, nu=nu, theta0=s_ * th, gamma=gamma, h=h, beta=beta)
            a3 = P.phi_1D(xx, nu=nu, theta0=th, gamma=gamma, h=h, beta=beta)
        except Exception as e:
            chk.fail(key + ':theta0:raises:' + type(e).__name__, 'phi_1D raises %r' % (e,), inp); continue
        ok2, err2 = eq_same(a2, s_ * a)
        ok3, err3 = eq_same(a3, a)
        if not ok2:
            chk.fail(key + ':theta0-linear', 'phi_1D(theta0=%g*theta0) differs from %g*phi_1D(theta0) by %.3g (entry-wise relative), nu=%g gamma=%g h=%g beta=%g' % (s_, s_, err2, nu, gamma, h, beta), dict(inp, factor=s_))
        if not ok3:
            chk.fail(key + ':theta0-history', 'phi_1D with the same arguments differs after a call with another theta0 by %.3g (entry-wise relative)' % err3, dict(inp, factor=s_))

def l3_equilibrium_X(chk, ctx, rng, n):
    """the X-chromosome pair phi_1D_X / one_pop_X takes the same parameters relative to the same reference size"""
    dadi = ctx['dadi']; P = dadi.PhiManip
    xx = dadi.Numerics.default_grid(30)
    for it in range(n):
        nu = gen.loguniform(rng, 0.1, 10); th = float(rng.uniform(0.5, 2))
        gamma = 0.0 if it % 3 == 0 else float(rng.uniform(-20, 5))
        h = float(rng.uniform(0.05, 0.95)); beta = gen.loguniform(rng, 0.3, 3); alpha = gen.loguniform(rng, 0.5, 3)
        c = float(2.0 ** int(rng.choice([-3, -2, -1, 1, 2, 3]))) if it % 2 else gen.loguniform(rng, 0.05, 20)
        key = 'equilibrium-rescale:X%s' % ('-neutral' if gamma == 0 else '')
        chk.l3((key,))
        inp = dict(nu=nu, theta0=th, gamma=gamma, h=h, beta=beta, alpha=alpha, c=c)
        try:
            a = P.phi_1D_X(xx, nu=nu, theta0=th, gamma=gamma, h=h, beta=beta, alpha=alpha)
            b = P.phi_1D_X(xx, nu=c * nu, theta0=th / c, gamma=gamma / c, h=h, beta=beta, alpha=alpha)
        except Exception as e:
            chk.fail(key + ':raises:' + type(e).__name__, 'phi_1D_X raises %r' % (e,), inp); continue
        ok, err = eq_same(b, a, rtol=1e-8)
        if not ok:
            chk.fail(key, 'phi_1D_X(nu=c*nu, theta0/c, gamma/c) differs from phi_1D_X(nu, theta0, gamma) by %.3g (entry-wise relative), c=%g nu=%g gamma=%g h=%g' % (
                err, c, nu, gamma, h), inp)

def l3_models(chk, ctx, rng, n):
    """whole library models with explicit theta: re-scaling leaves the spectrum unchanged"""
    dadi = ctx['dadi']; D2 = dadi.Demographics2D; D1 = dadi.Demographics1D; I = dadi.Integration
    pts = 24; ns2 = (5, 4)
    cases = []
    def two_epoch_sel(c, nu, T, g):
        xx = dadi.Numerics.default_grid(pts)
        phi = dadi.PhiManip.phi_1D(xx, nu=c, theta0=1.0 / c, gamma=g / c)
        phi = dadi.Integration.one_pop(phi, xx, T * c, nu * c, gamma=g / c, theta0=1.0 / c)
        return dadi.Spectrum.from_phi(phi, (8,), (xx,))
    def anc_sel_epoch(c, nuA, nu, T, g, h, growth):
        # ancestral size differs from the reference size; selection acts from the start; then a size change (optionally exponential)
        xx = dadi.Numerics.default_grid(pts)
        phi = dadi.PhiManip.phi_1D(xx, nu=nuA * c, theta0=1.0 / c, gamma=g / c, h=h)
        nuf = (lambda t: c * nuA * (nu / nuA) ** (t / (T * c))) if growth else nu * c
        phi = dadi.Integration.one_pop(phi, xx, T * c, nuf, gamma=g / c, h=h, theta0=1.0 / c)
        return dadi.Spectrum.from_phi(phi, (8,), (xx,))
    def im_like(c, nu1, nu2, T, m12, m21, g):
        xx = dadi.Numerics.default_grid(pts)
        phi = dadi.PhiManip.phi_1D(xx, nu=c, theta0=1.0 / c)
        phi = dadi.PhiManip.phi_1D_to_2D(xx, phi)
        phi = dadi.Integration.two_pops(phi, xx, T * c, nu1 * c, nu2 * c, m12=m12 / c, m21=m21 / c, gamma1=g / c, gamma2=g / c, theta0=1.0 / c)
        phi = dadi.PhiManip.phi_2D_admix_1_into_2(phi, 0.3, xx, xx)
        phi = dadi.Integration.two_pops(phi, xx, 0.02 * c, nu1 * c, nu2 * c, theta0=1.0 / c)
        return dadi.Spectrum.from_phi(phi, ns2, (xx, xx))
    def split_growth_sel(c, nu1, nu2, T, m, g):
        # split, then exponential growth of population 2 with migration and selection (time-varying parameters: kernels built on the fly)
        xx = dadi.Numerics.default_grid(16)
        phi = dadi.PhiManip.phi_1D(xx, nu=c, theta0=1.0 / c, gamma=g / c)
        phi = dadi.PhiManip.phi_1D_to_2D(xx, phi)
        nu2f = lambda t: c * nu2 ** (t / (T * c))
        phi = dadi.Integration.two_pops(phi, xx, T * c, nu1 * c, nu2f, m12=m / c, m21=m / c, gamma1=g / c, gamma2=g / c, theta0=1.0 / c)
        return dadi.Spectrum.from_phi(phi, ns2, (xx, xx))
    for it in range(n):
        k = it % 4
        c = [float(2.0 ** int(rng.choice([-3, -2, -1, 1, 2, 3]))), 0.05, 20.0, gen.loguniform(rng, 0.05, 20)][int(rng.integers(4))]
        delj = bool((it // 4) % 2) and k in (1, 3)
        if k == 0:
            args = (gen.loguniform(rng, 0.2, 5), float(rng.uniform(0.02, 0.1)), float(rng.uniform(-5, 3)) if it % 8 == 0 else 0.0)
            f = two_epoch_sel; key = 'model-rescale:two_epoch%s' % ('_sel' if args[2] != 0 else '')
        elif k == 1:
            q = eq_params(rng, 6 * (it // 4) + (it // 4 + it // 16) % 2)      # genic / dominance alternately, strata in turn
            nuA = q['nu']; g = q['gamma']; c = q['c']
            nuB = nuA * gen.loguniform(rng, 0.3, 3)
            T = float(rng.uniform(5, 30)) * I.timescale_factor / max(0.25 / min(nuA, nuB), abs(g) * 0.25)      # a few dozen time steps
            args = (nuA, nuB, T, g, q['h'], bool(rng.integers(2)))
            f = anc_sel_epoch; key = 'model-rescale:anc_sel_epoch:%s' % q['stratum']
        elif k == 2:
            args = (gen.loguniform(rng, 0.2, 5), gen.loguniform(rng, 0.2, 5), float(rng.uniform(0.02, 0.08)), float(rng.uniform(0, 3)), float(rng.uniform(0, 3)), 0.0)
            f = im_like; key = 'model-rescale:split_mig_admix'
        else:
            args = (gen.loguniform(rng, 0.2, 5), gen.loguniform(rng, 0.2, 5), float(rng.uniform(0.01, 0.03)), float(rng.uniform(0, 3)), float(rng.uniform(-8, 4)))
            f = split_growth_sel; key = 'model-rescale:split_growth_sel'
        if delj: key += ':delj'
        chk.l3((key, c))
        inp = dict(model=f.__name__, c=c, args=args, use_delj_trick=delj)
        try:
            with delj_trick(I, delj):
                a = f(1.0, *args); b = f(c, *args)
        except Exception as e:
            chk.fail(key + ':raises:' + type(e).__name__, 'model raises %r' % (e,), inp); continue
        ok, err, scale = close(np.asarray(b), np.asarray(a), rtol=1e-8)
        if not ok:
            chk.fail(key, 'spectrum changes by %.3g (scale %.3g) when the model is re-expressed relative to a reference size %g times larger' % (err, scale, c), inp)

def l3_onepop_X(chk, ctx, rng, n):
    """the X-chromosome integrator one_pop_X is one of the public integrators: linear in (phi, theta0) and invariant under the
    reference-size re-scaling, constant and time-dependent parameters, beta and alpha != 1 (seed C03-14: theta0 and alpha swapped at the
    call of the constant-parameter helper)"""
    dadi = ctx['dadi']; I = dadi.Integration
    if not hasattr(I, 'one_pop_X'): return
    for it in range(n):
        pts = int(rng.integers(12, 26)); xx = dadi.Numerics.default_grid(pts)
        phi1 = gen.density(rng, [pts]); phi2 = gen.density(rng, [pts])
        nu = gen.loguniform(rng, 0.2, 5); g = float(rng.uniform(-4, 4)); h = float(rng.uniform(0, 1))
        beta = float(rng.choice([1.0, 0.5, 2.0])); alpha = float(rng.choice([1.0, 2.5, 0.4]))
        T = float(rng.uniform(0.02, 0.15)); th1 = float(rng.uniform(0.3, 3)); th2 = float(rng.uniform(0.3, 3))
        a = float(rng.uniform(0.2, 2)); b = float(rng.uniform(0.2, 2)); c = float(rng.choice([0.05, 0.4, 3.0, 20.0]))
        varying = False      # one_pop_X is implemented for constant parameters only (a function of time raises NotImplementedError, as documented)
        def run(phi, theta, cc=1.0):
            nuv = (lambda t, v=nu * cc: v) if varying else nu * cc
            return I.one_pop_X(phi.copy(), xx, T * cc, nu=nuv, gamma=g / cc, h=h, beta=beta, alpha=alpha, theta0=theta / cc)
        inp = dict(pts=pts, nu=nu, gamma=g, h=h, beta=beta, alpha=alpha, T=T, theta1=th1, theta2=th2, a=a, b=b, c=c, varying=varying, phi1=phi1, phi2=phi2)
        key = 'one_pop_X:varying=%s' % varying
        chk.l3((key, beta != 1.0, alpha != 1.0))
        try:
            r12 = run(a * phi1 + b * phi2, a * th1 + b * th2); r1 = run(phi1, th1); r2 = run(phi2, th2)
            rz = run(np.zeros(pts), th1); rz2 = run(np.zeros(pts), 2.5 * th1)
            rc = run(phi1, th1, c)
        except Exception as e:
            chk.fail(key + ':raises:' + type(e).__name__, 'one_pop_X raises %r' % (e,), inp); continue
        ok, err, scale = close(r12, a * r1 + b * r2, rtol=1e-9)
        if not ok:
            chk.fail(key + ':superposition', 'one_pop_X(a*phi1+b*phi2, a*theta1+b*theta2) differs from a*result1+b*result2 by %.3g (scale %.3g)' % (err, scale), inp)
        ok, err, scale = close(rz2, 2.5 * rz, rtol=1e-9)
        if not ok:
            chk.fail(key + ':theta0-scaling', 'one_pop_X from the zero density is not proportional to theta0: off by %.3g (scale %.3g)' % (err, scale), inp)
        ok, err, scale = close(rc, r1, rtol=1e-8)
        if not ok:
            chk.fail(key + ':rescale', 'one_pop_X re-expressed relative to c=%g times the reference size differs by %.3g (scale %.3g)' % (c, err, scale), inp)

def run(chk, ctx):
    tier = ctx['tier']; rng = common.Rng(ctx['seed'], 'C03')
    chk.rule = ('K: dt rule on random 1-5 population parameter sets; one full time step / 1-3 step const and affine-in-time runs in 1-5 populations, '
                'random grids, flags; 2-3 step runs in which EVERY size, selection, dominance, migration rate, theta0 (beta) is an affine function of time, '
                'constant runs and runs with Integration.use_delj_trick on, each against the model AND against the translated time loop of the driver '
                'run by the statement semantics (integ prog); L3: superposition and re-scaling residuals on the public integrators (constant and time-varying, delj trick off/on, '
                'regimes moderate / wide (rates log-uniform 1e-9..30, c a power of two) / strong (|gamma*nu| 30..600, nu 0.02..50); members of the '
                'superposition generic, zero, cancelling, mixed tiny+huge, all tiny, all huge), equilibrium constructors (gamma*nu per stratum '
                'weak/mid/near/strong, raw gamma of the two parameterisations on opposite sides of a pivot in 20..2000, entry-wise comparison, '
                'phi_1D_X), composite models incl. ancestral size != reference with selection. non-trivial = distinct (clause, d, varying, '
                'delj, regime, flags, scale class)')
    chk.unproved = ['"up to round-off": exact invariance is proved for rational arithmetic; float agreement is checked at 1e-9..1e-10',
                    'phi-manipulation steps (split/admix/sample) take no scaled parameter — by inspection + L3 on composite models']
    q = tier == 'quick'
    k_dt(chk, ctx, rng, 60 if q else 400)
    k_sweep(chk, ctx, rng, 15 if q else 45, tier)
    k_program(chk, ctx, common.Rng(ctx['seed'], 'C03-program'), 1 if q else 5, tier)     # own stream: the cases below stay what they were
    l3_superposition(chk, ctx, rng, 60 if q else 360, tier)
    l3_sign(chk, ctx, common.Rng(ctx['seed'], 'C03-sign'), 20 if q else 100)
    l3_rescale(chk, ctx, rng, 60 if q else 360, tier)
    l3_dt_wiring(chk, ctx, rng, 40 if q else 200)
    l3_schedule(chk, ctx, common.Rng(ctx['seed'], 'C03-schedule'), 30 if q else 150)
    l3_equilibrium(chk, ctx, rng, 48 if q else 480)
    l3_equilibrium_X(chk, ctx, rng, 6 if q else 30)
    l3_models(chk, ctx, rng, 16 if q else 96)
    l3_onepop_X(chk, ctx, common.Rng(ctx['seed'], 'C03-X'), 10 if q else 60)

def replay(chk, ctx, data):
    run(chk, ctx)
