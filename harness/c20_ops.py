"""Operations used by the C20 history / hash-seed checks.  Importable (op table) and runnable:

    python c20_ops.py <dadi_path> <seed> <i1,i2,...>      -> prints one line per op: "<index> <sha256 of result bytes>"

Each op builds its own inputs deterministically from (seed, index) and returns numpy data; results are hashed
bit-for-bit (data bytes + mask bytes).  Run in one process for an interleaving, or one process per op for the
"fresh interpreter" reference."""
import sys, os, hashlib, pickle

def _rng(seed, i):
    import numpy as np
    return np.random.default_rng(seed * 1000003 + i * 7919 + 17)

def build_ops(dadi):
    import numpy as np
    ops = []
    def op(f):
        ops.append(f); return f
    def fs_rand(r, shape):
        fs = dadi.Spectrum(r.uniform(0.1, 5, shape)); return fs
    @op
    def project_1d(r):
        fs = fs_rand(r, (int(r.integers(8, 20)),)); return fs.project([int(r.integers(3, 7))])
    @op
    def project_2d(r):
        fs = fs_rand(r, (9, 11)); return fs.project([4, 6])
    @op
    def project_big(r):
        fs = fs_rand(r, (41,)); return fs.project([int(r.integers(20, 30))])
    @op
    def fold_2d(r):
        return fs_rand(r, (6, 7)).fold()
    @op
    def marginalize_3d(r):
        return fs_rand(r, (4, 5, 6)).marginalize([1])
    @op
    def combine_pops(r):
        return fs_rand(r, (4, 5, 3)).combine_pops([1, 3])
    @op
    def from_phi_1d(r):
        xx = dadi.Numerics.default_grid(int(r.integers(20, 30))); phi = dadi.PhiManip.phi_1D(xx)
        return dadi.Spectrum.from_phi(phi, (int(r.integers(4, 9)),), (xx,))
    @op
    def from_phi_2d(r):
        xx = dadi.Numerics.default_grid(16); phi = dadi.PhiManip.phi_1D(xx); phi = dadi.PhiManip.phi_1D_to_2D(xx, phi)
        return dadi.Spectrum.from_phi(phi, (4, 5), (xx, xx))
    @op
    def from_phi_3d(r):
        xx = dadi.Numerics.default_grid(10); phi = dadi.PhiManip.phi_1D(xx); phi = dadi.PhiManip.phi_1D_to_2D(xx, phi)
        phi = dadi.PhiManip.phi_2D_to_3D_split_2(xx, phi)
        return dadi.Spectrum.from_phi(phi, (3, 3, 4), (xx, xx, xx))
    @op
    def integ_1d(r):
        xx = dadi.Numerics.default_grid(20); phi = dadi.PhiManip.phi_1D(xx)
        return dadi.Integration.one_pop(phi, xx, 0.05, nu=float(r.uniform(0.5, 2)), gamma=-1.0)
    @op
    def integ_2d(r):
        xx = dadi.Numerics.default_grid(12); phi = dadi.PhiManip.phi_1D(xx); phi = dadi.PhiManip.phi_1D_to_2D(xx, phi)
        return dadi.Integration.two_pops(phi, xx, 0.02, nu1=float(r.uniform(0.5, 2)), nu2=0.7, m12=1.0, m21=0.3)
    @op
    def integ_3d(r):
        xx = dadi.Numerics.default_grid(8); phi = dadi.PhiManip.phi_1D(xx); phi = dadi.PhiManip.phi_1D_to_2D(xx, phi)
        phi = dadi.PhiManip.phi_2D_to_3D_split_2(xx, phi)
        return dadi.Integration.three_pops(phi, xx, 0.01, nu1=1.2, nu2=float(r.uniform(0.5, 2)), nu3=0.5, m13=0.5)
    @op
    def integ_4d(r):
        xx = dadi.Numerics.default_grid(6); phi = dadi.PhiManip.phi_1D(xx); phi = dadi.PhiManip.phi_1D_to_2D(xx, phi)
        phi = dadi.PhiManip.phi_2D_to_3D_split_2(xx, phi); phi = dadi.PhiManip.phi_3D_to_4D(phi, 0.3, 0.3, xx, xx, xx, xx)
        return dadi.Integration.four_pops(phi.copy(), xx, 0.005, nu1=1.2, nu4=float(r.uniform(0.5, 2)), m14=0.5)
    @op
    def integ_5d(r):
        xx = dadi.Numerics.default_grid(5); phi = dadi.PhiManip.phi_1D(xx); phi = dadi.PhiManip.phi_1D_to_2D(xx, phi)
        phi = dadi.PhiManip.phi_2D_to_3D_split_2(xx, phi); phi = dadi.PhiManip.phi_3D_to_4D(phi, 0.3, 0.3, xx, xx, xx, xx)
        phi = dadi.PhiManip.phi_4D_to_5D(phi, 0.2, 0.2, 0.2, xx, xx, xx, xx, xx)
        return dadi.Integration.five_pops(phi.copy(), xx, 0.003, nu5=float(r.uniform(0.5, 2)), m15=0.4)
    @op
    def inbreeding(r):
        xx = dadi.Numerics.default_grid(16); phi = dadi.PhiManip.phi_1D(xx)
        return dadi.Spectrum.from_phi_inbreeding(phi, (6,), (xx,), (float(r.uniform(0.05, 0.6)),), (2,))
    @op
    def lowpass_projmat(r):
        from dadi.LowPass import LowPass
        return LowPass.projection_matrix(int(r.integers(6, 10)), 4, float(r.choice([0.0, 0.3])))
    @op
    def lowpass_parts(r):
        from dadi.LowPass import LowPass
        nseq = int(r.choice([4, 6, 8])); af = int(r.integers(1, nseq))
        parts, probs = LowPass.partitions_and_probabilities(nseq, 'allele_frequency', Fx=float(r.choice([0.0, 0.25])), allele_frequency=af)
        return np.concatenate([np.ravel(np.asarray(parts, dtype=float)), np.ravel(np.asarray(probs, dtype=float))])
    @op
    def ll_multinom(r):
        m = fs_rand(r, (7, 6)); d = dadi.Spectrum(r.poisson(3, (7, 6)).astype(float))
        return np.array([dadi.Inference.ll_multinom(m, d), dadi.Inference.optimal_sfs_scaling(m, d)])
    @op
    def ll_folded(r):
        m = fs_rand(r, (9,)); d = dadi.Spectrum(r.poisson(5, (9,)).astype(float)).fold()
        return np.array([dadi.Inference.ll(m, d)])
    @op
    def hessian(r):
        c = r.uniform(0.5, 2, 3)
        f = lambda p: float(np.sum(c * np.asarray(p) ** 2) + p[0] * p[1])
        return dadi.Godambe.get_hess(f, [1.0, 0.5, 2.0], 0.01)
    @op
    def model_2d(r):
        f = dadi.Numerics.make_extrap_func(dadi.Demographics2D.split_mig)
        return f((float(r.uniform(0.5, 2)), 1.3, 0.1, 0.7), (4, 4), [12, 14, 16])
    @op
    def demes_sfs(r):
        import demes
        b = demes.Builder(description='t', time_units='generations')
        b.add_deme('anc', epochs=[dict(start_size=1000, end_time=200)])
        b.add_deme('A', ancestors=['anc'], epochs=[dict(start_size=float(r.integers(500, 2000)), end_time=0)])
        b.add_deme('B', ancestors=['anc'], epochs=[dict(start_size=800, end_time=0)])
        b.add_migration(demes=['A', 'B'], rate=1e-3)
        g = b.resolve()
        return dadi.Spectrum.from_demes(g, sampled_demes=['A', 'B'], sample_sizes=[4, 4], pts=[12, 14, 16])
    def data_dict(r, pops, nsnp, ncalled):
        dd = {}
        for k in range(nsnp):
            calls = {}
            for p in pops:
                n = int(r.choice(ncalled)); a = int(r.integers(0, n + 1))
                calls[p] = (n - a, a)
            dd['c1_%d' % k] = dict(segregating=('A', 'T'), calls=calls, outgroup_allele=str(r.choice(['A', 'T', '-'])), context='-A-', outgroup_context='-A-')
        return dd
    @op
    def data_dict_1pop(r):
        # many SNPs share a (called, derived) configuration: exercises repeated use of one projection-cache entry
        dd = data_dict(r, ['P'], 60, [8, 10])
        return dadi.Spectrum.from_data_dict(dd, ['P'], [int(r.choice([4, 6]))], polarized=bool(r.integers(2)))
    @op
    def data_dict_2pop(r):
        dd = data_dict(r, ['P', 'Q'], 40, [6, 8])
        return dadi.Spectrum.from_data_dict(dd, ['P', 'Q'], [4, 4])
    @op
    def fragment_bootstrap(r):
        # SNPs on several chromosomes (names of different lengths, some with underscores), cut into chunks and resampled with a
        # fixed `random` seed: the order of the chunk list must not depend on the hash seed or on earlier calls
        import random
        chroms = ['chr1', 'chr2', 'chrX', 'scaffold_12', 'chr10', 'contig_7_b'][:int(r.integers(3, 7))]
        dd = {}
        for c in chroms:
            for pos in sorted(set(int(x) for x in r.integers(1, 5000, int(r.integers(4, 12))))):
                n = int(r.choice([6, 8])); a = int(r.integers(0, n + 1))
                dd['%s_%d' % (c, pos)] = dict(segregating=('A', 'T'), calls={'P': (n - a, a)}, outgroup_allele='A', context='-A-', outgroup_context='-A-')
        frags = dadi.Misc.fragment_data_dict(dd, int(r.choice([700, 1500])))
        sizes = np.array([len(f) for f in frags], dtype=float)
        random.seed(int(r.integers(1 << 30)))
        boots = dadi.Misc.bootstraps_from_dd_chunks(frags, 3, ['P'], [4])
        first = np.array([float(sum(ord(ch) for ch in sorted(f)[0])) if len(f) else -1.0 for f in frags])   # which chromosome/position each chunk starts with
        return np.concatenate([sizes, first] + [np.ma.filled(b, -1.0).ravel() for b in boots])
    @op
    def slim_data_dict(r):
        # data dictionary read from two SLiM sample files, then a projected spectrum: the order of the entries (hence the round-off
        # of the sums over them) must not depend on the hash seed
        import io
        nm = int(r.integers(30, 70))
        def f(n):
            lines = ['#OUT: 1000 SS p1 %d\n' % n, 'Mutations:\n']
            lines += ['%d %d m1 %d 0 0.5 p1 100 5\n' % (l, 1000 + l, 17 * l + 3) for l in range(nm)]
            lines.append('Genomes:\n')
            for i in range(n):
                lines.append('p1:%d A %s\n' % (i, ' '.join(str(l) for l in range(nm) if r.random() < 0.3)))
            return io.StringIO(''.join(lines))
        dd, ss = dadi.Misc.dd_from_SLiM_files([f(10), f(8)])
        fs = dadi.Spectrum.from_data_dict(dd, [0, 1], [4, 5])
        return np.concatenate([np.array([float(sum(ord(c) for c in k)) for k in dd.keys()]), np.ma.filled(fs, -1.0).ravel()])
    @op
    def project_after_counts(r):
        fs = fs_rand(r, (int(r.choice([9, 11])),)); return fs.project([int(r.choice([4, 6]))])
    @op
    def stats_unmasked(r):
        fs = dadi.Spectrum(r.uniform(0.1, 5, 9), mask_corners=False)
        out = [fs.S(), fs.Watterson_theta(), fs.pi(), fs.Tajima_D()]
        return np.concatenate([np.array(out, dtype=float), np.ma.filled(fs, -1.0), np.ma.getmaskarray(fs).astype(float)])
    @op
    def scramble(r):
        sh = [(4, 8), (8, 4), (5, 7), (3, 4, 7)][int(r.integers(4))]
        return fs_rand(r, sh).scramble_pop_ids()
    @op
    def from_phi_altgrid(r):
        # same lengths and sample sizes as from_phi_2d / from_phi_3d / inbreeding, but differently spaced grids (same end points)
        d = int(r.choice([2, 3])); pts = {2: 16, 3: 10}[d]
        kind = int(r.integers(3))
        xx = [dadi.Numerics.default_grid(pts, crwd=2.), np.linspace(0, 1, pts), dadi.Numerics.default_grid(pts, crwd=12.)][kind]
        phi = dadi.PhiManip.phi_1D(xx); phi = dadi.PhiManip.phi_1D_to_2D(xx, phi)
        if d == 3: phi = dadi.PhiManip.phi_2D_to_3D_split_2(xx, phi)
        ns = (4, 5) if d == 2 else (3, 3, 4)
        return dadi.Spectrum.from_phi(phi, ns, tuple([xx] * d))
    return ops

def cache_soundness(dadi):
    """every entry of every memo table must equal a fresh recomputation from its key (the invariant `Memo.SoundFor`)"""
    import numpy as np
    from math import comb, lgamma
    bad = []
    N = dadi.Numerics
    for (m, n, h), v in list(N._projection_cache.items()):
        try:
            m_, n_, h_ = int(m), int(n), int(h)
        except Exception:
            continue
        if n_ < m_:
            want = np.zeros(m_ + 1)
        else:
            want = np.array([comb(m_, j) * comb(n_ - m_, h_ - j) / comb(n_, h_) if 0 <= h_ - j <= n_ - m_ else 0.0 for j in range(m_ + 1)])
        if np.shape(v) != want.shape or not np.allclose(v, want, rtol=1e-9, atol=1e-300):
            bad.append('_projection_cache%r' % ((m_, n_, h_),))
    for k, v in list(N._multinomln_cache.items()):
        want = lgamma(sum(k) + 1) - sum(lgamma(x + 1) for x in k)
        if not np.isclose(v, want, rtol=1e-10, atol=1e-12): bad.append('_multinomln_cache%r' % (k,))
    for k, v in list(N._part_cache.items()):
        x, n, lo, hi = k
        want = list(N.part(x, n, lo, hi))
        if v != want: bad.append('_part_cache%r' % (k,))
    S = dadi.Spectrum_mod
    from scipy.special import betainc
    for (nx, xx), (d1, d2) in list(S._dbeta_cache.items()):
        x = np.minimum(np.maximum(np.array(xx), 0), 1.0)
        for ii in (0, nx // 2, nx):
            b = betainc(ii + 1, nx - ii + 1, x)
            if not np.allclose(d1[ii], b[1:] - b[:-1], rtol=1e-10, atol=1e-300): bad.append('_dbeta_cache(nx=%d)' % nx); break
    return bad

def digest(res):
    import numpy as np
    h = hashlib.sha256()
    a = np.ma.getdata(res) if hasattr(res, 'mask') else np.asarray(res)
    a = np.ascontiguousarray(a, dtype=float)
    h.update(str(a.shape).encode()); h.update(a.tobytes())
    if hasattr(res, 'mask'):
        m = np.ascontiguousarray(np.ma.getmaskarray(res)); h.update(m.tobytes())
    if hasattr(res, 'folded'):
        h.update(repr((bool(res.folded), res.pop_ids)).encode())
    return h.hexdigest()

def main():
    path, seed, idx = sys.argv[1], int(sys.argv[2]), [int(x) for x in sys.argv[3].split(',') if x != '']
    sys.path.insert(0, path)
    import warnings, logging
    warnings.filterwarnings('ignore'); logging.disable(logging.WARNING)
    import numpy as np
    np.seterr(all='ignore')
    import dadi
    assert os.path.realpath(dadi.__file__).startswith(os.path.realpath(path)), dadi.__file__
    ops = build_ops(dadi)
    for i in idx:
        try:
            r = ops[i % len(ops)](_rng(seed, i))
            print(i, digest(r), flush=True)
        except Exception as e:
            print(i, 'EXC:%s:%s' % (type(e).__name__, str(e)[:80].replace('\n', ' ')), flush=True)
    bad = cache_soundness(dadi)
    print('CACHE', 'ok' if not bad else 'BAD:' + ';'.join(bad[:5]), flush=True)

if __name__ == '__main__':
    main()
