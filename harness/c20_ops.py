"""Operations used by the C20 history / hash-seed checks.  Importable (op table) and runnable:

    python c20_ops.py <dadi_path> <seed> <i1,i2,...>      -> prints one line per op: "<index> <sha256 of result bytes>"

Each op builds its own inputs deterministically from (seed, index) and returns numpy data; results are hashed
bit-for-bit (data bytes + mask bytes).  Run in one process for an interleaving, or one process per op for the
"fresh interpreter" reference."""
import sys, os, hashlib, pickle

def _rng(seed, i):
    import numpy as np
    return np.random.default_rng(seed * 1000003 + i * 7919 + 17)

def build_ops(dadi):
    import numpy as np
    ops = []
    def op(f):
        ops.append(f); return f
    def fs_rand(r, shape):
        fs = dadi.Spectrum(r.uniform(0.1, 5, shape)); return fs
    @op
    def project_1d(r):
        fs = fs_rand(r, (int(r.integers(8, 20)),)); return fs.project([int(r.integers(3, 7))])
    @op
    def project_2d(r):
        fs = fs_rand(r, (9, 11)); return fs.project([4, 6])
    @op
    def project_big(r):
        fs = fs_rand(r, (41,)); return fs.project([int(r.integers(20, 30))])
    @op
    def fold_2d(r):
        return fs_rand(r, (6, 7)).fold()
    @op
    def marginalize_3d(r):
        return fs_rand(r, (4, 5, 6)).marginalize([1])
    @op
    def combine_pops(r):
        return fs_rand(r, (4, 5, 3)).combine_pops([1, 3])
    @op
    def from_phi_1d(r):
        xx = dadi.Numerics.default_grid(int(r.integers(20, 30))); phi = dadi.PhiManip.phi_1D(xx)
        return dadi.Spectrum.from_phi(phi, (int(r.integers(4, 9)),), (xx,))
    @op
    def from_phi_2d(r):
        xx = dadi.Numerics.default_grid(16); phi = dadi.PhiManip.phi_1D(xx); phi = dadi.PhiManip.phi_1D_to_2D(xx, phi)
        return dadi.Spectrum.from_phi(phi, (4, 5), (xx, xx))
    @op
    def from_phi_3d(r):
        xx = dadi.Numerics.default_grid(10); phi = dadi.PhiManip.phi_1D(xx); phi = dadi.PhiManip.phi_1D_to_2D(xx, phi)
        phi = dadi.PhiManip.phi_2D_to_3D_split_2(xx, phi)
        return dadi.Spectrum.from_phi(phi, (3, 3, 4), (xx, xx, xx))
    @op
    def integ_1d(r):
        xx = dadi.Numerics.default_grid(20); phi = dadi.PhiManip.phi_1D(xx)
        return dadi.Integration.one_pop(phi, xx, 0.05, nu=float(r.uniform(0.5, 2)), gamma=-1.0)
    @op
    def integ_2d(r):
        xx = dadi.Numerics.default_grid(12); phi = dadi.PhiManip.phi_1D(xx); phi = dadi.PhiManip.phi_1D_to_2D(xx, phi)
        return dadi.Integration.two_pops(phi, xx, 0.02, nu1=float(r.uniform(0.5, 2)), nu2=0.7, m12=1.0, m21=0.3)
    @op
    def integ_3d(r):
        xx = dadi.Numerics.default_grid(8); phi = dadi.PhiManip.phi_1D(xx); phi = dadi.PhiManip.phi_1D_to_2D(xx, phi)
        phi = dadi.PhiManip.phi_2D_to_3D_split_2(xx, phi)
        return dadi.Integration.three_pops(phi, xx, 0.01, nu1=1.2, nu2=float(r.uniform(0.5, 2)), nu3=0.5, m13=0.5)
    @op
    def integ_4d(r):
        xx = dadi.Numerics.default_grid(6); phi = dadi.PhiManip.phi_1D(xx); phi = dadi.PhiManip.phi_1D_to_2D(xx, phi)
        phi = dadi.PhiManip.phi_2D_to_3D_split_2(xx, phi); phi = dadi.PhiManip.phi_3D_to_4D(phi, 0.3, 0.3, xx, xx, xx, xx)
        return dadi.Integration.four_pops(phi.copy(), xx, 0.005, nu1=1.2, nu4=float(r.uniform(0.5, 2)), m14=0.5)
    @op
    def integ_5d(r):
        xx = dadi.Numerics.default_grid(5); phi = dadi.PhiManip.phi_1D(xx); phi = dadi.PhiManip.phi_1D_to_2D(xx, phi)
        phi = dadi.PhiManip.phi_2D_to_3D_split_2(xx, phi); phi = dadi.PhiManip.phi_3D_to_4D(phi, 0.3, 0.3, xx, xx, xx, xx)
        phi = dadi.PhiManip.phi_4D_to_5D(phi, 0.2, 0.2, 0.2, xx, xx, xx, xx, xx)
        return dadi.Integration.five_pops(phi.copy(), xx, 0.003, nu5=float(r.uniform(0.5, 2)), m15=0.4)
    @op
    def inbreeding(r):
        xx = dadi.Numerics.default_grid(16); phi = dadi.PhiManip.phi_1D(xx)
        return dadi.Spectrum.from_phi_inbreeding(phi, (6,), (xx,), (float(r.uniform(0.05, 0.6)),), (2,))
    @op
    def lowpass_projmat(r):
        from dadi.LowPass import LowPass
        return LowPass.projection_matrix(int(r.integers(6, 10)), 4, float(r.choice([0.0, 0.3])))
    @op
    def lowpass_parts(r):
        from dadi.LowPass import LowPass
        nseq = int(r.choice([4, 6, 8])); af = int(r.integers(1, nseq))
        parts, probs = LowPass.partitions_and_probabilities(nseq, 'allele_frequency', Fx=float(r.choice([0.0, 0.25])), allele_frequency=af)
        return np.concatenate([np.ravel(np.asarray(parts, dtype=float)), np.ravel(np.asarray(probs, dtype=float))])
    @op
    def ll_multinom(r):
        m = fs_rand(r, (7, 6)); d = dadi.Spectrum(r.poisson(3, (7, 6)).astype(float))
        return np.array([dadi.Inference.ll_multinom(m, d), dadi.Inference.optimal_sfs_scaling(m, d)])
    @op
    def ll_folded(r):
        m = fs_rand(r, (9,)); d = dadi.Spectrum(r.poisson(5, (9,)).astype(float)).fold()
        return np.array([dadi.Inference.ll(m, d)])
    @op
    def hessian(r):
        c = r.uniform(0.5, 2, 3)
        f = lambda p: float(np.sum(c * np.asarray(p) ** 2) + p[0] * p[1])
        return dadi.Godambe.get_hess(f, [1.0, 0.5, 2.0], 0.01)
    @op
    def model_2d(r):
        f = dadi.Numerics.make_extrap_func(dadi.Demographics2D.split_mig)
        return f((float(r.uniform(0.5, 2)), 1.3, 0.1, 0.7), (4, 4), [12, 14, 16])
    @op
    def demes_sfs(r):
        import demes
        b = demes.Builder(description='t', time_units='generations')
        b.add_deme('anc', epochs=[dict(start_size=1000, end_time=200)])
        b.add_deme('A', ancestors=['anc'], epochs=[dict(start_size=float(r.integers(500, 2000)), end_time=0)])
        b.add_deme('B', ancestors=['anc'], epochs=[dict(start_size=800, end_time=0)])
        b.add_migration(demes=['A', 'B'], rate=1e-3)
        g = b.resolve()
        return dadi.Spectrum.from_demes(g, sampled_demes=['A', 'B'], sample_sizes=[4, 4], pts=[12, 14, 16])
    def data_dict(r, pops, nsnp, ncalled):
        dd = {}
        for k in range(nsnp):
            calls = {}
            for p in pops:
                n = int(r.choice(ncalled)); a = int(r.integers(0, n + 1))
                calls[p] = (n - a, a)
            dd['c1_%d' % k] = dict(segregating=('A', 'T'), calls=calls, outgroup_allele=str(r.choice(['A', 'T', '-'])), context='-A-', outgroup_context='-A-')
        return dd
    @op
    def data_dict_1pop(r):
        # many SNPs share a (called, derived) configuration: exercises repeated use of one projection-cache entry
        dd = data_dict(r, ['P'], 60, [8, 10])
        return dadi.Spectrum.from_data_dict(dd, ['P'], [int(r.choice([4, 6]))], polarized=bool(r.integers(2)))
    @op
    def data_dict_2pop(r):
        dd = data_dict(r, ['P', 'Q'], 40, [6, 8])
        return dadi.Spectrum.from_data_dict(dd, ['P', 'Q'], [4, 4])
    @op
    def fragment_bootstrap(r):
        # SNPs on several chromosomes (names of different lengths, some with underscores), cut into chunks and resampled with a
        # fixed `random` seed: the order of the chunk list must not depend on the hash seed or on earlier calls
        import random
        chroms = ['chr1', 'chr2', 'chrX', 'scaffold_12', 'chr10', 'contig_7_b'][:int(r.integers(3, 7))]
        dd = {}
        for c in chroms:
            for pos in sorted(set(int(x) for x in r.integers(1, 5000, int(r.integers(4, 12))))):
                n = int(r.choice([6, 8])); a = int(r.integers(0, n + 1))
                dd['%s_%d' % (c, pos)] = dict(segregating=('A', 'T'), calls={'P': (n - a, a)}, outgroup_allele='A', context='-A-', outgroup_context='-A-')
        frags = dadi.Misc.fragment_data_dict(dd, int(r.choice([700, 1500])))
        sizes = np.array([len(f) for f in frags], dtype=float)
        random.seed(int(r.integers(1 << 30)))
        boots = dadi.Misc.bootstraps_from_dd_chunks(frags, 3, ['P'], [4])
        first = np.array([float(sum(ord(ch) for ch in sorted(f)[0])) if len(f) else -1.0 for f in frags])   # which chromosome/position each chunk starts with
        return np.concatenate([sizes, first] + [np.ma.filled(b, -1.0).ravel() for b in boots])
    @op
    def slim_data_dict(r):
        # data dictionary read from two SLiM sample files, then a projected spectrum: the order of the entries (hence the round-off
        # of the sums over them) must not depend on the hash seed
        import io
        nm = int(r.integers(30, 70))
        def f(n):
            lines = ['#OUT: 1000 SS p1 %d\n' % n, 'Mutations:\n']
            lines += ['%d %d m1 %d 0 0.5 p1 100 5\n' % (l, 1000 + l, 17 * l + 3) for l in range(nm)]
            lines.append('Genomes:\n')
            for i in range(n):
                lines.append('p1:%d A %s\n' % (i, ' '.join(str(l) for l in range(nm) if r.random() < 0.3)))
            return io.StringIO(''.join(lines))
        dd, ss = dadi.Misc.dd_from_SLiM_files([f(10), f(8)])
        fs = dadi.Spectrum.from_data_dict(dd, [0, 1], [4, 5])
        return np.concatenate([np.array([float(sum(ord(c) for c in k)) for k in dd.keys()]), np.ma.filled(fs, -1.0).ravel()])
    @op
    def project_after_counts(r):
        fs = fs_rand(r, (int(r.choice([9, 11])),)); return fs.project([int(r.choice([4, 6]))])
    @op
    def stats_unmasked(r):
        fs = dadi.Spectrum(r.uniform(0.1, 5, 9), mask_corners=False)
        out = [fs.S(), fs.Watterson_theta(), fs.pi(), fs.Tajima_D()]
        return np.concatenate([np.array(out, dtype=float), np.ma.filled(fs, -1.0), np.ma.getmaskarray(fs).astype(float)])
    @op
    def scramble(r):
        sh = [(4, 8), (8, 4), (5, 7), (3, 4, 7)][int(r.integers(4))]
        return fs_rand(r, sh).scramble_pop_ids()
    @op
    def from_phi_altgrid(r):
        # same lengths and sample sizes as from_phi_2d / from_phi_3d / inbreeding, but differently spaced grids (same end points)
        d = int(r.choice([2, 3])); pts = {2: 16, 3: 10}[d]
        kind = int(r.integers(3))
        xx = [dadi.Numerics.default_grid(pts, crwd=2.), np.linspace(0, 1, pts), dadi.Numerics.default_grid(pts, crwd=12.)][kind]
        phi = dadi.PhiManip.phi_1D(xx); phi = dadi.PhiManip.phi_1D_to_2D(xx, phi)
        if d == 3: phi = dadi.PhiManip.phi_2D_to_3D_split_2(xx, phi)
        ns = (4, 5) if d == 2 else (3, 3, 4)
        return dadi.Spectrum.from_phi(phi, ns, tuple([xx] * d))
    # ---- uncertainty calls on ONE model function object per process (multinom=False: the user's function itself is what the
    # module-level cache of model spectra is keyed on); parameters, sample sizes and grids come from small pools, so an interleaving
    # repeats a (function, parameters, sample sizes) combination with a DIFFERENT grid, a (function, grid) with different
    # parameters, and so on
    def unc_model(params, ns, pts):
        nu, T, theta = params
        xx = dadi.Numerics.default_grid(pts)
        phi = dadi.PhiManip.phi_1D(xx)
        phi = dadi.Integration.one_pop(phi, xx, T, nu)
        return theta * dadi.Spectrum.from_phi(phi, ns, (xx,))
    shared = dadi.Numerics.make_extrap_func(unc_model)
    def unc_inputs(r):
        p0 = [[1.5, 0.3, 1000.0], [2.0, 0.3, 1000.0], [1.5, 0.5, 1200.0]][int(r.integers(3))]
        ns = [(6,), (8,)][int(r.integers(2))]
        pts = [[10, 14, 18], [16, 20, 24], [10, 14, 20], [24, 30, 36]][int(r.integers(4))]
        rr = np.random.default_rng(len(ns) + ns[0])                      # data depend on the sample size only
        truth = shared([1.7, 0.35, 1000.0], ns, [40, 50, 60])
        data = dadi.Spectrum(rr.poisson(np.ma.filled(truth, 0.0)).astype(float))
        boots = [dadi.Spectrum(rr.poisson(np.maximum(np.ma.filled(data, 0.0), 1e-3)).astype(float)) for _ in range(4)]
        kind = int(r.integers(3))
        p = [list(p0), tuple(p0), np.array(p0)][kind]
        return p, ns, pts, data, boots
    def flat(res):
        return np.concatenate([np.ravel(np.asarray(x, dtype=float)) for x in res]) if isinstance(res, tuple) else np.ravel(np.asarray(res, dtype=float))
    @op
    def fim_uncert(r):
        p, ns, pts, data, boots = unc_inputs(r)
        return flat(dadi.Godambe.FIM_uncert(shared, pts, p, data, log=bool(r.integers(2)), multinom=False, return_FIM=True))
    @op
    def gim_uncert(r):
        p, ns, pts, data, boots = unc_inputs(r)
        return flat(dadi.Godambe.GIM_uncert(shared, pts, boots, p, data, log=bool(r.integers(2)), multinom=False, return_GIM=True))
    @op
    def nested_stats(r):
        p, ns, pts, data, boots = unc_inputs(r)
        nested = [[0], [1], [0, 1]][int(r.integers(3))]
        G = dadi.Godambe
        out = [G.LRT_adjust(shared, pts, boots, p, data, nested, multinom=False), G.score_stat(shared, pts, boots, p, data, nested, multinom=False),
               G.Wald_stat(shared, pts, boots, p, data, nested, [x * 1.1 for x in p], multinom=False)]
        # the parameters handed in must come back unchanged (they are part of the result so that a change shows up in the digest)
        return np.concatenate([np.ravel(np.asarray(out, dtype=float)), np.asarray(p, dtype=float)])
    # ---- demes calls the way an optimiser makes them: ONE set of argument objects per process (sampled demes, sample sizes, sample
    # times, grids), handed to every call; the sampled deme 'B' ends before the present, so that with sample_times=None the
    # ancient-sample route is selected by the resolved sampling times
    demes_args = dict(sd=['A', 'B'], ns=[4, 3], pts=[8, 10, 12], times=[0.0, 6.0])
    def demes_graph(r):
        import demes
        b = demes.Builder(time_units='generations')
        b.add_deme('anc', epochs=[dict(start_size=1000.0, end_time=200)])
        b.add_deme('A', ancestors=['anc'], epochs=[dict(start_size=float(r.integers(800, 2000)), end_time=0)])
        b.add_deme('B', ancestors=['anc'], epochs=[dict(start_size=float(r.integers(300, 900)), end_time=6)])
        if r.random() < 0.5: b.add_pulse(sources=['A'], dest='B', proportions=[0.1], time=20)
        return b.resolve()
    @op
    def demes_ancient(r):
        g = demes_graph(r); a = demes_args
        kind = int(r.integers(3))
        if kind == 0: fs = dadi.Demes.SFS(g, a['sd'], a['ns'], a['pts'][1])
        elif kind == 1: fs = dadi.Demes.SFS(g, a['sd'], a['ns'], a['pts'][0], sample_times=a['times'])
        else: fs = dadi.Spectrum.from_demes(g, a['sd'], a['ns'], a['pts'])
        # the shared arguments are part of the result
        code = [float(ord(c)) for c in '|'.join(list(a['sd']) + list(fs.pop_ids))] + [float(x) for x in a['ns'] + a['pts'] + a['times']]
        return np.concatenate([np.ma.filled(fs, -1.0).ravel(), np.array(code)])
    @op
    def demes_export(r):
        # a native program recorded with deme names, exported with one of several name mappings / units; the record is rebuilt by
        # every call (phi_1D starts a new record), so the export is a function of this call's inputs only
        import json
        xx = dadi.Numerics.default_grid(10); ids1 = ['anc']; ids2 = ['popA', 'popB']
        phi = dadi.PhiManip.phi_1D(xx, deme_ids=ids1)
        phi = dadi.Integration.one_pop(phi, xx, 0.1, float(r.uniform(0.5, 2)), deme_ids=ids1)
        phi = dadi.PhiManip.phi_1D_to_2D(xx, phi, deme_ids=ids2)
        phi = dadi.Integration.two_pops(phi, xx, 0.05, 1.0, float(r.uniform(0.5, 2)), m12=1.0, deme_ids=ids2)
        phi = dadi.PhiManip.phi_2D_admix_1_into_2(phi, 0.2, xx, xx)
        phi = dadi.Integration.two_pops(phi, xx, 0.05, 1.0, 2.0, deme_ids=ids2)
        kw = [dict(), dict(Nref=100.0), dict(Nref=100.0, generation_time=2.0), dict(deme_mapping={'west': ['popA']}), dict(Nref=50.0, deme_mapping={'root': ['anc', 'popB']})][int(r.integers(5))]
        g = dadi.Demes.output(**kw)
        return np.array([float(ord(c)) for c in json.dumps(g.asdict(), sort_keys=True) + '|'.join(ids1 + ids2)])
    @op
    def integ_altgrid(r):
        # same grid LENGTHS as integ_1d / integ_2d / integ_3d, but differently spaced grids, and both ways of passing a parameter
        # (number -> Python tridiagonal path, function of time -> compiled kernels): anything an integrator keeps between calls
        # about "the grid" must be keyed on the grid itself, not on its length
        d = int(r.choice([1, 1, 2, 3])); pts = {1: 20, 2: 12, 3: 8}[d]
        kind = int(r.integers(4)); timedep = bool(r.integers(2)); delj = bool(r.integers(4) == 0)
        xx = [dadi.Numerics.default_grid(pts), dadi.Numerics.default_grid(pts, crwd=2.), np.linspace(0, 1, pts), dadi.Numerics.default_grid(pts, crwd=12.)][kind]
        nu0 = float(r.uniform(0.5, 2)); nu = (lambda t: nu0 * (1 + t)) if timedep else nu0
        phi = dadi.PhiManip.phi_1D(xx, gamma=-1.0)
        old = dadi.Integration.use_delj_trick; dadi.Integration.use_delj_trick = delj
        try:
            if d == 1: return dadi.Integration.one_pop(phi, xx, 0.05, nu=nu, gamma=-1.0, h=0.3)
            phi = dadi.PhiManip.phi_1D_to_2D(xx, phi)
            if d == 2: return dadi.Integration.two_pops(phi, xx, 0.02, nu1=nu, nu2=0.7, m12=1.0, m21=0.3, gamma1=-1.0)
            phi = dadi.PhiManip.phi_2D_to_3D_split_2(xx, phi)
            return dadi.Integration.three_pops(phi, xx, 0.01, nu1=1.2, nu2=nu, nu3=0.5, m13=0.5, gamma3=0.5)
        finally:
            dadi.Integration.use_delj_trick = old
    assert len(ops) == N_OPS, len(ops)
    return ops

N_OPS = 36

# ---------------------------------------------------------------- memo tables: one input varied at a time
# For every memo table of the library a family of calls whose cached computation has the inputs listed in MEMO_INPUTS.
# Token  m:<table>:<k>:<v>  = the call of family <table> with base inputs drawn from (seed, table, k) and, if v = 1, input number k
# replaced by a different value (everything else — including, for the model-spectrum cache, the model FUNCTION OBJECT, which is
# created once per (process, table, k) — identical).  A history  [m:t:k:0, m:t:k:1, m:t:k:0, m:t:k:1]  therefore makes two
# otherwise identical calls that differ in exactly one input of the cached computation; each result is compared with the same
# token evaluated alone in a fresh interpreter.
MEMO_INPUTS = {
    'multinomln': ['N[0]', 'N[1]', 'N[2]', 'len(N)', 'type(N)'],
    'BetaBinomln': ['i', 'n', 'a', 'b'],
    'cached_part': ['x', 'n', 'minval', 'maxval'],
    'cached_part_precalc': ['x', 'n', 'minval', 'maxval'],
    'BetaBinomConvolution': ['i', 'n', 'alpha', 'beta', 'ploidy'],
    '_cached_projection': ['proj_to', 'proj_from', 'hits'],
    'project': ['proj_to', 'proj_from', 'values'],
    'cached_dbeta': ['nx', 'xx[j]', 'xx-spacing', 'len(xx)'],
    'from_phi_2d': ['ns[0]', 'ns[1]', 'xx-spacing', 'xx[j]', 'phi'],
    'from_phi_inbreeding': ['ns', 'F', 'ploidy', 'xx-spacing'],
}
_UNC = ['FIM_uncert', 'FIM_uncert_log', 'GIM_uncert', 'GIM_uncert_log', 'get_godambe', 'get_hessian', 'LRT_adjust', 'Wald_stat', 'score_stat']
_UNC_INPUTS = ['func_ex', 'p0[j]', 'ns', 'grid_pts[j]', 'grid_pts-all', 'len(grid_pts)', 'eps', 'data']
for _u in _UNC:
    for _m in ('multinom=False', 'multinom=True'):
        if _u in ('get_godambe', 'get_hessian') and _m == 'multinom=True': continue
        MEMO_INPUTS['%s:%s' % (_u, _m)] = list(_UNC_INPUTS)

def _mrng(seed, table, k):
    import numpy as np, zlib
    return np.random.default_rng([seed, zlib.crc32(table.encode()), k])

def build_memo_ops(dadi):
    import numpy as np
    N = dadi.Numerics; S = dadi.Spectrum
    state = {}
    fam = {}
    def family(name):
        def deco(f): fam[name] = f; return f
        return deco
    def other_int(r, x, lo, hi):
        y = x
        while y == x: y = int(r.integers(lo, hi))
        return y
    @family('multinomln')
    def _(r, k, v, key):
        Nl = [int(x) for x in r.integers(0, 9, 3)]
        kind = 'list'
        if v:
            if k < 3: Nl[k] = other_int(r, Nl[k], 0, 9)
            elif k == 3: Nl = Nl + [int(r.integers(1, 5))]
            else: kind = 'array'
        return np.array([N.multinomln(np.array(Nl) if kind == 'array' else Nl)])
    @family('BetaBinomln')
    def _(r, k, v, key):
        n = int(r.integers(2, 7)); i = int(r.integers(0, n + 1)); a = float(r.uniform(0.2, 3)); b = float(r.uniform(0.2, 3))
        if v:
            if k == 0: i = other_int(r, i, 0, n + 1)
            elif k == 1: n = n + int(r.integers(1, 4))
            elif k == 2: a = a * 1.5
            else: b = b * 1.5
        return np.array([N.BetaBinomln(i, n, a, b)])
    def part_args(r, k, v):
        n = int(r.integers(2, 6)); minval = 0; maxval = int(r.choice([2, 3, 4])); x = int(r.integers(1, n * maxval))
        if v:
            if k == 0: x = other_int(r, x, 1, n * maxval)
            elif k == 1: n = n + 1
            elif k == 2: minval = 1
            else: maxval = maxval + 1
        return x, n, minval, maxval
    def nested_to_array(obj):
        out = []
        def rec(o):
            if isinstance(o, (list, tuple)):
                out.append(-1.0 - len(o))
                for e in o: rec(e)
            else: out.append(float(o))
        rec(obj); return np.array(out)
    @family('cached_part')
    def _(r, k, v, key):
        return nested_to_array(N.cached_part(*part_args(r, k, v)))
    @family('cached_part_precalc')
    def _(r, k, v, key):
        return nested_to_array(N.cached_part_precalc(*part_args(r, k, v)))
    @family('BetaBinomConvolution')
    def _(r, k, v, key):
        ploidy = int(r.choice([2, 4])); n = int(r.integers(2, 5)); i = int(r.integers(0, n * ploidy + 1)); al = float(r.uniform(0.2, 3)); be = float(r.uniform(0.2, 3))
        if v:
            if k == 0: i = other_int(r, i, 0, n * ploidy + 1)
            elif k == 1: n = n + 1
            elif k == 2: al *= 1.3
            elif k == 3: be *= 1.3
            else: ploidy = 6 - ploidy
        return np.array([N.BetaBinomConvolution(i, n, al, be, ploidy)])
    @family('_cached_projection')
    def _(r, k, v, key):
        to = int(r.integers(2, 9)); frm = to + int(r.integers(1, 8)); hits = int(r.integers(0, frm + 1))
        if v:
            if k == 0: to = other_int(r, to, 1, frm)
            elif k == 1: frm = frm + int(r.integers(1, 4))
            else: hits = other_int(r, hits, 0, frm + 1)
        return np.array(N._cached_projection(to, frm, hits))
    @family('project')
    def _(r, k, v, key):
        frm = int(r.integers(10, 20)); to = int(r.integers(3, 8)); vals = r.uniform(0.1, 5, frm + 1)
        if v:
            if k == 0: to = other_int(r, to, 3, 8)
            elif k == 1: vals = np.concatenate([vals, [1.0, 2.0]])
            else: vals = vals[::-1].copy()
        return S(vals).project([to])
    def grids(r, pts, which):
        return [N.default_grid(pts), N.default_grid(pts, crwd=2.), np.linspace(0, 1, pts), N.default_grid(pts, crwd=12.)][which]
    @family('cached_dbeta')
    def _(r, k, v, key):
        nx = int(r.integers(2, 8)); pts = int(r.integers(8, 14)); xx = grids(r, pts, 0).copy()
        j = int(r.integers(1, pts - 1))
        if v:
            if k == 0: nx = nx + 1
            elif k == 1: xx[j] = 0.5 * (xx[j] + xx[j + 1])
            elif k == 2: xx = grids(r, pts, 1 + int(r.integers(3)))
            else: xx = grids(r, pts + 1, 0)
        d1, d2 = dadi.Spectrum_mod.cached_dbeta(nx, xx)
        return np.concatenate([np.ravel(d1), np.ravel(d2)])
    @family('from_phi_2d')
    def _(r, k, v, key):
        pts = int(r.integers(8, 13)); xx = grids(r, pts, 0).copy(); yy = xx.copy(); ns = [int(r.integers(2, 6)), int(r.integers(2, 6))]
        phi = r.uniform(0, 1, (pts, pts)); j = int(r.integers(1, pts - 1))
        if v:
            if k == 0: ns[0] += 1
            elif k == 1: ns[1] += 1
            elif k == 2: xx = grids(r, pts, 1 + int(r.integers(3))); yy = xx.copy()
            elif k == 3: xx[j] = 0.5 * (xx[j] + xx[j + 1]); yy = xx.copy()
            else: phi = phi[::-1].copy()
        return S.from_phi(phi, ns, (xx, yy))
    @family('from_phi_inbreeding')
    def _(r, k, v, key):
        pts = int(r.integers(12, 18)); xx = grids(r, pts, 0); n = int(r.choice([4, 8])); F = float(r.uniform(0.05, 0.6)); ploidy = 2
        if v:
            if k == 0: n = 12 - n
            elif k == 1: F = F * 0.5
            elif k == 2: ploidy = 4
            else: xx = grids(r, pts, 1 + int(r.integers(3)))
        phi = dadi.PhiManip.phi_1D(xx)
        return S.from_phi_inbreeding(phi, (n,), (xx,), (F,), (ploidy,))
    # ---- model-spectrum cache of the uncertainty calls
    def make_model(multinom, variant):
        def model(params, ns, pts):
            nu, T = params[0], params[1]
            theta = 1.0 if multinom else params[2]
            xx = N.default_grid(pts)
            phi = dadi.PhiManip.phi_1D(xx)
            phi = dadi.Integration.one_pop(phi, xx, T, nu, gamma=(0.0 if variant == 0 else -1.5))
            return theta * S.from_phi(phi, ns, (xx,))
        ex = N.make_extrap_func(model)
        return lambda p, ns, pts: ex(p, ns, [int(x) for x in pts])
    def unc(call, multinom):
        G = dadi.Godambe
        def f(r, k, v, key):
            # the model function object: one per (process, table, k), reused by the base and the varied call (unless func_ex itself is varied)
            fn0 = state.setdefault((key, 0), make_model(multinom, 0))
            n = int(r.choice([6, 8, 10])); b0 = int(r.integers(8, 14)); pts = [b0, b0 + int(r.integers(4, 7)), b0 + int(r.integers(8, 11))]   # distinct, gaps >= 2
            p0 = [float(r.uniform(0.6, 2.5)), float(r.uniform(0.1, 0.8)), float(r.uniform(600, 1500))]
            eps = 0.01; dseed = int(r.integers(1 << 30)); j = int(r.integers(3)); jp = int(r.integers(2 if multinom else 3))
            fn = fn0
            if v:
                if k == 0: fn = state.setdefault((key, 1), make_model(multinom, 1))
                elif k == 1: p0[jp] *= 1.0 + 0.05
                elif k == 2: n = n + 2
                elif k == 3: pts[j] += 1
                elif k == 4: pts = [x + 10 for x in pts]
                elif k == 5: pts = pts + [pts[-1] + 6]
                elif k == 6: eps = 0.02
                else: dseed += 1
            ns = (n,)
            rr = np.random.default_rng(dseed)
            truth = make_model(False, 0)([p0[0] * 1.1, p0[1] * 1.2, p0[2]], ns, [30, 34, 38])
            data = S(rr.poisson(np.ma.filled(truth, 0.0)).astype(float))
            boots = [S(rr.poisson(np.maximum(np.ma.filled(data, 0.0), 1e-3)).astype(float)) for _ in range(4)]
            p = list(p0[:2] if multinom else p0)
            nested = [0]
            if call == 'FIM_uncert': res = G.FIM_uncert(fn, pts, p, data, multinom=multinom, eps=eps, return_FIM=True)
            elif call == 'FIM_uncert_log': res = G.FIM_uncert(fn, pts, p, data, log=True, multinom=multinom, eps=eps, return_FIM=True)
            elif call == 'GIM_uncert': res = G.GIM_uncert(fn, pts, boots, p, data, multinom=multinom, eps=eps, return_GIM=True)
            elif call == 'GIM_uncert_log': res = G.GIM_uncert(fn, pts, boots, p, data, log=True, multinom=multinom, eps=eps, return_GIM=True)
            elif call == 'get_godambe': res = np.concatenate([np.ravel(x) for x in G.get_godambe(fn, pts, boots, p, data, eps)])
            elif call == 'get_hessian': res = G.get_godambe(fn, pts, [], p, data, eps, just_hess=True)
            elif call == 'LRT_adjust': res = G.LRT_adjust(fn, pts, boots, p, data, nested, multinom=multinom, eps=eps)
            elif call == 'Wald_stat': res = G.Wald_stat(fn, pts, boots, p, data, nested, [x * 1.1 for x in p], multinom=multinom, eps=eps)
            else: res = G.score_stat(fn, pts, boots, p, data, nested, multinom=multinom, eps=eps)
            if isinstance(res, tuple): res = np.concatenate([np.ravel(np.asarray(x, dtype=float)) for x in res])
            return np.ravel(np.asarray(res, dtype=float))
        return f
    for u in _UNC:
        for mtxt, mval in (('multinom=False', False), ('multinom=True', True)):
            if '%s:%s' % (u, mtxt) in MEMO_INPUTS:
                fam['%s:%s' % (u, mtxt)] = unc(u, mval)
    return fam

def run_memo_token(fam, seed, tok):
    parts = tok.split(':')          # m:<table (may contain ':')>:<k>:<v>
    table = ':'.join(parts[1:-2]); k = int(parts[-2]); v = int(parts[-1])
    return fam[table](_mrng(seed, table, k), k, v, (table, k))

def cache_soundness(dadi):
    """every entry of every memo table must equal a fresh recomputation from its key (the invariant `Memo.SoundFor`)"""
    import numpy as np
    from math import comb, lgamma
    bad = []
    N = dadi.Numerics
    for (m, n, h), v in list(N._projection_cache.items()):
        try:
            m_, n_, h_ = int(m), int(n), int(h)
        except Exception:
            continue
        if n_ < m_:
            want = np.zeros(m_ + 1)
        else:
            want = np.array([comb(m_, j) * comb(n_ - m_, h_ - j) / comb(n_, h_) if 0 <= h_ - j <= n_ - m_ else 0.0 for j in range(m_ + 1)])
        if np.shape(v) != want.shape or not np.allclose(v, want, rtol=1e-9, atol=1e-300):
            bad.append('_projection_cache%r' % ((m_, n_, h_),))
    for k, v in list(N._multinomln_cache.items()):
        want = lgamma(sum(k) + 1) - sum(lgamma(x + 1) for x in k)
        if not np.isclose(v, want, rtol=1e-10, atol=1e-12): bad.append('_multinomln_cache%r' % (k,))
    for k, v in list(N._part_cache.items()):
        x, n, lo, hi = k
        want = list(N.part(x, n, lo, hi))
        if v != want: bad.append('_part_cache%r' % (k,))
    S = dadi.Spectrum_mod
    from scipy.special import betainc
    for (nx, xx), (d1, d2) in list(S._dbeta_cache.items()):
        x = np.minimum(np.maximum(np.array(xx), 0), 1.0)
        for ii in (0, nx // 2, nx):
            b = betainc(ii + 1, nx - ii + 1, x)
            if not np.allclose(d1[ii], b[1:] - b[:-1], rtol=1e-10, atol=1e-300): bad.append('_dbeta_cache(nx=%d)' % nx); break
    # model spectra memoised by the uncertainty calls: the key is (function, parameters, sample sizes, grid) and must determine the value
    G = dadi.Godambe
    for key, v in list(G.cache.items())[:200]:
        try:
            fn, params, ns, grid = key
            want = fn(np.array(params), tuple(ns), list(grid))
        except Exception as e:
            bad.append('Godambe.cache: entry with key of %d components cannot be recomputed from its key (%s)' % (len(key) if isinstance(key, tuple) else 1, type(e).__name__)); break
        if np.shape(want) != np.shape(v) or not np.allclose(np.ma.filled(want, 0.0), np.ma.filled(v, 0.0), rtol=1e-12, atol=0, equal_nan=True):
            bad.append('Godambe.cache(params=%r, ns=%r, grid=%r)' % (tuple(float(x) for x in params), tuple(ns), tuple(grid))); break
    return bad

def digest(res):
    import numpy as np
    h = hashlib.sha256()
    a = np.ma.getdata(res) if hasattr(res, 'mask') else np.asarray(res)
    a = np.ascontiguousarray(a, dtype=float)
    h.update(str(a.shape).encode()); h.update(a.tobytes())
    if hasattr(res, 'mask'):
        m = np.ascontiguousarray(np.ma.getmaskarray(res)); h.update(m.tobytes())
    if hasattr(res, 'folded'):
        h.update(repr((bool(res.folded), res.pop_ids)).encode())
    return h.hexdigest()

def main():
    path, seed, idx = sys.argv[1], int(sys.argv[2]), [(x if x.startswith('m:') else int(x)) for x in sys.argv[3].split(',') if x != '']
    sys.path.insert(0, path)
    import warnings, logging
    warnings.filterwarnings('ignore'); logging.disable(logging.WARNING)
    import numpy as np
    np.seterr(all='ignore')
    import dadi
    assert os.path.realpath(dadi.__file__).startswith(os.path.realpath(path)), dadi.__file__
    ops = build_ops(dadi); fam = build_memo_ops(dadi)
    if '--fresh-each' in sys.argv[4:]:
        # every token in its own process forked from this one, which has imported the library and computed nothing (all memo
        # tables must still be empty): the state of a fresh interpreter without paying the import once per token
        tables = [dadi.Numerics._multinomln_cache, dadi.Numerics._BetaBinomln_cache, dadi.Numerics._part_cache, dadi.Numerics._part_precalc_cache,
                  dadi.Numerics._projection_cache, dadi.Spectrum_mod._dbeta_cache, dadi.Godambe.cache]
        assert all(len(t) == 0 for t in tables), 'memo tables not empty after import'
        for i in idx:
            sys.stdout.flush()
            pid = os.fork()
            if pid == 0:
                try:
                    r = run_memo_token(fam, seed, i) if isinstance(i, str) else ops[i % len(ops)](_rng(seed, i))
                    print(i, digest(r), flush=True)
                except Exception as e:
                    print(i, 'EXC:%s:%s' % (type(e).__name__, str(e)[:80].replace('\n', ' ')), flush=True)
                os._exit(0)
            os.waitpid(pid, 0)
        return
    for i in idx:
        try:
            r = run_memo_token(fam, seed, i) if isinstance(i, str) else ops[i % len(ops)](_rng(seed, i))
            print(i, digest(r), flush=True)
        except Exception as e:
            print(i, 'EXC:%s:%s' % (type(e).__name__, str(e)[:80].replace('\n', ' ')), flush=True)
    bad = cache_soundness(dadi)
    print('CACHE', 'ok' if not bad else 'BAD:' + ';'.join(bad[:5]), flush=True)

if __name__ == '__main__':
    main()
