"""C14 — spectra survive file and pickle round trips with data, mask, folding and labels.

T : tools/gen_FileIO.py regenerates the writers (`Spectrum.to_file`, `Numerics.array_to_file`), the READERS
    (`Spectrum.from_file`, `Numerics.array_from_file`, statement by statement), the open dispatch / modes and the pickle reduce
    tuple / unpickler call from the current source (Generated/FileIO.lean).
K : the text the real `to_file` / `array_to_file` write vs the generated Lean writer run on the same tokens; what the real
    `from_file` / `array_from_file` return on written AND on hand-made / mutated files (old format, mixed formats, tabs,
    CRLF, extra tokens, wrong label count, ...) vs the Lean reader model; the real reduce tuple and `Spectrum_unpickler`
    vs the generated pair; Python's `str.split()` / `str.strip()` / `'%i'` / `int()` / `str.isspace()` vs the model's
    primitives.  Numbers cross the wire as opaque tokens.
L3: the property statement evaluated directly on the real code (no model): `to_file` -> `from_file` plain and `.gz`,
    old format, `pickle` with every protocol, `array_to_file` -> `array_from_file`, for 1-5 dimensions with singleton axes,
    values 1e-300..1e300 / nan / +-inf / -0.0 / denormals, arbitrary masks, folded or not, labels with spaces, 0-5 comments,
    precision >= 16.
C : the explicit contract `FmtContract` the value theorems assume (for the concrete rational model of the chain its `exact17` is proved; K `round_model`) (parse(format p x) = round_p x, round_p idempotent,
    round_p = id for p >= 17, formatted entries are tokens) validated on the real `%`-formatting and
    numpy.fromstring with round_p computed independently in exact rational arithmetic (`contract_check`).
P : older, coarser form of C kept as a cross-check — `'%.{p}g' % x` is a non-empty whitespace-free, quote-free token, numpy's
    text parser agrees with `float()` on it, the same float comes back for p >= 17."""
import os, sys, math, struct, gzip, pickle, tempfile, shutil, copyreg, itertools, io, inspect, builtins, copy, logging, re
from fractions import Fraction
from decimal import Decimal, localcontext, ROUND_HALF_EVEN
import numpy as np
from . import common

PROP = 'C14'
GENERATED = ['FileIO']
NEEDS_BUILD = False
NEEDS_DRIVER = True
DRIVER_MODULES = ['FileFormat']

# ------------------------------------------------------------------ wire
def X(s):
    return 'x' + s.encode('utf-8').hex()

def unX(t):
    assert t[0] == 'x', t
    return bytes.fromhex(t[1:]).decode('utf-8')

def XS(l):
    l = list(l)
    return ','.join(X(s) for s in l) if l else '-'

def unXS(t):
    return [] if t == '-' else [unX(u) for u in t.split(',')]

def OXS(l):
    return 'none' if l is None else XS(l)

def unOXS(t):
    return None if t == 'none' else unXS(t)

def SH(shape):
    return 'x'.join(str(int(s)) for s in shape) if len(shape) else '-'

def unSH(t):
    return () if t == '-' else tuple(int(u) for u in t.split('x'))

def BITS(m):
    m = [bool(b) for b in m]
    return ''.join('1' if b else '0' for b in m) if m else '-'

def unBITS(t):
    return [] if t == '-' else [c == '1' for c in t]

def parse_spec(toks):
    """six tokens -> dict"""
    return dict(shape=unSH(toks[0]), data=unXS(toks[1]), mask=unBITS(toks[2]), folded=toks[3] == '1',
                labels=unOXS(toks[4]), extrap=None if toks[5] == 'none' else unX(toks[5]))

def same_float(a, b):
    a = float(a); b = float(b)
    if math.isnan(a) or math.isnan(b):
        return math.isnan(a) and math.isnan(b)
    return struct.pack('<d', a) == struct.pack('<d', b)

def same_floats(a, b):
    a = np.asarray(a, dtype=float).ravel(); b = np.asarray(b, dtype=float).ravel()
    if a.shape != b.shape:
        return False
    return a.tobytes() == b.tobytes() or all(same_float(x, y) for x, y in zip(a.tolist(), b.tolist()))

def fmt_tok(p, x):
    """the trusted parameter: how one entry is formatted"""
    return '%.*g' % (p, float(x))

_FMTSTR = {}
def model_fmt(d, p, which=0):
    """the format string the GENERATED writer applies to every entry for a requested precision p (0: to_file, 1: array_to_file)"""
    if p not in _FMTSTR:
        out = d.ask('c14.fmtstr %d' % p).split(' ')
        _FMTSTR[p] = (unX(out[1]), unX(out[2])) if out[0] == 'ok' else None
    return None if _FMTSTR[p] is None else _FMTSTR[p][which]

def model_tok(d, p, x, which=0):
    f = model_fmt(d, p, which)
    return fmt_tok(p, x) if f is None else f % float(x)

# ------------------------------------------------------------------ generators
LABEL_POOL = ['pop 1', 'YRI', ' lead', 'trail ', 'a  b', '', ' ', 'tab\there', 'ünï', 'folded', 'unfolded x', '#hash',
              "it's", 'a　b', '3', '1 2', 'CEU', 'x' * 40, '  ', 'p,q', 'back\\slash', ' nb', '中文 pop',
              # the header's own keywords as free-standing words INSIDE a label (blank on both sides)
              'not folded yet', ' folded ', 'was unfolded once', 'folded unfolded']
COMMENT_POOL = ['hello', '  padded  ', '', '#double', 'has "quotes"', 'tab\tin', 'unfolded 3 4', 'ünï', ' nbsp ',
                '1 2 3', 'folded', '\t', 'x' * 100, ' # ', '3 folded "a"', ' em ', '\x1fus\x1c']
SPECIAL = [0.0, -0.0, 1.0, -1.0, float('nan'), float('inf'), float('-inf'), 5e-324, 2.2250738585072014e-308,
           1e300, 1e-300, -1e300, -1e-300, 0.1 + 0.2, 1 / 3.0, 123456789.0, 9007199254740993.0,
           0.30000000000000004, 1234567890123456.5, 4.35, 1e22, 1e23, 2.5e-5, 100000.0, 1e16, 1e-5, 0.0001]
PRECISIONS = [16, 16, 16, 17, 17, 18, 20, 25, 30]

def gen_value(rng):
    r = rng.random()
    if r < 0.28:
        return float(SPECIAL[int(rng.integers(len(SPECIAL)))])
    if r < 0.60:
        v = 10.0 ** float(rng.uniform(-300, 300)) * float(rng.uniform(1, 10))
        return v if rng.random() < 0.7 else -v
    if r < 0.75:
        return float(int(rng.integers(0, 10 ** int(rng.integers(1, 17)))))
    if r < 0.9:
        return float(rng.uniform(0, 100))
    return float(np.frombuffer(rng.bytes(8), dtype='<f8')[0])   # any bit pattern (may be nan/inf/denormal)

def gen_shape(rng, tier):
    nd = int(rng.choice([1, 2, 3, 4, 5], p=[0.22, 0.26, 0.22, 0.15, 0.15]))
    cap = 600 if tier == 'quick' else 3000
    while True:
        shape = []
        for _ in range(nd):
            r = rng.random()
            shape.append(1 if r < 0.25 else (2 if r < 0.4 else int(rng.integers(3, 13 if nd <= 2 else 7))))
        if int(np.prod(shape)) <= cap:
            return tuple(shape)

def gen_case(rng, tier):
    shape = gen_shape(rng, tier)
    n = int(np.prod(shape))
    vals = [gen_value(rng) for _ in range(n)]
    dens = float(rng.choice([0.0, 0.1, 0.5, 1.0], p=[0.2, 0.35, 0.35, 0.1]))
    mask = [bool(rng.random() < dens) for _ in range(n)]
    r = rng.random()
    if r < 0.35:
        mask[0] = True; mask[-1] = True
    elif r < 0.6:
        mask[0] = False; mask[-1] = False
    if len(shape) >= 2 and rng.random() < 0.2:
        # content constant along one axis (so that a broadcast-backed array can carry it): data, mask or both
        ax = int(rng.integers(len(shape))); which = int(rng.integers(3))
        A = np.array(vals, dtype=float).reshape(shape); M = np.array(mask, dtype=bool).reshape(shape)
        if which in (0, 2): A = np.broadcast_to(np.take(A, [0], axis=ax), shape)
        if which in (1, 2): M = np.broadcast_to(np.take(M, [0], axis=ax), shape)
        vals = np.ascontiguousarray(A).ravel().tolist(); mask = np.ascontiguousarray(M).ravel().tolist()
    layout = dict(via=str(rng.choice(VIAS, p=[0.3, 0.25, 0.2, 0.1, 0.15])), data=str(rng.choice(LAYOUTS)), mask=str(rng.choice(LAYOUTS)),
                  seed=int(rng.integers(1 << 30)))
    labels = None
    if rng.random() < 0.7:
        labels = [LABEL_POOL[int(rng.integers(len(LABEL_POOL)))] for _ in shape]
    ncom = int(rng.integers(0, 6))
    comments = [COMMENT_POOL[int(rng.integers(len(COMMENT_POOL)))] for _ in range(ncom)]
    return dict(shape=list(shape), vals=[float(v).hex() if not math.isnan(v) else 'nan' for v in vals], mask=[int(b) for b in mask],
                folded=bool(rng.random() < 0.45), labels=labels, comments=comments,
                precision=int(PRECISIONS[int(rng.integers(len(PRECISIONS)))]),
                extrap=(None if rng.random() < 0.5 else float(rng.uniform(1e-4, 0.1)).hex()), layout=layout)

def case_vals(c):
    return [float('nan') if v == 'nan' else float.fromhex(v) for v in c['vals']]

LAYOUTS = ['C', 'F', 'perm', 'strided', 'negstride', 'broadcast']
VIAS = ['ctor', 'ctor_nocopy', 'transpose', 'swapaxes', 'slice']

def _perm(shape, seed):
    """a non-identity permutation of the axes (identity only for one axis), derived from the case"""
    n = len(shape)
    r = np.random.RandomState(seed % (2 ** 31))
    p = list(r.permutation(n))
    if n >= 2 and p == list(range(n)):
        p = p[1:] + p[:1]
    return [int(x) for x in p]

def lay_out(arr, kind, seed):
    """an array with the same LOGICAL content as `arr` (same shape, same entry at every index) and the requested memory
    layout: C, Fortran order, an axis-permuted view of a C array, a [::2,...] view of a larger array, a view with negative
    strides, a read-only broadcast view (zero strides) when the content is constant along some axis."""
    arr = np.ascontiguousarray(arr)
    nd = arr.ndim
    if kind == 'F':
        return np.asfortranarray(arr)
    if kind == 'perm' and nd >= 2:
        p = _perm(arr.shape, seed)
        inv = [p.index(i) for i in range(nd)]
        base = np.ascontiguousarray(arr.transpose(inv))
        return base.transpose(p)
    if kind == 'strided':
        big = np.empty(tuple(2 * s for s in arr.shape), dtype=arr.dtype)
        big[...] = True if arr.dtype == bool else 777.25
        v = big[tuple(slice(None, None, 2) for _ in arr.shape)]
        v[...] = arr
        return v
    if kind == 'negstride':
        sl = tuple(slice(None, None, -1) for _ in arr.shape)
        return np.ascontiguousarray(arr[sl])[sl]
    if kind == 'broadcast':
        for ax in range(nd):
            if arr.shape[ax] > 1:
                first = np.take(arr, [0], axis=ax)
                if np.broadcast_to(first, arr.shape).tobytes() == arr.tobytes():
                    return np.broadcast_to(first, arr.shape)
        return lay_out(arr, 'perm', seed) if nd >= 2 else arr
    return arr

def mk_spec(dadi, c):
    """the spectrum of case `c`, built the way c['layout'] says: data and mask get their memory layouts independently
    (constructor, with or without copy), or the whole Spectrum is an axis-permuted / swapped / sliced VIEW of another one.
    Whatever the route, the LOGICAL content (entry at every index, mask, flags, labels) is the one the case lists — checked
    here, a mismatch is a harness error, not a finding."""
    shape = tuple(c['shape'])
    a = np.array(case_vals(c), dtype=float).reshape(shape)
    m = np.array(c['mask'], dtype=bool).reshape(shape)
    ex = None if c.get('extrap') is None else float.fromhex(c['extrap'])
    labels = None if c['labels'] is None else list(c['labels'])
    lay = c.get('layout') or {}
    via = lay.get('via', 'ctor'); seed = int(lay.get('seed', 0)); nd = len(shape)
    kw = dict(mask_corners=False, data_folded=bool(c['folded']), check_folding=False, pop_ids=labels, extrap_x=ex)
    if via == 'transpose' and nd >= 2:
        p = _perm(shape, seed); inv = [p.index(i) for i in range(nd)]
        base = dadi.Spectrum(np.ascontiguousarray(a.transpose(inv)), mask=np.ascontiguousarray(m.transpose(inv)), **kw)
        g = base.transpose(p)
    elif via == 'swapaxes' and nd >= 2:
        i, j = sorted(np.random.RandomState(seed % (2 ** 31)).choice(nd, size=2, replace=False).tolist())
        base = dadi.Spectrum(np.ascontiguousarray(np.swapaxes(a, i, j)), mask=np.ascontiguousarray(np.swapaxes(m, i, j)), **kw)
        g = np.swapaxes(base, i, j)
    elif via == 'slice':
        bd = np.full(tuple(2 * s for s in shape), 555.5); bm = np.ones(tuple(2 * s for s in shape), dtype=bool)
        sl = tuple(slice(None, None, 2) for _ in shape)
        bd[sl] = a; bm[sl] = m
        g = dadi.Spectrum(bd, mask=bm, **kw)[sl]
    else:
        da = lay_out(a, lay.get('data', 'C'), seed); ma = lay_out(m, lay.get('mask', 'C'), seed + 1)
        g = dadi.Spectrum(da, mask=ma, copy=(via != 'ctor_nocopy'), **kw)
    if type(g) is not dadi.Spectrum:
        raise common.Infra('harness: layout route %r did not produce a Spectrum' % (lay,))
    g.pop_ids = labels; g.folded = bool(c['folded']); g.extrap_x = ex
    ok = (tuple(g.shape) == shape and same_floats(np.array(g.data.tolist(), dtype=float), a)
          and np.array(np.ma.getmaskarray(g).tolist(), dtype=bool).reshape(shape).tolist() == m.tolist())
    if not ok:
        raise common.Infra('harness: layout route %r changed the logical content of the case' % (lay,))
    return g

def layout_stats(chk, g, c):
    lay = c.get('layout') or {}
    chk.stat('layout_via_' + lay.get('via', 'ctor'))
    if lay.get('via', 'ctor') in ('ctor', 'ctor_nocopy'):
        chk.stat('layout_data_' + lay.get('data', 'C')); chk.stat('layout_mask_' + lay.get('mask', 'C'))
    d = np.asarray(g.data); mk = np.ma.getmaskarray(g)
    chk.stat('data_' + ('c_contiguous' if d.flags.c_contiguous else ('f_contiguous' if d.flags.f_contiguous else 'noncontiguous')))
    chk.stat('mask_' + ('c_contiguous' if mk.flags.c_contiguous else ('f_contiguous' if mk.flags.f_contiguous else 'noncontiguous')))
    if d.size > 1 and d.ravel(order='K').tobytes() != np.ascontiguousarray(d).ravel().tobytes():
        chk.stat('memory_order_differs_from_logical_order')
    if len(set(c['shape'])) > 1:
        chk.stat('unequal_axis_lengths')

def value_classes(vals):
    s = set()
    for v in vals:
        if math.isnan(v): s.add('nan')
        elif math.isinf(v): s.add('inf')
        elif v == 0: s.add('zero')
        elif abs(v) < 1e-200: s.add('tiny')
        elif abs(v) > 1e200: s.add('huge')
        else: s.add('mid')
    return tuple(sorted(s))

def case_key(c, what):
    lab = 'none' if c['labels'] is None else ('space' if any((' ' in l or '\t' in l) for l in c['labels']) else 'plain')
    lay = c.get('layout') or {}
    lk = (lay.get('via', 'ctor'),) + ((lay.get('data', 'C'), lay.get('mask', 'C')) if lay.get('via', 'ctor') in ('ctor', 'ctor_nocopy') else ())
    return (what, len(c['shape']), 1 in c['shape'], c['folded'], lab, len(c['comments']), c['precision'], value_classes(case_vals(c)),
            int(sum(c['mask'])) in (0, len(c['mask'])), lk, len(set(c['shape'])) > 1)

# ------------------------------------------------------------------ L3: the property on the real code
def fail_once(chk, seen, key, what, inp):
    if key not in seen:
        seen.add(key)
        chk.fail(key, what, inp)
    chk.stat('failures_' + key.split(':')[0])

class Tmp:
    def __init__(self):
        self.d = tempfile.mkdtemp(prefix='c14_')
        self.n = 0
    def path(self, ext):
        self.n += 1
        return os.path.join(self.d, 'f%d%s' % (self.n, ext))
    def close(self):
        shutil.rmtree(self.d, ignore_errors=True)

def corners(mask):
    m = list(mask)
    if m:
        m[0] = True; m[-1] = True
    return m

def check_values(p, written, read):
    """same values to the written precision: the value read back is the double nearest to the p-significant-digit decimal nearest
    to the value written (computed here in exact rational arithmetic, independently of printf/strtod); hence the identical float
    for p >= 17 and a relative error below 10^(1-p).  (Not required: that the value read back PRINTS as the token written — false
    for p = 16 next to a power of ten, e.g. 1.0000000000000001e+23 -> '1e+23' -> 9.999999999999999e+22.)"""
    for w, r in zip(written, read):
        if math.isfinite(w) and abs(w) > 1e308:
            if fmt_tok(p, w) != fmt_tok(p, r):       # beyond the property's range: round_p may overflow; keep the token criterion
                return 'entry %r was written as %s but the value read back prints as %s' % (w, fmt_tok(p, w), fmt_tok(p, r))
            continue
        e = rnd_exact(p, w)
        if not same_float(e, r):
            return 'entry %r was written as %s and read back as %r; the value written, to %d digits, is %r' % (w, fmt_tok(p, w), r, p, e)
        if p >= 17 and not same_float(w, r):
            return 'entry %r read back as %r at precision %d' % (w, r, p)
        if math.isfinite(w) and w != 0 and abs(r - w) > abs(w) * 10.0 ** (1 - p):
            return 'entry %r read back as %r: relative error above 1e%d' % (w, r, 1 - p)
    return None

def l3_file(chk, ctx, c, tmp, ext, seen):
    """to_file -> from_file on the real code.  returns the text written (or None)"""
    dadi = ctx['dadi']
    fs = mk_spec(dadi, c)
    vals = case_vals(c); p = c['precision']
    path = tmp.path('.fs' + ext)
    inp = dict(kind='file', ext=ext, case=c)
    tag = 'gz' if ext else 'plain'
    chk.l3(case_key(c, 'file' + ext))
    chk.stat('l3_file_' + tag)
    alias = bool((c.get('layout') or {}).get('seed', 0) % 3 == 0)        # every third case goes through the tofile/fromfile aliases
    writer = fs.tofile if alias else fs.to_file
    reader = dadi.Spectrum.fromfile if alias else dadi.Spectrum.from_file
    chk.stat('l3_file_alias_names' if alias else 'l3_file_primary_names')
    try:
        writer(path, precision=p, comment_lines=list(c['comments']))
    except Exception as e:
        key = 'to_file:%s:%s' % (tag, type(e).__name__)
        if key not in seen:
            seen.add(key)
            chk.fail(key, "Spectrum.to_file('%s') raised %s: %s (expected: the file is written)" % ('x.fs' + ext, type(e).__name__, e), inp)
        if ext:
            # the reader can still be exercised on a gzip file that holds the text a working writer produces
            plain = tmp.path('.fs')
            path = tmp.path('.fs' + ext)      # a fresh name: the failed call may have leaked an open handle on the old one
            try:
                fs.to_file(plain, precision=p, comment_lines=list(c['comments']))
                with open(plain, newline='') as f: text = f.read()
                with gzip.open(path, 'wt', newline='') as f: f.write(text)
            except Exception:
                return None
        else:
            return None
    try:
        if ext:
            with gzip.open(path, 'rb') as fh: text = fh.read().decode('utf-8')
        else:
            with open(path, newline='') as fh: text = fh.read()
    except Exception:
        text = None
    for mc in (False, True):
        try:
            if mc:
                g = reader(path); coms = None            # defaults: mask_corners=True, no comments
            else:
                g, coms = reader(path, mask_corners=False, return_comments=True)
        except Exception as e:
            key = 'from_file:%s:%s' % (tag, type(e).__name__)
            if key not in seen:
                seen.add(key)
                chk.fail(key, "Spectrum.from_file('%s') raised %s: %s (expected: the spectrum that was written)" % ('x.fs' + ext, type(e).__name__, e),
                         dict(inp, mask_corners=mc))
            return text
        bad = None
        if type(g) is not dadi.Spectrum: bad = 'type %s' % type(g).__name__
        elif tuple(g.shape) != tuple(c['shape']): bad = 'shape %r, written %r' % (tuple(g.shape), tuple(c['shape']))
        else:
            bad = check_values(p, vals, np.asarray(g.data, dtype=float).ravel().tolist())
            want = corners(c['mask']) if mc else list(map(bool, c['mask']))
            got = np.ma.getmaskarray(g).ravel().tolist()
            if bad is None and got != want: bad = 'mask differs at flat index %d' % [i for i in range(len(want)) if got[i] != want[i]][0]
            if bad is None and bool(g.folded) != bool(c['folded']): bad = 'folded %r, written %r' % (g.folded, c['folded'])
            if bad is None and g.pop_ids != c['labels']: bad = 'pop_ids %r, written %r' % (g.pop_ids, c['labels'])
            if bad is None and coms is not None and coms != [s.strip() for s in c['comments']]:
                bad = 'comments %r, written %r' % (coms, c['comments'])
        if bad:
            fail_once(chk, seen, 'roundtrip:%s:%s' % (tag, bad.split(' ')[0]), 'to_file -> from_file (mask_corners=%s): %s' % (mc, bad), dict(inp, mask_corners=mc))
            return text
    return text

def l3_old(chk, ctx, c, tmp, seen):
    dadi = ctx['dadi']
    fs = mk_spec(dadi, c)
    vals = case_vals(c); p = c['precision']
    path = tmp.path('.fs')
    inp = dict(kind='old', case=c)
    chk.l3(case_key(c, 'old')); chk.stat('l3_old_format')
    try:
        fs.to_file(path, precision=p, comment_lines=list(c['comments']), foldmaskinfo=False)
        with open(path, newline='') as fh: text = fh.read()
    except Exception as e:
        fail_once(chk, seen, 'old_format:write:%s' % type(e).__name__, 'to_file(foldmaskinfo=False) raised %s: %s' % (type(e).__name__, e), inp)
        return None
    try:
        g, coms = dadi.Spectrum.from_file(path, mask_corners=False, return_comments=True)
        g2 = dadi.Spectrum.from_file(path)
    except Exception as e:
        fail_once(chk, seen, 'old_format:%s' % type(e).__name__, 'to_file(foldmaskinfo=False) -> from_file raised %s: %s' % (type(e).__name__, e), inp)
        return text
    bad = None
    n = len(vals)
    if tuple(g.shape) != tuple(c['shape']): bad = 'shape'
    elif check_values(p, vals, np.asarray(g.data, dtype=float).ravel().tolist()): bad = 'values: ' + check_values(p, vals, np.asarray(g.data, dtype=float).ravel().tolist())
    elif g.folded or g2.folded: bad = 'folded is True for a file without the folded/unfolded word'
    elif g.pop_ids is not None: bad = 'pop_ids %r for a file without labels' % (g.pop_ids,)
    elif np.ma.getmaskarray(g).any(): bad = 'mask not empty for a file without a mask line'
    elif np.ma.getmaskarray(g2).ravel().tolist() != corners([False] * n): bad = 'default mask_corners does not mask exactly the corners'
    elif coms != [s.strip() for s in c['comments']]: bad = 'comments %r' % (coms,)
    if bad:
        fail_once(chk, seen, 'old_format:' + bad.split(' ')[0].rstrip(':'), 'pre-1.3 format round trip: ' + bad, inp)
    return text

def l3_handmade(chk, ctx, c, tmp, rng, seen):
    """a file laid out by hand from the documented format (not by to_file): '#' comment lines with or without a blank after
    the '#', integers / the folded word / quoted labels separated by blanks or tabs, entries separated by blanks or tabs,
    '\\n' or '\\r\\n' line ends.  from_file must return what was put in."""
    dadi = ctx['dadi']
    vals = case_vals(c)
    seps = [' ', '  ', '\t', ' \t ']
    sep = lambda: seps[int(rng.integers(len(seps)))]
    nl = '\n' if rng.random() < 0.7 else '\r\n'
    lines = []
    for com in c['comments']:
        st = com.strip()
        lines.append(['#' + st, '# ' + st, '#   ' + st + '  ', '#\t' + st][int(rng.integers(4))])
    hdr = ''
    for dsize in c['shape']:
        hdr += str(dsize) + sep()
    hdr += 'folded' if c['folded'] else 'unfolded'
    for lab in (c['labels'] or []):
        hdr += [' ', '  '][int(rng.integers(2))] + '"' + lab + '"'
    lines.append(hdr)
    s1 = sep(); s2 = sep()
    lines.append(s1.join('%.17g' % v for v in vals))
    lines.append(s2.join('1' if b else '0' for b in c['mask']))
    text = nl.join(lines) + nl
    path = tmp.path('.fs')
    with open(path, 'w', newline='') as f: f.write(text)
    inp = dict(kind='handmade', text=text, case=c)
    chk.l3(case_key(c, 'handmade' + repr((nl, s1, s2)))); chk.stat('l3_handmade')
    try:
        g, coms = dadi.Spectrum.from_file(path, mask_corners=False, return_comments=True)
    except Exception as e:
        fail_once(chk, seen, 'handmade:%s' % type(e).__name__, 'from_file on a file laid out by hand from the documented format raised %s: %s' % (type(e).__name__, e), inp)
        return
    bad = None
    if tuple(g.shape) != tuple(c['shape']): bad = 'shape %r' % (tuple(g.shape),)
    elif not same_floats(g.data, vals): bad = 'values differ from the 17-digit entries of the file'
    elif np.ma.getmaskarray(g).ravel().tolist() != list(map(bool, c['mask'])): bad = 'mask differs'
    elif bool(g.folded) != bool(c['folded']): bad = 'folded %r' % (g.folded,)
    elif g.pop_ids != c['labels']: bad = 'pop_ids %r, file has %r' % (g.pop_ids, c['labels'])
    elif coms != [x.strip() for x in c['comments']]: bad = 'comments %r, file has %r' % (coms, [x.strip() for x in c['comments']])
    if bad:
        fail_once(chk, seen, 'handmade:' + bad.split(' ')[0], 'from_file on a hand-laid-out file: ' + bad, inp)

def same_spectrum(dadi, g, fs, c):
    """every attribute the property names (+ extrap_x) of `g` against the case / the original `fs`; None or what differs"""
    if type(g) is not dadi.Spectrum: return 'type %s' % type(g).__name__
    if tuple(g.shape) != tuple(c['shape']): return 'shape'
    if not same_floats(np.asarray(g.data), np.asarray(fs.data)): return 'data differ (bitwise)'
    if np.ma.getmaskarray(g).ravel().tolist() != list(map(bool, c['mask'])): return 'mask differs'
    if g.folded is not True and g.folded is not False and not isinstance(g.folded, np.bool_): return 'folded %r' % (g.folded,)
    if bool(g.folded) != bool(c['folded']): return 'folded'
    if g.pop_ids != c['labels']: return 'pop_ids %r' % (g.pop_ids,)
    if (g.extrap_x is None) != (fs.extrap_x is None) or (g.extrap_x is not None and not same_float(g.extrap_x, fs.extrap_x)): return 'extrap_x %r' % (g.extrap_x,)
    return None

class LogCapture(logging.Handler):
    """the messages dadi.Spectrum_mod logs while the block runs"""
    def __init__(self, dadi):
        logging.Handler.__init__(self)
        self.logger = dadi.Spectrum_mod.logger; self.msgs = []
    def emit(self, record):
        self.msgs.append(record.getMessage())
    def __enter__(self):
        self.old_prop = self.logger.propagate; self.logger.propagate = False
        self.old_disable = logging.root.manager.disable; logging.disable(logging.NOTSET)     # `check` silences logging globally
        self.logger.addHandler(self); return self
    def __exit__(self, *a):
        self.logger.removeHandler(self); self.logger.propagate = self.old_prop
        logging.disable(self.old_disable)

def pickle_routes():
    """every way an object travels through the pickle machinery or is duplicated: pickle protocols 0..5 (bytes and file objects),
    the multiprocessing pickler, copy.copy, copy.deepcopy"""
    routes = []
    for proto in range(0, pickle.HIGHEST_PROTOCOL + 1):
        routes.append(('pickle%d' % proto, (lambda fs, proto=proto: pickle.loads(pickle.dumps(fs, protocol=proto)))))
    def via_file(fs):
        b = io.BytesIO(); pickle.Pickler(b, protocol=pickle.DEFAULT_PROTOCOL).dump(fs); b.seek(0)
        return pickle.Unpickler(b).load()
    routes.append(('pickle_file', via_file))
    def forking(fs):
        from multiprocessing.reduction import ForkingPickler
        return pickle.loads(bytes(ForkingPickler.dumps(fs)))
    routes.append(('forkingpickler', forking))
    def pipe(fs):
        import multiprocessing, threading
        a, b = multiprocessing.Pipe()
        try:
            t = threading.Thread(target=a.send, args=(fs,)); t.start()      # a thread: a large object does not fit the pipe buffer
            g = b.recv(); t.join()
            return g
        finally:
            a.close(); b.close()
    routes.append(('mp_pipe', pipe))
    routes.append(('copy', copy.copy))
    routes.append(('deepcopy', copy.deepcopy))
    routes.append(('nested', lambda fs: pickle.loads(pickle.dumps({'k': [fs, fs]}))['k'][1]))
    return routes

def l3_pickle(chk, ctx, c, seen):
    dadi = ctx['dadi']
    fs = mk_spec(dadi, c)
    inp = dict(kind='pickle', case=c)
    for name, route in pickle_routes():
        chk.l3(case_key(c, name)); chk.stat('l3_pickle'); chk.stat('l3_route_' + name)
        try:
            with LogCapture(dadi) as log:
                g = route(fs)
        except Exception as e:
            fail_once(chk, seen, 'pickle:%s' % type(e).__name__, 'round trip through %s raised %s: %s' % (name, type(e).__name__, e), dict(inp, route=name))
            return
        bad = same_spectrum(dadi, g, fs, c)
        if bad is None and g is fs: bad = 'identity: the same object came back'
        if bad is None and same_spectrum(dadi, fs, fs, c): bad = 'original: the round trip changed the object that was pickled'
        if bad:
            fail_once(chk, seen, 'pickle:' + bad.split(' ')[0].rstrip(':'), 'round trip through %s: %s' % (name, bad), dict(inp, route=name))
            return
        if log.msgs: chk.stat('pickle_route_logged_a_warning')
        fv, gv = float(fs.fill_value), float(g.fill_value)
        chk.stat('fill_value_' + ('kept' if same_float(fv, gv) else 'reset'))

def _mp_identity(x):
    return x

def l3_multiprocessing(chk, ctx, cases, seen):
    """a REAL worker process: spectra sent to a pool worker and sent back (what dadi's multi-process cache generation relies on)"""
    dadi = ctx['dadi']
    import multiprocessing
    specs = [mk_spec(dadi, c) for c in cases]
    try:
        mpc = multiprocessing.get_context('fork')
        with mpc.Pool(1) as pool:
            back = pool.apply_async(_mp_identity, (specs,)).get(timeout=120)
    except (OSError, multiprocessing.TimeoutError, ImportError) as e:
        chk.stat('l3_multiprocessing_unavailable'); chk.notes.append('multiprocessing pool could not be used here: %r' % (e,))
        return
    except Exception as e:
        fail_once(chk, seen, 'pickle:mp_pool:%s' % type(e).__name__, 'sending spectra to a pool worker and back raised %s: %s' % (type(e).__name__, e),
                  dict(kind='pickle', case=cases[0], route='mp_pool'))
        return
    for c, fs, g in zip(cases, specs, back):
        chk.l3(case_key(c, 'mp_pool')); chk.stat('l3_route_mp_pool')
        bad = same_spectrum(dadi, g, fs, c)
        if bad:
            fail_once(chk, seen, 'pickle:' + bad.split(' ')[0], 'round trip through a pool worker: %s' % bad, dict(kind='pickle', case=c, route='mp_pool'))
            return

def l3_array(chk, ctx, c, tmp, masked, fileobj, seen):
    dadi = ctx['dadi']
    vals = case_vals(c); p = c['precision']
    inp = dict(kind='array', case=c, masked=masked, fileobj=fileobj)
    chk.l3(case_key(c, 'array%d%d' % (masked, fileobj))); chk.stat('l3_array')
    lay = c.get('layout') or {}
    arr = mk_spec(dadi, c) if masked else lay_out(np.array(vals, dtype=float).reshape(c['shape']), lay.get('data', 'C'), int(lay.get('seed', 0)))
    want = [float('nan') if (masked and m) else v for v, m in zip(vals, c['mask'])]
    path = tmp.path('.txt')
    try:
        if fileobj:
            with open(path, 'w') as f:
                dadi.Numerics.array_to_file(arr, f, precision=p, comment_lines=list(c['comments']))
            with open(path, 'r') as f:
                b, coms = dadi.Numerics.array_from_file(f, return_comments=True)
        else:
            dadi.Numerics.array_to_file(arr, path, precision=p, comment_lines=list(c['comments']))
            b, coms = dadi.Numerics.array_from_file(path, return_comments=True)
    except Exception as e:
        fail_once(chk, seen, 'array_rw:%s' % type(e).__name__, 'array_to_file -> array_from_file raised %s: %s' % (type(e).__name__, e), inp)
        try:
            with open(path, newline='') as f: return f.read()
        except Exception:
            return None
    bad = None
    if tuple(b.shape) != tuple(c['shape']): bad = 'shape %r' % (tuple(b.shape),)
    elif check_values(p, want, np.asarray(b, dtype=float).ravel().tolist()): bad = 'values: ' + check_values(p, want, np.asarray(b, dtype=float).ravel().tolist())
    elif coms != [s.strip() for s in c['comments']]: bad = 'comments %r' % (coms,)
    if bad:
        fail_once(chk, seen, 'array_rw:' + bad.split(' ')[0].rstrip(':'), 'array_to_file -> array_from_file: ' + bad, inp)
    with open(path, newline='') as f: return f.read()

# ------------------------------------------------------------------ C: the explicit contract of the value theorems
def rnd_exact(p, x):
    """round_p x WITHOUT printf / strtod: the exact binary value of x -> the nearest decimal with p significant digits (ties to
    even) -> the nearest double (ties to even; beyond the largest double: inf)."""
    x = float(x)
    if math.isnan(x) or math.isinf(x) or x == 0.0:
        return x
    with localcontext() as ctx:
        ctx.prec = p; ctx.rounding = ROUND_HALF_EVEN; ctx.Emax = 999999; ctx.Emin = -999999
        d = +Decimal(x)
    try:
        return float(Fraction(d))
    except OverflowError:
        return math.copysign(math.inf, x)

def contract_values(rng, n):
    out = list(SPECIAL)
    for k in (-300, -200, -100, -17, -5, -1, 0, 1, 5, 15, 16, 17, 22, 23, 100, 200, 300):
        b = float('1e%d' % k)
        out += [b, np.nextafter(b, 0.0), np.nextafter(b, np.inf), -b]
    for k in (-1022, -1000, -500, -53, -1, 0, 1, 52, 53, 54, 500, 996):
        b = math.ldexp(1.0, k)
        out += [b, float(np.nextafter(b, 0.0)), float(np.nextafter(b, np.inf))]
    out += [math.ldexp(float(m), -1074) for m in (1, 2, 3, 7, 12345, 2 ** 51 + 1)]          # denormals
    while len(out) < n:
        out.append(gen_value(rng))
    return [float(v) for v in out[:max(n, len(SPECIAL))]]

def contract_check(chk, rng, n):
    """the four fields of FmtContract (Lemmas/FileValues.lean) on the real code: fmt = '%.{p}g' % x (what numpy.savetxt / tofile
    apply per entry), parse = numpy.fromstring(t, count=1, sep=' ') (what from_file applies), rnd = rnd_exact (independent).
    Domain = the property's range: nan, +-inf, +-0 and finite |x| <= 1e308 (1e-300..1e300, denormals included)."""
    seen = set()
    for i, x in enumerate(contract_values(rng, n)):
        if math.isfinite(x) and abs(x) > 1e308:
            chk.stat('contract_skipped_beyond_1e308'); continue
        for p in (16, 17, 18, 19, 20, 25, 30):
            chk.l3(('contract', p, value_classes([x]), i % 11)); chk.stat('contract_eval')
            t = fmt_tok(p, x)
            r = rnd_exact(p, x)
            bad = None
            if t == '' or any(ch.isspace() for ch in t):
                bad = ('tok', 'formatted entry %r is empty or contains whitespace' % t)
            else:
                try:
                    y = float(np.fromstring(t, count=1, sep=' ')[0])
                except Exception as e:
                    y = None; bad = ('parse_fmt', 'numpy.fromstring(%r) raised %s' % (t, type(e).__name__))
                if bad is None and not same_float(y, r):
                    bad = ('parse_fmt', '%r written as %s reads back as %r, but the value rounded to %d digits is %r' % (x, t, y, p, r))
                elif bad is None and not same_float(float(t), r):
                    bad = ('parse_fmt', 'float(%r) = %r, but the value rounded to %d digits is %r' % (t, float(t), p, r))
                elif bad is None and p >= 17 and not same_float(r, x):
                    bad = ('exact17', '%r rounded to %d digits is %r' % (x, p, r))
                elif bad is None and not (same_float(rnd_exact(p, r), r) and same_float(float(np.fromstring(fmt_tok(p, r), count=1, sep=' ')[0]), r)):
                    bad = ('rnd_idem', 'rounding %r to %d digits twice gives %r then %r (written again: %s)' % (x, p, r, rnd_exact(p, r), fmt_tok(p, r)))
                if bad is None and fmt_tok(p, r) != t:
                    chk.stat('contract_reprint_differs_p%d' % p)      # not part of the contract: happens at p = 16 next to powers of ten
            if bad and (bad[0], p) not in seen:
                seen.add((bad[0], p))
                chk.fail('fmt_contract:%s:p=%d' % (bad[0], p), 'the number-formatting contract the value theorems assume does not hold: ' + bad[1],
                         dict(kind='contract', x=hexf(x), p=p))

def frac_wire(q):
    q = Fraction(q)
    return str(q.numerator) if q.denominator == 1 else '%d/%d' % (q.numerator, q.denominator)

def k_rnd(chk, d, rng, n):
    """the exact rational model of '%.{p}g' + strtod (Model: roundSig, roundBin, rndModel; theorems C14_round_*) against
    (a) Python's Decimal arithmetic for the decimal rounding, (b) the REAL chain float('%.*g' % (p, x)) for the composed map,
    (c) the identity on doubles for roundBin — finite values only (nan / inf are tokens, not rationals)."""
    for i, x in enumerate(contract_values(rng, n)):
        if not math.isfinite(x) or abs(x) > 1e308:
            continue
        for p in ((16, 17) if i % 3 else (16, 17, 18, 20, 30, 1, 5, 15)):
            out = d.ask('c14.rnd %d %s' % (p, frac_wire(Fraction(x)))).split(' ')
            if out[0] != 'ok':
                chk.k_bad('round_model', dict(kind='rnd', x=hexf(x), p=p), None, ' '.join(out)[:200], 'model refuses'); continue
            msig, mrnd, mbin = (Fraction(t) for t in out[1:4])
            if x == 0:
                want_sig = Fraction(0)
            else:
                with localcontext() as ctx:
                    ctx.prec = p; ctx.rounding = ROUND_HALF_EVEN; ctx.Emax = 999999; ctx.Emin = -999999
                    want_sig = Fraction(+Decimal(x))
            real = float('%.*g' % (p, x))
            msg = None
            if msig != want_sig: msg = 'roundSig: model %s, Decimal %s' % (msig, want_sig)
            elif mbin != Fraction(x): msg = 'roundBin of a double is not the double'
            elif math.isfinite(real) and mrnd != Fraction(real): msg = 'rndModel: model %s, printf/strtod give %r' % (float(mrnd), real)
            chk.stat('k_rnd_p%d' % p if p in (16, 17) else 'k_rnd_other_p')
            if msg is None: chk.k_ok('round_model')
            else: chk.k_bad('round_model', dict(kind='rnd', x=hexf(x), p=p), repr(real), ' '.join(out)[:300], msg)

# ------------------------------------------------------------------ which file is opened how (K + L3)
OPEN_NAMES = ['a.fs', 'a.gz', 'a.fs.gz', 'a.GZ', 'a.gz.fs', 'gz', '.gz', 'a.gzz', 'a..gz', 'a.gz.gz', 'a_gz', 'a.fs.Gz', 'x.gz.bak',
              'ünï.fs.gz', 'with space.gz', 'agz', 'a.gz ', 'a.g', 'z']

def open_dispatch(chk, ctx, d, tmp, seen):
    """for file names with every kind of suffix: (L3) to_file produces a gzip stream exactly for the names ending in '.gz', the
    content is the text a plain file gets, and from_file returns the spectrum; (K) the function and mode with which writer and
    reader open the file (recorded by wrapping gzip.open / open inside dadi.Spectrum_mod) vs the GENERATED dispatch."""
    dadi = ctx['dadi']; sm = dadi.Spectrum_mod
    fs = dadi.Spectrum([0.5, 1.25, 2.0, 4.0, 0.1], mask=[True, False, True, False, True], mask_corners=False, pop_ids=['p q'], data_folded=False)
    ref = tmp.path('.ref')
    try:
        fs.to_file(ref, comment_lines=['c'])
        with open(ref, newline='') as f: ref_text = f.read()
    except Exception:
        ref_text = None
    for i, name in enumerate(OPEN_NAMES):
        sub = os.path.join(tmp.d, 'open_%d' % i); os.makedirs(sub, exist_ok=True)
        path = os.path.join(sub, name)
        rec = {'w': [], 'r': []}
        phase = ['w']
        real_gz = gzip.open
        def rgz(f, mode='rb', *a, **k):
            rec[phase[0]].append(('gzip.open', mode)); return real_gz(f, mode, *a, **k)
        def rop(f, mode='r', *a, **k):
            rec[phase[0]].append(('open', mode)); return builtins.open(f, mode, *a, **k)
        inp = dict(kind='open', name=name)
        chk.l3(('open', name)); chk.stat('l3_open_' + ('gz' if name.endswith('.gz') else 'plain'))
        g = None; werr = rerr = None
        gzip.open = rgz; sm.open = rop
        try:
            try:
                fs.to_file(path, comment_lines=['c'])
            except Exception as e:
                werr = e
            phase[0] = 'r'
            if werr is None:
                try:
                    g = dadi.Spectrum.from_file(path, mask_corners=False)
                except Exception as e:
                    rerr = e
        finally:
            gzip.open = real_gz
            try: del sm.open
            except AttributeError: pass
        if werr is not None:
            fail_once(chk, seen, 'open_dispatch:to_file:%s' % type(werr).__name__, 'to_file(%r) raised %s: %s' % (name, type(werr).__name__, werr), inp)
        elif rerr is not None:
            fail_once(chk, seen, 'open_dispatch:from_file:%s' % type(rerr).__name__, 'from_file(%r) on the file to_file wrote raised %s: %s' % (name, type(rerr).__name__, rerr), inp)
        else:
            with open(path, 'rb') as f: raw = f.read()
            is_gz = raw[:2] == b'\x1f\x8b'
            bad = None
            if is_gz != name.endswith('.gz'):
                bad = 'compression: file %r %s a gzip stream' % (name, 'is' if is_gz else 'is not')
            else:
                try:
                    text = (gzip.decompress(raw) if is_gz else raw).decode('utf-8')
                except Exception as e:
                    text = None; bad = 'content: not readable as %s text (%s)' % ('gzip' if is_gz else 'plain', type(e).__name__)
                if bad is None and ref_text is not None and text != ref_text:
                    bad = 'content: differs from the text written under a plain name'
                elif bad is None and not (tuple(g.shape) == (5,) and same_floats(g.data, fs.data) and np.ma.getmaskarray(g).tolist() == [True, False, True, False, True]
                                          and g.pop_ids == ['p q'] and not g.folded):
                    bad = 'roundtrip: the spectrum read back differs'
            if bad:
                fail_once(chk, seen, 'open_dispatch:' + bad.split(':')[0], 'to_file/from_file(%r): %s' % (name, bad), inp)
        if d is not None and d.ok():
            out = d.ask('c14.open ' + X(name)).split(' ')
            model_w, model_r = (out[1], out[2]), (out[3], out[4])
            if werr is None and rec['w'][:1] == [model_w]: chk.k_ok('open_dispatch')
            elif werr is None: chk.k_bad('open_dispatch', inp, rec['w'], out, 'writer opens the file differently')
            if werr is None and rerr is None:
                if rec['r'][:1] == [model_r]: chk.k_ok('open_dispatch')
                else: chk.k_bad('open_dispatch', inp, rec['r'], out, 'reader opens the file differently')

# ------------------------------------------------------------------ cross-reading (L3)
def l3_cross(chk, ctx, c, tmp, seen):
    """files of the generic array writer read by Spectrum.from_file, pre-1.3 Spectrum files read by array_from_file"""
    dadi = ctx['dadi']
    vals = case_vals(c); p = c['precision']; n = len(vals)
    lay = c.get('layout') or {}
    inp = dict(kind='cross', case=c)
    chk.l3(case_key(c, 'cross')); chk.stat('l3_cross')
    arr = lay_out(np.array(vals, dtype=float).reshape(c['shape']), lay.get('data', 'C'), int(lay.get('seed', 0)))
    path = tmp.path('.txt')
    try:
        dadi.Numerics.array_to_file(arr, path, precision=p, comment_lines=list(c['comments']))
        g, coms = dadi.Spectrum.from_file(path, mask_corners=False, return_comments=True)
        g2 = dadi.Spectrum.from_file(path)
    except Exception as e:
        fail_once(chk, seen, 'cross:array_to_spectrum:%s' % type(e).__name__, 'array_to_file -> Spectrum.from_file raised %s: %s' % (type(e).__name__, e), inp)
        g = None
    if g is not None:
        bad = None
        if tuple(g.shape) != tuple(c['shape']): bad = 'shape %r' % (tuple(g.shape),)
        elif check_values(p, vals, np.asarray(g.data, dtype=float).ravel().tolist()): bad = 'values: ' + check_values(p, vals, np.asarray(g.data, dtype=float).ravel().tolist())
        elif g.folded or g.pop_ids is not None: bad = 'flags: folded %r, pop_ids %r for a plain array file' % (g.folded, g.pop_ids)
        elif np.ma.getmaskarray(g).any() or np.ma.getmaskarray(g2).ravel().tolist() != corners([False] * n): bad = 'mask: not (nothing | exactly the corners) masked'
        elif coms != [s_.strip() for s_ in c['comments']]: bad = 'comments %r' % (coms,)
        if bad:
            fail_once(chk, seen, 'cross:array_to_spectrum:' + bad.split(' ')[0].rstrip(':'), 'array_to_file -> Spectrum.from_file: ' + bad, inp)
    fs = mk_spec(dadi, c)
    path = tmp.path('.fs')
    try:
        fs.to_file(path, precision=p, comment_lines=list(c['comments']), foldmaskinfo=False)
        b, coms = dadi.Numerics.array_from_file(path, return_comments=True)
    except Exception as e:
        fail_once(chk, seen, 'cross:old_to_array:%s' % type(e).__name__, 'to_file(foldmaskinfo=False) -> array_from_file raised %s: %s' % (type(e).__name__, e), inp)
        return
    bad = None
    if tuple(b.shape) != tuple(c['shape']): bad = 'shape %r' % (tuple(b.shape),)
    elif check_values(p, vals, np.asarray(b, dtype=float).ravel().tolist()): bad = 'values: ' + check_values(p, vals, np.asarray(b, dtype=float).ravel().tolist())
    elif coms != [s_.strip() for s_ in c['comments']]: bad = 'comments %r' % (coms,)
    if bad:
        fail_once(chk, seen, 'cross:old_to_array:' + bad.split(' ')[0].rstrip(':'), 'to_file(foldmaskinfo=False) -> array_from_file: ' + bad, inp)

# ------------------------------------------------------------------ P: the trusted parameter
def param_check(chk, rng, n):
    seen = set()
    for i in range(n):
        x = SPECIAL[i] if i < len(SPECIAL) else gen_value(rng)
        for p in (16, 17, 18, 20, 25, 30):
            chk.l3(('fmt', p, value_classes([x]), i % 7)); chk.stat('param_fmt')
            t = fmt_tok(p, x)
            bad = None
            if t == '' or any(ch.isspace() for ch in t) or '"' in t:
                bad = 'token %r is empty or contains whitespace / a quote' % t
            else:
                y = float(t)
                z = float(np.fromstring(t, count=1, sep=' ')[0])
                if not same_float(y, z): bad = 'numpy reads %r as %r, float() as %r' % (t, z, y)
                elif p >= 17 and not same_float(x, y): bad = '%r -> %s -> %r at precision %d' % (x, t, y, p)
            if bad and ('fmt', p) not in seen:
                seen.add(('fmt', p))
                chk.fail('fmt_param:p=%d' % p, "number formatting is not the round trip the proof assumes: " + bad, dict(kind='fmt', x=float(x).hex() if not math.isnan(x) else 'nan', p=p))

# ------------------------------------------------------------------ K
def k_primitives(chk, d, rng, tier):
    # whitespace table over all of Unicode
    out = d.ask('c14.ws')
    model = [int(t) for t in out[3:].split(',')]
    real = [cp for cp in range(0x110000) if chr(cp).isspace()]
    if model == real: chk.k_ok('ws_table')
    else: chk.k_bad('ws_table', 'all code points', real, model, 'str.isspace table differs')
    alphabet = [' ', '\t', '\n', '\r', '\x0b', '\x0c', '\x1c', '\x1f', '\x85', '\xa0', ' ', '　', '​', ' ', ' ',
                'a', 'b', '"', '#', '1', '-', 'ü', 'x', '.']
    n = 120 if tier == 'quick' else 600
    for i in range(n):
        s = ''.join(alphabet[int(rng.integers(len(alphabet)))] for _ in range(int(rng.integers(0, 14))))
        out = d.ask('c14.split ' + X(s))
        if out.startswith('ok ') and unXS(out[3:]) == s.split(): chk.k_ok('split')
        else: chk.k_bad('split', s, s.split(), out, 'str.split()')
        out = d.ask('c14.strip ' + X(s))
        if out.startswith('ok ') and unX(out[3:]) == s.strip(): chk.k_ok('strip')
        else: chk.k_bad('strip', s, s.strip(), out, 'str.strip()')
    charsets = [None, '# ', '"', 'ab#', ' \t', 'x.', '#']
    for i in range(n):
        s = ''.join(alphabet[int(rng.integers(len(alphabet)))] for _ in range(int(rng.integers(0, 12))))
        cs = charsets[int(rng.integers(len(charsets)))]
        for kind, fn in (('l', str.lstrip), ('r', str.rstrip), ('b', str.strip)):
            want = fn(s) if cs is None else fn(s, cs)
            out = d.ask('c14.stripx %s %s %s' % (kind, 'none' if cs is None else X(cs), X(s)))
            if out.startswith('ok ') and unX(out[3:]) == want: chk.k_ok('strip_variants')
            else: chk.k_bad('strip_variants', [kind, cs, s], want, out, 'str.%sstrip(%r)' % ({'l': 'l', 'r': 'r', 'b': ''}[kind], cs))
        a = ''.join(alphabet[int(rng.integers(len(alphabet)))] for _ in range(int(rng.integers(0, 3)))) if rng.random() < 0.5 else s[len(s) - int(rng.integers(0, 3)):]
        b = ''.join(alphabet[int(rng.integers(len(alphabet)))] for _ in range(int(rng.integers(0, 3)))) if rng.random() < 0.5 else s[:int(rng.integers(0, 3))]
        for op, x, want in (('endswith', a, s.endswith(a)), ('startswith', b, s.startswith(b))):
            out = d.ask('c14.%s %s %s' % (op, X(x), X(s)))
            if out == 'ok %d' % int(want): chk.k_ok('starts_ends_with')
            else: chk.k_bad('starts_ends_with', [op, x, s], want, out, 'str.%s' % op)
    for i in range(60 if tier == 'quick' else 300):
        k = int(rng.integers(0, 10 ** int(rng.integers(1, 12)))) if i > 12 else [0, 1, 9, 10, 11, 99, 100, 101, 1000, 12345, 10 ** 9, 999999, 5][i]
        out = d.ask('c14.fmti %d' % k)
        if out.startswith('ok ') and unX(out[3:]) == '%i' % k: chk.k_ok('fmt_i')
        else: chk.k_bad('fmt_i', k, '%i' % k, out, "'%i'")
        for t in ('%d' % k, '+%d' % k, '0%d' % k):
            out = d.ask('c14.int ' + X(t))
            if out == 'ok %d' % int(t): chk.k_ok('int')
            else: chk.k_bad('int', t, int(t), out, 'int()')
    for t in ('', '+', 'a', '1a', '1.0', '-', 'folded', '1e3', '0x10', ' '):
        out = d.ask('c14.int ' + X(t))
        try:
            int(t); real = 'ok'
        except ValueError:
            real = 'err'
        if out.startswith(real): chk.k_ok('int')
        else: chk.k_bad('int', t, real, out, 'int() acceptance')

def k_meta(chk, ctx, d):
    dadi = ctx['dadi']
    sm = dadi.Spectrum_mod
    out = d.ask('c14.meta').split(' ')
    real_params = list(inspect.signature(sm.Spectrum_unpickler).parameters)
    reg = copyreg.dispatch_table.get(dadi.Spectrum)
    ok = (out[0] == 'ok' and out[2].split(',') == real_params and out[3] == 'Spectrum_unpickler'
          and reg is sm.Spectrum_pickler and len(out[1].split(',')) == len(real_params))
    if ok: chk.k_ok('pickle_meta')
    else: chk.k_bad('pickle_meta', 'signature/registration', dict(params=real_params, registered=getattr(reg, '__name__', None)), out, 'reduce metadata')

def spec_wire(c, toks):
    return '%s %s %s %s %s %s' % (SH(c['shape']), XS(toks), BITS(c['mask']), '1' if c['folded'] else '0', OXS(c['labels']),
                                  'none' if c.get('extrap') is None else X(c['extrap']))

def k_tofile(chk, d, c, text, fmi, op):
    """text written by the real to_file vs the generated writer"""
    toks = [model_tok(d, c['precision'], v, 0) for v in case_vals(c)]      # formatted with the GENERATED format string
    out = d.ask('c14.tofile %s %s %s %s %s %s %s' % (XS(c['comments']), SH(c['shape']), '1' if c['folded'] else '0', OXS(c['labels']),
                                                      '1' if fmi else '0', XS(toks), BITS(c['mask'])))
    if out.startswith('ok ') and unX(out[3:]) == text: chk.k_ok(op)
    else:
        m = unX(out[3:]) if out.startswith('ok ') else out
        chk.k_bad(op, dict(kind='file', case=c), text[:400], m[:400], 'written text differs')

def impl_from_file(dadi, path, mc):
    try:
        g, coms = dadi.Spectrum.from_file(path, mask_corners=mc, return_comments=True)
    except Exception as e:
        return ('exc', type(e).__name__ + ': ' + str(e)[:80])
    return ('ok', g, coms)

def cmp_fromfile(impl, out):
    """impl = impl_from_file result; out = model answer.  returns None or message"""
    if impl[0] == 'exc':
        return None if out == 'err reject' else 'implementation raised %s, model accepts: %s' % (impl[1], out[:200])
    if not out.startswith('ok '):
        return 'implementation accepts, model says %s' % out
    t = out[3:].split(' ')
    m = parse_spec(t[:6]); coms = unXS(t[6])
    g = impl[1]
    if tuple(g.shape) != m['shape']: return 'shape %r vs %r' % (tuple(g.shape), m['shape'])
    gv = np.asarray(g.data, dtype=float).ravel().tolist()
    if len(gv) != len(m['data']): return 'size'
    for a, tok in zip(gv, m['data']):
        try:
            b = float(tok)
        except ValueError:
            return 'model token %r is not a number' % tok
        if not same_float(a, b): return 'value %r vs token %s' % (a, tok)
    if np.ma.getmaskarray(g).ravel().tolist() != m['mask']: return 'mask'
    if bool(g.folded) != m['folded']: return 'folded %r vs %r' % (g.folded, m['folded'])
    if g.pop_ids != m['labels']: return 'labels %r vs %r' % (g.pop_ids, m['labels'])
    if impl[2] != coms: return 'comments %r vs %r' % (impl[2], coms)
    if g.extrap_x is not None or m['extrap'] is not None: return 'extrap_x'
    return None

def k_fromfile(chk, ctx, d, tmp, text, op, note=None):
    dadi = ctx['dadi']
    path = tmp.path('.fs')
    with open(path, 'w', newline='') as f: f.write(text)
    for mc in (False, True):
        impl = impl_from_file(dadi, path, mc)
        out = d.ask('c14.fromfile %d %s' % (1 if mc else 0, X(text)))
        msg = cmp_fromfile(impl, out)
        chk.stat('k_%s_%s' % (op, 'reject' if impl[0] == 'exc' else 'accept'))
        if msg is None: chk.k_ok(op)
        else: chk.k_bad(op, dict(kind='text', text=text, mask_corners=mc, note=note), impl[1] if impl[0] == 'exc' else 'accepted', out[:300], msg)

def mutations(rng, text, c):
    """hand-made variants of a written file; every one is something both sides must treat alike"""
    lines = text.split('\n')
    ncom = len(c['comments'])
    hdr, dat = lines[ncom], lines[ncom + 1]
    msk = lines[ncom + 2] if len(lines) > ncom + 2 else ''
    coms = lines[:ncom]
    out = []
    def build(coms=coms, hdr=hdr, dat=dat, msk=msk, nl='\n', tail=''):
        ls = list(coms) + [hdr, dat] + ([msk] if msk is not None else [])
        return nl.join(ls) + nl + tail
    out.append(('crlf', build(nl='\r\n')))
    out.append(('cr', build(nl='\r')))
    out.append(('no_final_newline', build()[:-1]))
    out.append(('trailing_blank_lines', build(tail='\n\n')))
    out.append(('trailing_garbage', build(tail='more text\n1 2 3\n')))
    out.append(('tabs', build(hdr=hdr.replace(' ', '\t') if '"' not in hdr else hdr, dat=dat.replace(' ', '\t'), msk=msk.replace(' ', ' \t'))))
    out.append(('indent', build(hdr='  ' + hdr + '  ', dat=' ' + dat + ' ', msk='\t' + msk)))
    out.append(('extra_data_tokens', build(dat=dat + ' 7 8 9', msk=msk + ' 1 1' if msk else msk)))
    out.append(('no_mask_line', build(msk=None)))
    out.append(('empty_mask_line', build(msk='   ')))
    dims = ' '.join(str(s) for s in c['shape'])
    n = int(np.prod(c['shape']))
    out.append(('old_header_with_mask', build(hdr=dims, msk=' '.join('1' if rng.random() < 0.5 else '0' for _ in range(n)))))
    out.append(('plus_dims', build(hdr=hdr.replace(dims, ' '.join('+%d' % s for s in c['shape']), 1))))
    out.append(('zero_padded_dims', build(hdr=hdr.replace(dims, ' '.join('0%d' % s for s in c['shape']), 1))))
    out.append(('flag_only', build(hdr='folded')))
    out.append(('flag_first', build(hdr='unfolded ' + dims)))
    out.append(('bad_dim', build(hdr=hdr.replace(dims, dims + 'x', 1))))
    out.append(('float_dim', build(hdr=hdr.replace(dims, dims + '.0', 1))))
    out.append(('empty', ''))
    out.append(('only_comments', '# a\n# b\n'))
    out.append(('space_before_hash', build(coms=[' # not a comment'] + list(coms))))
    out.append(('hash_only_comment', build(coms=['#'] + list(coms))))
    out.append(('hash_no_space', build(coms=['#tight', '##two'] + list(coms))))
    out.append(('other_flag', build(hdr=dims + (' folded' if 'unfolded' in hdr.split() else ' unfolded'))))
    out.append(('both_flags', build(hdr=dims + ' folded unfolded')))
    out.append(('word_after_flag', build(hdr=dims + ' unfolded extra')))
    if c['labels'] is not None:
        simple = len(c['labels']) > 1 and all(l and '"' not in l and not any(ch.isspace() for ch in l) for l in c['labels'])
        out.append(('label_dropped', build(hdr=hdr[:hdr.rstrip().rfind(' "')]) if simple else build(hdr=hdr + ' "extra"')))
        out.append(('label_added', build(hdr=hdr + ' "one more"')))
        out.append(('unbalanced_quote', build(hdr=hdr + ' "open')))
    else:
        out.append(('labels_added', build(hdr=hdr + ''.join(' "L %d"' % i for i in range(len(c['shape']))))))
        out.append(('single_quotes', build(hdr=hdr + ''.join(" 'L%d'" % i for i in range(len(c['shape']))))))
    out.append(('dims_prod_smaller', build(hdr=hdr.replace(dims, ' '.join(['1'] * len(c['shape'])), 1))))
    return out

def k_array(chk, ctx, d, tmp, c, text, masked):
    dadi = ctx['dadi']
    vals = case_vals(c)
    toks = [model_tok(d, c['precision'], v, 1) for v in vals]              # formatted with the GENERATED format string
    if masked:
        out = d.ask('c14.filled %s %s' % (XS(toks), BITS(c['mask'])))
        toks = unXS(out[3:])
    out = d.ask('c14.arr_to %s %s %s' % (XS(c['comments']), SH(c['shape']), XS(toks)))
    if out.startswith('ok ') and unX(out[3:]) == text: chk.k_ok('array_to_file')
    else: chk.k_bad('array_to_file', dict(kind='array', case=c, masked=masked), text[:300], (unX(out[3:]) if out.startswith('ok ') else out)[:300], 'written text differs')
    variants = [('written', text)]
    lines = text.split('\n')
    ncom = len(c['comments'])
    if len(lines) > ncom + 1 and lines[ncom + 1].strip():
        dt = lines[ncom + 1].split(' ')
        if len(dt) >= 2:
            k = len(dt) // 2
            variants.append(('data_over_two_lines', '\n'.join(lines[:ncom + 1] + [' '.join(dt[:k]), ' '.join(dt[k:])]) + '\n'))
            variants.append(('too_few', '\n'.join(lines[:ncom + 1] + [' '.join(dt[:-1])]) + '\n'))
        variants.append(('extra_tokens', text + '5 6\n'))
        variants.append(('crlf', text.replace('\n', '\r\n')))
    variants.append(('empty', ''))
    variants.append(('bad_dim', 'x ' + text))
    for name, t in variants:
        k_arr_from(chk, ctx, d, tmp, t, 'array_from_file', name)

def k_arr_from(chk, ctx, d, tmp, t, op, name):
    """the real array_from_file vs the GENERATED array reader on the text `t`"""
    dadi = ctx['dadi']
    if True:
        path = tmp.path('.txt')
        with open(path, 'w', newline='') as f: f.write(t)
        try:
            b, coms = dadi.Numerics.array_from_file(path, return_comments=True)
            impl = ('ok', b, coms)
        except Exception as e:
            impl = ('exc', type(e).__name__)
        out = d.ask('c14.arr_from ' + X(t))
        msg = None
        if impl[0] == 'exc':
            if out != 'err reject': msg = 'implementation raised %s, model: %s' % (impl[1], out[:200])
        elif not out.startswith('ok '):
            msg = 'implementation accepts, model: ' + out
        else:
            tt = out[3:].split(' ')
            if unSH(tt[0]) != tuple(impl[1].shape): msg = 'shape'
            elif not all(same_float(a, float(tok)) for a, tok in zip(np.asarray(impl[1], dtype=float).ravel().tolist(), unXS(tt[1]))) \
                    or impl[1].size != len(unXS(tt[1])): msg = 'values'
            elif impl[2] != unXS(tt[2]): msg = 'comments'
        chk.stat('k_%s_%s' % (op, 'reject' if impl[0] == 'exc' else 'accept'))
        if msg is None: chk.k_ok(op)
        else: chk.k_bad(op, dict(kind='arrtext', text=t, note=name), impl[0], out[:300], msg)

def py_wire(v):
    """a Python value of the reduce tuple -> pyval token (numbers as hex floats = opaque tokens)"""
    if v is None: return 'N'
    if isinstance(v, (bool, np.bool_)): return 'B1' if v else 'B0'
    if isinstance(v, np.ndarray) and v.dtype == bool: return 'M' + BITS(v.ravel().tolist())
    if isinstance(v, np.ndarray): return 'A' + SH(v.shape) + ':' + XS(hexf(x) for x in v.ravel().tolist())
    if isinstance(v, (list, tuple)) and all(isinstance(s, str) for s in v): return 'S' + XS(v)
    if isinstance(v, (float, np.floating)): return 'X' + X(hexf(v))
    raise ValueError('reduce tuple holds %r' % (type(v),))

def hexf(x):
    x = float(x)
    return 'nan' if math.isnan(x) else x.hex()

def k_pickle(chk, ctx, d, c, rng):
    dadi = ctx['dadi']
    fs = mk_spec(dadi, c)
    toks = [hexf(v) for v in case_vals(c)]
    reducer = copyreg.dispatch_table.get(dadi.Spectrum)
    inp = dict(kind='pickle', case=c)
    try:
        func, args = reducer(fs)
        wire = [py_wire(a) for a in args]
    except Exception as e:
        chk.k_bad('reduce', inp, repr(e), None, 'reduce raised / unexpected value in the tuple'); return
    out = d.ask('c14.reduce ' + spec_wire(c, toks))
    if out == 'ok ' + ' '.join(wire): chk.k_ok('reduce')
    else: chk.k_bad('reduce', inp, wire, out[:300], 'reduce tuple differs')
    # rebuild: the real unpickler on the real tuple, and on tuples with a wrong label count
    trials = [list(args)]
    if len(args) == 5:
        a2 = list(args); a2[3] = ['only one'] * (len(c['shape']) + 1); trials.append(a2)
        a3 = list(args); a3[3] = None; a3[4] = 0.5; trials.append(a3)
        a4 = list(args); a4[2] = not a4[2]; trials.append(a4)
    for a in trials:
        try:
            g = func(*a); impl = 'ok'
        except Exception as e:
            impl = 'exc'
        out = d.ask('c14.unpickle ' + ' '.join(py_wire(v) for v in a))
        msg = None
        if impl == 'exc':
            if out != 'err reject': msg = 'implementation raises, model: ' + out[:200]
        elif not out.startswith('ok '):
            msg = 'implementation accepts, model: ' + out
        else:
            m = parse_spec(out[3:].split(' '))
            if tuple(g.shape) != m['shape']: msg = 'shape'
            elif [hexf(x) for x in np.asarray(g.data).ravel().tolist()] != m['data']: msg = 'data'
            elif np.ma.getmaskarray(g).ravel().tolist() != m['mask']: msg = 'mask'
            elif bool(g.folded) != m['folded']: msg = 'folded'
            elif g.pop_ids != m['labels']: msg = 'labels'
            elif (None if g.extrap_x is None else hexf(g.extrap_x)) != m['extrap']: msg = 'extrap_x'
        if msg is None: chk.k_ok('unpickle')
        else: chk.k_bad('unpickle', inp, impl, out[:300], msg)

# ------------------------------------------------------------------ K: the translated constructor, methods, __array_finalize__
def tokval(t):
    """the float a number token denotes (hex floats from the wire, decimal tokens from the model)"""
    t = t.strip()
    if t.lower().lstrip('+-').startswith('0x'):
        return float.fromhex(t)
    return float(t)

def attr_wire(v):
    """an attribute value (folded / pop_ids / extrap_x / fill_value) -> pyval token"""
    if isinstance(v, str): return 'Y' + X(v)
    return py_wire(v)

def spec_pyval(c, toks):
    """an existing Spectrum as the `data` argument"""
    return 'P%s;%s;%s;%s;%s;%s' % (SH(c['shape']), XS(toks), BITS(c['mask']), '1' if c['folded'] else '0', OXS(c['labels']),
                                   'none' if c.get('extrap') is None else X(c['extrap']))

_NEWMETA = {}
def new_meta(d):
    if not _NEWMETA:
        out = d.ask('c14.newmeta').split(' ')
        _NEWMETA['params'] = out[1].split(',')
        _NEWMETA['defaults'] = dict(kv.split('=', 1) for kv in out[2].split(','))
        _NEWMETA['ma_params'] = out[3].split(',')
        _NEWMETA['ma_modelled'] = out[4].split(',')
    return _NEWMETA

def k_newmeta(chk, ctx, d):
    """signature of Spectrum.__new__ (names, order, defaults) and of numpy's MaskedArray.__new__ vs what the translator bound against"""
    dadi = ctx['dadi']
    meta = new_meta(d)
    sig = inspect.signature(dadi.Spectrum.__new__)
    names = list(sig.parameters)[1:]
    if names == meta['params']: chk.k_ok('new_signature')
    else: chk.k_bad('new_signature', 'Spectrum.__new__', names, meta['params'], 'parameter list differs')
    for nm in names:
        dv = sig.parameters[nm].default
        if dv is inspect.Parameter.empty:
            ok = nm not in meta['defaults']; real = '(required)'
        else:
            real = 'K' if dv is np.ma.nomask else ('Tfloat' if dv is float else attr_wire(dv))
            ok = meta['defaults'].get(nm) == real
        if ok: chk.k_ok('new_signature')
        else: chk.k_bad('new_signature', nm, real, meta['defaults'].get(nm), 'default of %s differs' % nm)
    ma = list(inspect.signature(np.ma.MaskedArray.__new__).parameters)[1:]
    if ma == meta['ma_params']: chk.k_ok('ma_signature')
    else: chk.k_bad('ma_signature', 'numpy.ma.MaskedArray.__new__', ma, meta['ma_params'], 'numpy parameter list differs from the one the translator binds against')

def gen_new_call(rng, c, as_spec):
    """keyword arguments for one constructor call on the data of case c (each omitted with some probability -> signature default)"""
    shape = tuple(c['shape']); n = int(np.prod(shape)) if len(shape) else 1
    kw = {}
    r = rng.random()
    m = np.array(c['mask'], dtype=bool).reshape(shape)
    if r < 0.25: pass                                                   # mask omitted (nomask)
    elif r < 0.35: kw['mask'] = None
    elif r < 0.60: kw['mask'] = m
    elif r < 0.68: kw['mask'] = m.ravel()                                # same size, other shape
    elif r < 0.76: kw['mask'] = np.array([bool(rng.random() < 0.5)])     # size 1: broadcast
    elif r < 0.84: kw['mask'] = np.zeros(n + 1 + int(rng.integers(3)), dtype=bool)   # wrong size
    elif r < 0.92: kw['mask'] = bool(rng.random() < 0.5)                 # True / False
    else: kw['mask'] = np.ma.nomask
    if rng.random() < 0.7: kw['mask_corners'] = bool(rng.random() < 0.5)
    r = rng.random()
    if r < 0.6: kw['data_folded'] = bool(rng.random() < 0.5)
    elif r < 0.75: kw['data_folded'] = None
    if rng.random() < 0.6: kw['check_folding'] = bool(rng.random() < 0.6)
    r = rng.random()
    nd = len(shape)
    if r < 0.35: kw['pop_ids'] = [LABEL_POOL[int(rng.integers(len(LABEL_POOL)))] for _ in range(nd)]
    elif r < 0.50: kw['pop_ids'] = [LABEL_POOL[int(rng.integers(len(LABEL_POOL)))] for _ in range(nd + 1 + int(rng.integers(2)))]
    elif r < 0.58: kw['pop_ids'] = []
    elif r < 0.70: kw['pop_ids'] = None
    elif r < 0.80 and as_spec and c['labels'] is not None: kw['pop_ids'] = list(c['labels'])
    if rng.random() < 0.5: kw['extrap_x'] = None if rng.random() < 0.3 else float(rng.uniform(1e-4, 0.1))
    r = rng.random()
    if r < 0.12: kw['fill_value'] = 0.0
    elif r < 0.2: kw['fill_value'] = None
    elif r < 0.26: kw['fill_value'] = float('nan')
    if rng.random() < 0.15: kw['copy'] = bool(rng.random() < 0.5)
    if rng.random() < 0.1: kw['keep_mask'] = False                       # ignored by dadi (it passes the literal True)
    if rng.random() < 0.1: kw['shrink'] = False
    if rng.random() < 0.08: kw['dtype'] = float
    return kw

def kw_wire(name, v):
    if name == 'mask':
        if v is None: return 'N'
        if v is np.ma.nomask: return 'K'
        if isinstance(v, bool): return 'B1' if v else 'B0'
        return 'M' + BITS(np.asarray(v).ravel().tolist())
    if name == 'dtype': return 'Tfloat'
    return attr_wire(v)

def k_new(chk, ctx, d, c, rng, ntrials):
    """the real `dadi.Spectrum(...)` vs the GENERATED constructor: accept / reject, every attribute, fill value, warnings logged"""
    dadi = ctx['dadi']
    meta = new_meta(d)
    shape = tuple(c['shape'])
    toks = [hexf(v) for v in case_vals(c)]
    a = np.array(case_vals(c), dtype=float).reshape(shape)
    for _ in range(ntrials):
        as_spec = bool(rng.random() < 0.4)
        kw = gen_new_call(rng, c, as_spec)
        data = mk_spec(dadi, c) if as_spec else a.copy()
        args = dict(meta['defaults'])
        args['data'] = spec_pyval(c, toks) if as_spec else 'A%s:%s' % (SH(shape), XS(toks))
        for k_, v in kw.items():
            args[k_] = kw_wire(k_, v)
        try:
            with LogCapture(dadi) as log:
                g = dadi.Spectrum(data, **kw)
            impl = 'ok'
        except Exception as e:
            impl = 'exc:' + type(e).__name__; g = None
        line = 'c14.new ' + ' '.join(args[nm] for nm in meta['params'])
        out = d.ask(line)
        inp = dict(kind='new', case=c, as_spec=as_spec, kwargs={k_: (v.tolist() if isinstance(v, np.ndarray) else (None if v is np.ma.nomask else ('float' if v is float else v))) for k_, v in kw.items()},
                   nomask=('mask' in kw and kw['mask'] is np.ma.nomask))
        chk.stat('k_new_' + ('spec' if as_spec else 'array') + ('_reject' if g is None else '_accept'))
        msg = None
        if g is None:
            if out != 'err reject': msg = 'implementation raises %s, model: %s' % (impl, out[:160])
        elif not out.startswith('ok '):
            msg = 'implementation accepts, model: ' + out
        else:
            t = out[3:].split(' ')
            mshape, mdata, mmask, mfill, mfold, mpop, mex, mwarn = unSH(t[0]), unXS(t[1]), unBITS(t[2]), t[3], t[4], t[5], t[6], unXS(t[7])
            if tuple(g.shape) != mshape: msg = 'shape'
            elif [hexf(x) for x in np.asarray(g.data).ravel().tolist()] != mdata: msg = 'data'
            elif np.ma.getmaskarray(g).ravel().tolist() != mmask: msg = 'mask'
            elif attr_wire(g.folded) != mfold: msg = 'folded %r vs %s' % (g.folded, mfold)
            elif attr_wire(g.pop_ids) != mpop: msg = 'pop_ids %r vs %s' % (g.pop_ids, mpop)
            elif attr_wire(g.extrap_x) != mex: msg = 'extrap_x %r vs %s' % (g.extrap_x, mex)
            elif not (mfill.startswith('X') and same_float(float(g.fill_value), tokval(unX(mfill[1:])))): msg = 'fill_value %r vs %s' % (g.fill_value, mfill)
            elif log.msgs != mwarn: msg = 'warnings %r vs %r' % (log.msgs, mwarn)
            if log.msgs: chk.stat('k_new_warned')
        if msg is None: chk.k_ok('new')
        else: chk.k_bad('new', inp, impl, out[:300], msg)

def k_methods(chk, ctx, d, c):
    """Spectrum.mask_corners() / unmask_all() on the real object vs the GENERATED methods"""
    dadi = ctx['dadi']
    plain = dict(c, layout=dict(via='ctor', data='C', mask='C', seed=0))       # a writable mask (some layout routes give a read-only one)
    for meth in ('mask_corners', 'unmask_all'):
        fs = mk_spec(dadi, plain)
        try:
            getattr(fs, meth)(); impl = 'ok'
        except Exception as e:
            impl = 'exc:' + type(e).__name__
        out = d.ask('c14.method %s %s' % (meth, BITS(c['mask'])))
        chk.stat('k_method_%s_%s' % (meth, 'ok' if impl == 'ok' else 'raises'))
        if impl != 'ok':
            ok = out == 'err reject'
        else:
            ok = out.startswith('ok ') and unBITS(out[3:]) == np.ma.getmaskarray(fs).ravel().tolist()
        if ok: chk.k_ok('methods')
        else: chk.k_bad('methods', dict(kind='method', method=meth, case=c), impl if impl != 'ok' else np.ma.getmaskarray(fs).ravel().tolist()[:50], out[:200], '%s()' % meth)

def k_finalize(chk, ctx, d, c):
    """attributes after numpy made a new array from an old one (view / copy.copy / slicing / ufunc) vs the GENERATED __array_finalize__"""
    dadi = ctx['dadi']
    fs = mk_spec(dadi, c)
    plain = np.ma.masked_array(np.array(case_vals(c), dtype=float).reshape(c['shape']), mask=np.array(c['mask'], dtype=bool).reshape(c['shape']))
    for name, obj, new in (('view_of_plain', plain, lambda o: o.view(dadi.Spectrum)), ('view_of_spectrum', fs, lambda o: o.view(dadi.Spectrum)),
                           ('copy_copy', fs, copy.copy), ('full_slice', fs, lambda o: o[...])):
        try:
            g = new(obj)
        except Exception as e:
            chk.k_bad('finalize', dict(kind='finalize', how=name, case=c), 'exc:' + type(e).__name__, None, 'raised'); continue
        has = isinstance(obj, dadi.Spectrum)
        line = 'c14.finalize %s %s %s %s %s %s' % (BITS(c['mask']), BITS(c['mask']), 'X' + X(hexf(float(obj.fill_value))),
                                                   attr_wire(obj.folded) if has else '-', attr_wire(obj.pop_ids) if has else '-',
                                                   attr_wire(obj.extrap_x) if has else '-')
        out = d.ask(line)
        msg = None
        if not out.startswith('ok '): msg = 'model: ' + out
        else:
            t = out[3:].split(' ')
            if np.ma.getmaskarray(g).ravel().tolist() != unBITS(t[2]): msg = 'mask'
            elif attr_wire(getattr(g, 'folded', '<absent>')) != t[4]: msg = 'folded %r vs %s' % (getattr(g, 'folded', None), t[4])
            elif attr_wire(getattr(g, 'pop_ids', '<absent>')) != t[5]: msg = 'pop_ids'
            elif attr_wire(getattr(g, 'extrap_x', '<absent>')) != t[6]: msg = 'extrap_x'
            elif not same_float(float(g.fill_value), tokval(unX(t[3][1:]))): msg = 'fill_value'
        if msg is None: chk.k_ok('finalize')
        else: chk.k_bad('finalize', dict(kind='finalize', how=name, case=c), repr((getattr(g, 'folded', None), getattr(g, 'pop_ids', None))), out[:200], msg)

def k_tokens(chk, d, c):
    """tokIsZero (the only interpretation of a number token the model makes) and the format-string primitives"""
    seen_t = set()
    for v in case_vals(c)[:12]:
        for t in (hexf(v), fmt_tok(c['precision'], v)):
            if t in seen_t: continue
            seen_t.add(t)
            out = d.ask('c14.iszero ' + X(t))
            if out == 'ok %d' % int(tokval(t) == 0): chk.k_ok('tok_is_zero')
            else: chk.k_bad('tok_is_zero', t, tokval(t) == 0, out, 'float(tok) == 0')
    p = c['precision']
    f0, f1 = model_fmt(d, p, 0), model_fmt(d, p, 1)
    for f in (f0, f1, '%%.%dg' % p, '%g', '%.g', '%.17f', '%.016g', 'x%.16g'):
        if f is None: continue
        m = re.fullmatch(r'%\.([0-9]+)g', f)
        out = d.ask('c14.precision ' + X(f))
        want = 'ok %d' % int(m.group(1)) if m else 'err reject'
        if out == want: chk.k_ok('precision_of_format')
        else: chk.k_bad('precision_of_format', f, want, out, 'precision of a %.<p>g conversion')

def k_zero_size(chk, ctx, d, tmp):
    """arrays without entries (an axis of length 0): `mask_corners()` raises IndexError in the constructor — the translated
    constructor and readers must say the same (the round-trip theorems exclude this case for mask_corners=True: hypothesis `hnz`)"""
    dadi = ctx['dadi']
    meta = new_meta(d)
    for shape in ((0,), (2, 0), (0, 3, 1)):
        for mc in (True, False):
            try:
                g = dadi.Spectrum(np.zeros(shape), mask_corners=mc); impl = 'ok'
            except Exception as e:
                impl = 'exc:' + type(e).__name__
            args = dict(meta['defaults']); args['data'] = 'A%s:-' % SH(shape); args['mask_corners'] = 'B1' if mc else 'B0'
            out = d.ask('c14.new ' + ' '.join(args[nm] for nm in meta['params']))
            chk.stat('k_zero_size_' + ('accept' if impl == 'ok' else 'reject'))
            if (impl == 'ok') == out.startswith('ok ') and (impl == 'ok' or out == 'err reject'): chk.k_ok('new_zero_size')
            else: chk.k_bad('new_zero_size', dict(kind='zero', shape=list(shape), mask_corners=mc), impl, out[:200], 'array without entries')
        text = ' '.join(str(x) for x in shape) + ' unfolded\n\n\n'
        k_fromfile(chk, ctx, d, tmp, text, 'from_file_zero_size', note='zero-size')

def l3_array_stream(chk, ctx, cs, tmp, seen):
    """several arrays written one after another through ONE open file object and read back one after another through one open
    file object (the documented file-object interface of the generic array writer/reader): each comes back as written, i.e. a read
    consumes exactly its own array"""
    dadi = ctx['dadi']
    chk.l3(('array-stream', len(cs))); chk.stat('l3_array_stream')
    inp = dict(kind='array_stream', cases=cs)
    path = tmp.path('.txt')
    arrs = [np.array(case_vals(c), dtype=float).reshape(c['shape']) for c in cs]
    try:
        with open(path, 'w') as f:
            for c, a in zip(cs, arrs):
                dadi.Numerics.array_to_file(a, f, precision=c['precision'], comment_lines=list(c['comments']))
        got = []
        with open(path, 'r') as f:
            for c in cs:
                got.append(dadi.Numerics.array_from_file(f, return_comments=True))
    except Exception as e:
        fail_once(chk, seen, 'array_stream:%s' % type(e).__name__, '%d arrays written through one file object, read back through one file object: raised %s: %s' % (len(cs), type(e).__name__, e), inp)
        return
    for k, (c, (b, coms)) in enumerate(zip(cs, got)):
        bad = None
        if tuple(b.shape) != tuple(c['shape']): bad = 'shape %r' % (tuple(b.shape),)
        elif check_values(c['precision'], case_vals(c), np.asarray(b, dtype=float).ravel().tolist()): bad = 'values: ' + check_values(c['precision'], case_vals(c), np.asarray(b, dtype=float).ravel().tolist())
        elif coms != [x.strip() for x in c['comments']]: bad = 'comments %r' % (coms,)
        if bad:
            fail_once(chk, seen, 'array_stream:' + bad.split(' ')[0].rstrip(':'), 'array number %d of %d read back through one file object: %s' % (k + 1, len(cs), bad), inp)
            return

# ------------------------------------------------------------------ one case, all parts
def run_case(chk, ctx, c, tmp, rng, seen, heavy=True):
    d = ctx['driver']
    have = d is not None and d.ok()
    t_plain = l3_file(chk, ctx, c, tmp, '', seen)
    t_gz = l3_file(chk, ctx, c, tmp, '.gz', seen)
    t_old = l3_old(chk, ctx, c, tmp, seen)
    l3_pickle(chk, ctx, c, seen)
    l3_handmade(chk, ctx, c, tmp, rng, seen)
    masked = bool(rng.random() < 0.5)
    t_arr = l3_array(chk, ctx, c, tmp, masked, bool(rng.random() < 0.3), seen)
    l3_cross(chk, ctx, c, tmp, seen)
    prev = ctx.setdefault('_c14_prev_cases', [])
    if c['shape'] and int(np.prod(c['shape'])) > 0:
        prev.append(c); del prev[:-3]
        if len(prev) >= 2:
            l3_array_stream(chk, ctx, list(prev), tmp, seen)
    if not have:
        return
    if t_plain is not None:
        k_tofile(chk, d, c, t_plain, True, 'to_file')
        k_fromfile(chk, ctx, d, tmp, t_plain, 'from_file_written')
        if heavy:
            muts = mutations(rng, t_plain, c)
            pick = muts if ctx['tier'] == 'thorough' else [muts[int(i)] for i in rng.choice(len(muts), size=min(8, len(muts)), replace=False)]
            for name, text in pick:
                chk.stat('mut_' + name)
                k_fromfile(chk, ctx, d, tmp, text, 'from_file_handmade', note=name)
    if t_gz is not None and not any(k.startswith('to_file:gz') for k in seen):
        k_tofile(chk, d, c, t_gz, True, 'to_file_gz')
    if t_old is not None:
        k_tofile(chk, d, c, t_old, False, 'to_file_old')
        k_fromfile(chk, ctx, d, tmp, t_old, 'from_file_old')
        k_arr_from(chk, ctx, d, tmp, t_old, 'array_from_file_cross', 'pre-1.3 spectrum file')
    if t_plain is not None:
        k_arr_from(chk, ctx, d, tmp, t_plain, 'array_from_file_cross', 'current-format spectrum file')
    if t_arr is not None:
        k_array(chk, ctx, d, tmp, c, t_arr, masked)
        k_fromfile(chk, ctx, d, tmp, t_arr, 'from_file_cross', note='array file')
    k_pickle(chk, ctx, d, c, rng)
    k_new(chk, ctx, d, c, rng, 6 if ctx['tier'] == 'quick' else 10)
    k_methods(chk, ctx, d, c)
    k_finalize(chk, ctx, d, c)
    k_tokens(chk, d, c)

EDGE_CASES = [
    dict(shape=[1], vals=[1.0], mask=[0], folded=False, labels=['only'], comments=[], precision=16, extrap=None),
    dict(shape=[1, 1, 1, 1, 1], vals=[float('nan')], mask=[1], folded=True, labels=None, comments=['c'], precision=17, extrap=None),
    dict(shape=[2], vals=[float('inf'), float('-inf')], mask=[0, 0], folded=False, labels=[' '], comments=['', ''], precision=16, extrap=0.01),
    dict(shape=[3, 1, 2], vals=[1e300, -1e-300, 0.0, -0.0, 5e-324, 0.1 + 0.2], mask=[1, 1, 1, 1, 1, 1], folded=True,
         labels=['pop 1', 'pop  2', 'folded'], comments=['unfolded', ' # ', 'x'], precision=16, extrap=None),
    dict(shape=[2, 3], vals=[0.1, 0.2, 0.30000000000000004, 1 / 3.0, 2 / 3.0, 1e22], mask=[0, 0, 0, 0, 0, 0], folded=False,
         labels=['a', 'b'], comments=[], precision=30, extrap=None),
    # memory layout: the same logical content held in transposed / swapped / Fortran / strided / broadcast storage
    dict(shape=[4, 2, 3], vals=[float(i) + 0.5 for i in range(24)], mask=[int(i % 5 == 0) for i in range(24)], folded=False,
         labels=['p', 'q', 'r'], comments=['transpose(2,0,1)-like view'], precision=17, extrap=None, layout=dict(via='transpose', seed=5)),
    dict(shape=[3, 5], vals=[float(i * i) for i in range(15)], mask=[0] * 15, folded=False, labels=None, comments=[], precision=16, extrap=None,
         layout=dict(via='swapaxes', seed=1)),
    dict(shape=[3, 5], vals=[float(i) / 7 for i in range(15)], mask=[int(i in (0, 7, 14)) for i in range(15)], folded=True, labels=['a', 'b'],
         comments=[], precision=17, extrap=0.02, layout=dict(via='ctor', data='F', mask='C', seed=2)),
    dict(shape=[2, 3, 2], vals=[float(i) for i in range(12)], mask=[int(i % 2) for i in range(12)], folded=False, labels=None, comments=['x'],
         precision=16, extrap=None, layout=dict(via='ctor_nocopy', data='perm', mask='F', seed=3)),
    dict(shape=[3, 4], vals=[float(i) for i in range(12)], mask=[1, 0, 0, 1] * 3, folded=False, labels=None, comments=[], precision=16, extrap=None,
         layout=dict(via='ctor_nocopy', data='negstride', mask='broadcast', seed=4)),
    dict(shape=[5, 3], vals=[float(i) for i in range(15)], mask=[0] * 15, folded=False, labels=['big', 'small'], comments=[], precision=16,
         extrap=None, layout=dict(via='slice', seed=6)),
    dict(shape=[7], vals=[float(i) for i in range(7)], mask=[1, 0, 0, 0, 0, 0, 1], folded=True, labels=['one'], comments=[], precision=16,
         extrap=None, layout=dict(via='ctor_nocopy', data='strided', mask='negstride', seed=7)),
]

def norm_case(c):
    c = dict(c)
    c['vals'] = [(v if isinstance(v, str) else hexf(v)) for v in c['vals']]
    if c.get('extrap') is not None and not isinstance(c['extrap'], str):
        c['extrap'] = float(c['extrap']).hex()
    return c

def run(chk, ctx):
    rng = common.Rng(ctx['seed'], 'C14')
    tier = ctx['tier']
    chk.rule = ('cases = (shape with 1-5 axes, singleton axes with probability 1/4 each; entries drawn from special values '
                '(0, -0, nan, +-inf, denormal min, DBL_MAX, 1e+-300, 17-digit values), log-uniform 1e-300..1e300 with sign, integers '
                'up to 1e16, uniform, random bit patterns; mask density 0/0.1/0.5/1 with corners forced masked / unmasked / left; folded or '
                'not; labels none or one per axis from a pool with spaces, tabs, empty, non-ASCII, the words folded/unfolded; 0-5 comment '
                'lines from a pool with padding, quotes, #, non-breaking spaces; precision 16..30; extrap_x none or a float; MEMORY LAYOUT: the same logical content is held as C / Fortran-ordered / axis-permuted view / '
                '[::2] view of a larger array / negative strides / read-only broadcast (zero-stride) storage, chosen independently for data and mask '
                '(constructor with and without copy), or the Spectrum itself is a transpose / swapaxes / sliced VIEW of another Spectrum; the harness '
                'verifies that every route leaves the logical entries unchanged and all comparisons are entry by entry in logical order).  Each case '
                'is run through to_file/from_file plain and .gz, the pre-1.3 format, pickle protocols 0..5, array_to_file/array_from_file, '
                'and (K) the written texts, 8 (quick) or all ~30 (thorough) hand-made variants of the file, the reduce tuple and the '
                'unpickler are compared with the Lean model.  A case counts as distinct/non-trivial by the key (operation, number of axes, '
                'has a singleton axis, folded, label kind, number of comments, precision, set of value classes present, mask trivial or not, '
                'layout route and data/mask layouts, axis lengths all equal or not).')
    chk.unproved = [
        "'%.{p}g' % x / strtod: C14_values_to_precision / C14_array_values_to_precision assume the contract FmtContract (parse(format p x) = round_p x, "
        "round_p idempotent, round_p = id for p >= 17, formatted entries are whitespace-free tokens).  For the CONCRETE exact rational model of the chain "
        "(roundSig, roundBin, rndModel; run by the driver, K op round_model against the real '%.*g' / float() and against Decimal) `round_p = id for "
        "p >= 17` on every finite double, idempotence of each rounding, identity on values with <= p digits are PROVED (C14_round_exact17, "
        "C14_round_idempotent, C14_round_fixed) and C14_values_from_printf needs only PrintfCorrect: formatted entries are tokens and printf/strtod "
        "round correctly.  NOT proved: PrintfCorrect itself (the C library), and idempotence of the composed rounding at p = 16 (needed only for the "
        "'a second round trip changes nothing' clause); both validated numerically (contract_check, round_model: p in 16..30; +-0, denormals, "
        "1e-300..1e300, random bit patterns up to 1e308); nan / +-inf are tokens outside the rational model (L3 / K only)",
        "gzip compression and the UTF-8 codec are exercised (L3, K on the decompressed text) but not modelled; what is proved is that writer and reader "
        "choose the same transport and text mode for every file name (C14_open_dispatch)",
        "numpy's own MaskedArray.__new__ / asanyarray / make_mask_none / ndarray.view / flat and slice-list indexing are hand-written model primitives "
        "(maNew, setFlat, setAll, ...) tied by K (ops new, methods, finalize); Spectrum.__new__, mask_corners, unmask_all, __array_finalize__ themselves are "
        "translated statement by statement and proved equal to the normal form `construct` (C14_construct_translated)",
        "copy.copy / copy.deepcopy do not go through the reduce pair (ndarray.__copy__ / MaskedArray.__deepcopy__): L3 only, plus the translated "
        "__array_finalize__ (C14_new_finalize_block, K op finalize)",
        "numpy.fromfile leaves the file position unspecified in the model: the translator refuses a reader that reads from fid after numpy.fromfile",
        "the pickle byte stream itself (pickle module, numpy array pickling) is outside the model: explicit hypothesis PickleTransport of "
        "C14_pickle_any_protocol (the argument tuple comes back unchanged, protocols 0-5), exercised by L3 over protocols 0-5, file objects, "
        "ForkingPickler, a multiprocessing Pipe and a real pool worker; the reduce tuple and the rebuild call are translated and proved",
        "numpy.fromstring with fewer entries than the header announces returns uninitialised tail entries (no error); the model rejects such files; not exercised",
    ]
    chk.assumptions += ["POSIX line ends (os.linesep == '\\n') and a UTF-8 locale for text files",
                        "numbers are opaque tokens in the Lean model ('%.{p}g'/strtod round trip checked numerically, see unproved_clauses)"]
    d = ctx['driver']
    tmp = Tmp()
    seen = set()
    try:
        if d is not None and d.ok():
            k_primitives(chk, d, rng, tier)
            k_meta(chk, ctx, d)
            k_newmeta(chk, ctx, d)
            k_rnd(chk, d, rng, 150 if tier == 'quick' else 1500)
            modes = d.ask('c14.modes')
            chk.notes.append('open modes read from the source (to_file gz/plain, from_file gz/plain, array_to_file, array_from_file): ' + modes)
        param_check(chk, rng, 60 if tier == 'quick' else 400)
        contract_check(chk, rng, 250 if tier == 'quick' else 4000)
        open_dispatch(chk, ctx, d if (d is not None and d.ok()) else None, tmp, seen)
        if d is not None and d.ok():
            k_zero_size(chk, ctx, d, tmp)
        n = 70 if tier == 'quick' else 700
        cases = [norm_case(c) for c in EDGE_CASES] + [gen_case(rng, tier) for _ in range(n)]
        for i, c in enumerate(cases):
            chk.stat('ndim_%d' % len(c['shape']))
            chk.stat('singleton_axis' if 1 in c['shape'] else 'no_singleton_axis')
            chk.stat('folded' if c['folded'] else 'unfolded')
            chk.stat('labels_' + ('none' if c['labels'] is None else 'present'))
            chk.stat('comments_%d' % len(c['comments']))
            chk.stat('precision_%d' % c['precision'])
            for cl in value_classes(case_vals(c)): chk.stat('values_' + cl)
            layout_stats(chk, mk_spec(ctx['dadi'], c), c)
            if i < 4 or i == len(EDGE_CASES):
                chk.sample(dict(layout=c.get('layout'), shape=c['shape'], folded=c['folded'], labels=c['labels'], comments=c['comments'], precision=c['precision'],
                                values=[fmt_tok(17, v) for v in case_vals(c)[:8]], mask=c['mask'][:8]))
            run_case(chk, ctx, c, tmp, rng, seen)
        l3_multiprocessing(chk, ctx, [c for c in cases if int(np.prod(c['shape'])) <= 400][:(25 if tier == 'quick' else 120)], seen)
    finally:
        tmp.close()

def replay(chk, ctx, data):
    inp = data.get('input') or {}
    rng = common.Rng(ctx['seed'], 'C14')
    tmp = Tmp()
    seen = set()
    try:
        if inp.get('kind') in ('file', 'old', 'pickle', 'array', 'handmade') and 'case' in inp:
            run_case(chk, ctx, norm_case(inp['case']), tmp, rng, seen)
        elif inp.get('kind') == 'text' and ctx['driver'] is not None:
            k_fromfile(chk, ctx, ctx['driver'], tmp, inp['text'], 'from_file_handmade', note=inp.get('note'))
        elif inp.get('kind') == 'arrtext' and ctx['driver'] is not None:
            k_arr_from(chk, ctx, ctx['driver'], tmp, inp['text'], 'array_from_file', inp.get('note'))
        elif inp.get('kind') in ('new', 'method', 'finalize') and 'case' in inp:
            run_case(chk, ctx, norm_case(inp['case']), tmp, rng, seen)
        elif inp.get('kind') == 'array_stream' and 'cases' in inp:
            l3_array_stream(chk, ctx, [norm_case(c) for c in inp['cases']], tmp, seen)
        elif inp.get('kind') == 'cross' and 'case' in inp:
            run_case(chk, ctx, norm_case(inp['case']), tmp, rng, seen)
        elif inp.get('kind') == 'fmt':
            param_check(chk, rng, 60)
        elif inp.get('kind') == 'contract':
            contract_check(chk, rng, 250)
        elif inp.get('kind') == 'rnd' and ctx['driver'] is not None:
            k_rnd(chk, ctx['driver'], rng, 150)
        elif inp.get('kind') == 'open':
            d = ctx['driver']
            open_dispatch(chk, ctx, d if (d is not None and d.ok()) else None, tmp, seen)
        else:
            run(chk, ctx)
    finally:
        tmp.close()
