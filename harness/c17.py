"""C17 — DFE integration is the documented quadrature of a schedule-independent cache.

T : tools/gen_DFE.py regenerates the assembly lines of Cache1D.integrate*, Cache2D.integrate*, the mixtures,
    Vourlaki_mixture, the job-split test and the merge cell rule (Generated/DFE.lean); Props/C17.lean is about them.
K : the real methods (dadi rebuilt from the working tree, compiled PDFs included) vs the exact-rational Lean model
    (Model/DFE.lean through Driver/DFE.lean).  pdf values, quad/dblquad results (spied from the implementation's own
    calls and classified by their bounds) and square roots are passed to the model as numbers.
L3: the property statement evaluated directly on the real code with numpy/scipy, independent of the model:
    nine-region quadrature written out with explicit loops, linearity in theta, selection-neutral spectra and the
    total weight (region masses from normal / gamma cdfs), point-mass and mixture weights from the docstrings,
    single vs multi-process vs split+merge caches, worker faults, every subset of missing / duplicated jobs,
    compiled bivariate pdfs vs their formulas (contiguous and strided arguments)."""
import os, sys, math, itertools, contextlib, copy
from fractions import Fraction
import numpy as np
from . import common
from .common import rat, fmt_list, close

PROP = 'C17'
GENERATED = ['DFE']
NEEDS_BUILD = True
NEEDS_DRIVER = True
DRIVER_MODULES = ['DFE']

RTOL = 1e-9

# ------------------------------------------------------------------ cheap closed-form "demographic models with selection"
FAULT = {'at': None, 'kind': None}      # (g1, g2) on which the demo function raises

def _f(g):
    return g / (1.0 + abs(g))

def _spec2(p0, ns, g1, g2):
    n1, n2 = ns
    k = np.arange(n1 + 1, dtype=float)[:, None]; l = np.arange(n2 + 1, dtype=float)[None, :]
    return p0 * (2.0 + _f(g1) * (k + 1) / (n1 + 1) + 0.5 * _f(g2) * (l + 1) / (n2 + 1) + 0.25 * _f(g1) * _f(g2)) / (1.0 + k + 2 * l)

def _maybe_fault(g1, g2):
    at = FAULT['at']
    if at is not None and g1 == at[0] and g2 == at[1]:
        if FAULT['kind'] == 'raise':
            raise ValueError('injected failure at gamma=(%r, %r)' % (g1, g2))

def demo2(params, ns, pts):
    import dadi
    g1, g2 = params[-2], params[-1]
    _maybe_fault(g1, g2)
    return dadi.Spectrum(_spec2(params[0], ns, g1, g2))

def demo1(params, ns, pts):
    """two-population spectrum with the same gamma in both populations (what a Cache1D used in a mixture holds)"""
    import dadi
    g = params[-1]
    _maybe_fault(g, g)
    return dadi.Spectrum(_spec2(params[0], ns, g, g))

def demo1_1pop(params, ns, pts):
    import dadi
    g = params[-1]
    _maybe_fault(g, g)
    k = np.arange(ns[0] + 1, dtype=float)
    return dadi.Spectrum(params[0] * (2.0 + _f(g) * (k + 1) / (ns[0] + 1)) / (1.0 + k))

def neutral2(params, ns, pts):
    import dadi
    return dadi.Spectrum(_spec2(params[0], ns, 0.0, 0.0))

def neutral1(params, ns, pts):
    import dadi
    return dadi.Spectrum(_spec2(params[0], ns, 0.0, 0.0))

for _fn in (demo2, demo1, demo1_1pop, neutral2, neutral1):
    _fn.__name__ = _fn.__name__

# ------------------------------------------------------------------ quiet stderr (workers print tracebacks)
@contextlib.contextmanager
def quiet():
    sys.stdout.flush(); sys.stderr.flush()
    old = os.dup(2); dn = os.open(os.devnull, os.O_WRONLY)
    os.dup2(dn, 2)
    try:
        yield
    finally:
        sys.stderr.flush()
        os.dup2(old, 2); os.close(dn); os.close(old)

# ------------------------------------------------------------------ wire helpers
def rows(a2):
    """2-D array-like -> 'r;r;r'"""
    a2 = list(a2)
    return ';'.join(fmt_list(np.asarray(r, dtype=float).ravel().tolist()) for r in a2) if a2 else '-'

def entries_1d(spectra):
    """spectra: (G, *shape) -> E rows of G values"""
    a = np.asarray(spectra, dtype=float)
    G = a.shape[0]
    return a.reshape(G, -1).T

def entries_2d(spectra):
    """spectra: (G, G, *shape) -> E rows of G*G values (row-major i,j)"""
    a = np.asarray(spectra, dtype=float)
    G = a.shape[0]
    return a.reshape(G * G, -1).T

def parse_vals(tok):
    return np.array([float(v) for v in common.parse_list(tok)])

def data_of(x):
    return np.asarray(np.ma.getdata(x), dtype=float)

def finite(*arrs):
    return all(np.all(np.isfinite(np.asarray(a, dtype=float))) for a in arrs)

# ------------------------------------------------------------------ spying on scipy.integrate
class QuadSpy:
    """records every quad / dblquad call made while active (delegating to the real functions)"""
    def __init__(self):
        self.calls = []
    def __enter__(self):
        import scipy.integrate as si
        self.si = si; self.q = si.quad; self.d = si.dblquad
        def quad(func, a, b, *pa, **kw):
            r = self.q(func, a, b, *pa, **kw)
            self.calls.append(dict(kind='quad', func=func, a=a, b=b, args=kw.get('args', pa[0] if pa else ()), res=r[0]))
            return r
        def dblquad(func, a, b, gfun, hfun, *pa, **kw):
            r = self.d(func, a, b, gfun, hfun, *pa, **kw)
            g = gfun(0.0) if callable(gfun) else gfun; h = hfun(0.0) if callable(hfun) else hfun
            self.calls.append(dict(kind='dblquad', func=func, a=a, b=b, g=g, h=h, res=r[0]))
            return r
        si.quad = quad; si.dblquad = dblquad
        return self
    def __exit__(self, *a):
        self.si.quad = self.q; self.si.dblquad = self.d
        return False

def region_of(a, b, neg_gammas):
    if a == 0 and b == -neg_gammas[-1]:
        return 'N'
    if a == -neg_gammas[0] and b == np.inf:
        return 'D'
    return None

def classify_1d(calls, neg_gammas):
    """-> dict region -> mass, or an error string"""
    out = {}
    for c in calls:
        if c['kind'] != 'quad':
            return 'dblquad in a 1-D integral'
        r = region_of(c['a'], c['b'], neg_gammas)
        if r is None:
            return 'tail bounds (%r, %r) are not a documented region' % (c['a'], c['b'])
        out[r] = c['res']
    return out

def classify_2d(calls, neg_gammas, sel_dist, params):
    """-> (wv dict (r1,r2)->vector, C dict (r1,r2)->mass) or an error string"""
    n = len(neg_gammas)
    gam = -np.asarray(neg_gammas)
    wv = {k: np.zeros(n) for k in (('D', 'I'), ('N', 'I'), ('I', 'D'), ('I', 'N'))}
    C = {}
    cur = None
    t = 0.7311
    for c in calls:
        if c['kind'] == 'quad':
            r = region_of(c['a'], c['b'], neg_gammas)
            if r is None:
                return 'edge bounds (%r, %r) are not a documented region' % (c['a'], c['b'])
            args = c['args']
            if isinstance(args, tuple) and len(args) == 2:
                ks = np.nonzero(gam == args[0])[0]
                if len(ks) != 1:
                    return 'edge integral at a gamma that is not on the grid'
                cur = int(ks[0])
                wv[(r, 'I')][cur] = c['res']
            else:
                if cur is None:
                    return 'marginal integral before any grid point'
                v = float(c['func'](t))
                a2 = float(np.squeeze(sel_dist(gam[cur], t, params))); a1 = float(np.squeeze(sel_dist(t, gam[cur], params)))
                if v == a2:
                    wv[('I', r)][cur] = c['res']
                elif v == a1:
                    wv[(r, 'I')][cur] = c['res']
                else:
                    return 'marginal integrand is neither pdf(gamma_k, .) nor pdf(., gamma_k)'
        else:
            r2 = region_of(c['a'], c['b'], neg_gammas); r1 = region_of(c['g'], c['h'], neg_gammas)
            if r1 is None or r2 is None:
                return 'corner bounds are not a documented region'
            C[(r1, r2)] = c['res']
    return wv, C

def wv_tok(wv):
    return rows([wv[('D', 'I')], wv[('N', 'I')], wv[('I', 'D')], wv[('I', 'N')]])

def c_tok(C):
    return fmt_list([C.get(('N', 'N'), 0.0), C.get(('D', 'N'), 0.0), C.get(('N', 'D'), 0.0), C.get(('D', 'D'), 0.0)])

# ------------------------------------------------------------------ in-process stand-in for multiprocessing (arbitrary schedules)
class FakeMP:
    """Replaces multiprocessing.Manager / Process while active.  All queued jobs are handed out in a permuted order, cut
    into one chunk per worker; workers (the real `_worker_sfs`) run one after another, so the results list ends up in
    that permuted order — any completion order of a real pool is one of these."""
    def __init__(self, rng):
        self.rng = rng; self.results = None; self.order = None
    def __enter__(self):
        import multiprocessing as mp
        self.mp = mp; self.M = mp.Manager; self.P = mp.Process
        outer = self
        class Q:
            def __init__(self):
                self.items = []; self.prepared = None
            def put(self, x):
                self.items.append(x)
            def prepare(self):
                jobs = [x for x in self.items if x is not None]
                nstop = sum(1 for x in self.items if x is None)
                perm = outer.rng.permutation(len(jobs))
                jobs = [jobs[i] for i in perm]
                cuts = sorted(outer.rng.integers(0, len(jobs) + 1, size=max(nstop - 1, 0)).tolist())
                seq = []; prev = 0
                for c in cuts:
                    seq += jobs[prev:c] + [None]; prev = c
                seq += jobs[prev:] + [None]
                self.prepared = seq; outer.order = jobs
            def get(self):
                if self.prepared is None:
                    self.prepare()
                return self.prepared.pop(0)
        class Mgr:
            def __enter__(s): return s
            def __exit__(s, *a): return False
            def Queue(s, n=0):
                outer.queue = Q(); return outer.queue
            def list(s):
                outer.results = []; return outer.results
        class Proc:
            def __init__(s, target=None, args=()):
                s.target = target; s.args = args; s.done = False
            def start(s): pass
            def join(s):
                if not s.done:
                    s.done = True; s.target(*s.args)
        mp.Manager = Mgr; mp.Process = Proc
        return self
    def __exit__(self, *a):
        self.mp.Manager = self.M; self.mp.Process = self.P
        return False

# ------------------------------------------------------------------ caches and pdfs
def mk_cache1(dadi, rng, n=None, extra=None, ns=None, func=demo1, bounds=None, cpus=1):
    n = int(rng.integers(2, 6)) if n is None else n
    ns = [int(rng.integers(1, 3)), int(rng.integers(1, 4))] if ns is None else ns
    bounds = (10 ** rng.uniform(-3, -1), 10 ** rng.uniform(0.5, 2.5)) if bounds is None else bounds
    extra = [round(float(rng.uniform(0.5, 6)), 3) for _ in range(int(rng.integers(0, 3)))] if extra is None else extra
    p0 = round(float(rng.uniform(0.5, 2.0)), 3)
    if func is demo1_1pop:
        ns = [ns[0]]
    return dadi.DFE.Cache1D([p0], ns, func, [8], gamma_bounds=bounds, gamma_pts=n, additional_gammas=list(extra), cpus=cpus)

def mk_cache2(dadi, rng, n=None, extra=None, ns=None, func=demo2, bounds=None, cpus=1, **kw):
    n = int(rng.integers(2, 5)) if n is None else n
    ns = [int(rng.integers(1, 3)), int(rng.integers(1, 3))] if ns is None else ns
    bounds = (10 ** rng.uniform(-3, -1), 10 ** rng.uniform(0.5, 2.5)) if bounds is None else bounds
    extra = [round(float(rng.uniform(0.5, 6)), 3) for _ in range(int(rng.integers(0, 3)))] if extra is None else extra
    p0 = round(float(rng.uniform(0.5, 2.0)), 3)
    return dadi.DFE.Cache2D([p0], ns, func, [8], gamma_bounds=bounds, gamma_pts=n, additional_gammas=list(extra), cpus=cpus, **kw)

def pdf1_cases(dadi, rng):
    """(name, function, params) — documented parameterisations of PDFs.py"""
    P = dadi.DFE.PDFs
    return [
        ('exponential', P.exponential, [float(10 ** rng.uniform(-1, 2))]),
        ('gamma', P.gamma, [float(rng.uniform(0.15, 2.5)), float(10 ** rng.uniform(-1, 2.5))]),
        ('lognormal', P.lognormal, [float(rng.uniform(-2, 5)), float(rng.uniform(0.3, 2.5))]),
        ('beta', P.beta, [float(rng.uniform(1.0, 3)), float(rng.uniform(1.0, 3))]),
    ]

def pdf2_cases(dadi, rng):
    P = dadi.DFE.PDFs
    rho = float(rng.choice([0.0, rng.uniform(-0.95, 0.95), 0.9, -0.7]))
    mu, sg = float(rng.uniform(-2, 5)), float(rng.uniform(0.4, 2.5))
    out = [
        ('biv_lognormal3', P.biv_lognormal, [mu, sg, rho]),
        ('biv_lognormal5', P.biv_lognormal, [mu, float(rng.uniform(-2, 5)), sg, float(rng.uniform(0.4, 2.5)), rho]),
        ('biv_ind_gamma2', P.biv_ind_gamma, [float(rng.uniform(0.2, 2.5)), float(10 ** rng.uniform(-1, 2.5))]),
        ('biv_ind_gamma4', P.biv_ind_gamma, [float(rng.uniform(0.2, 2.5)), float(rng.uniform(0.2, 2.5)),
                                            float(10 ** rng.uniform(-1, 2.5)), float(10 ** rng.uniform(-1, 2.5))]),
    ]
    return out

def small(x, nd=6):
    a = np.asarray(x, dtype=float).ravel()
    return [float(v) for v in a[:nd]]

def cache_desc(c):
    return dict(neg_gammas=[float(g) for g in c.neg_gammas], gammas=[float(g) for g in c.gammas], ns=list(c.ns), params=list(c.params))

# ------------------------------------------------------------------ K: Cache1D.integrate / integrate_point_pos
def k_int1d(chk, drv, c, name, sel, params, theta, ext):
    ng = np.asarray(c.neg_gammas, dtype=float); n = len(ng)
    inp = dict(op='Cache1D.integrate', pdf=name, params=params, theta=theta, exterior_int=ext, cache=cache_desc(c))
    with QuadSpy() as spy:
        try:
            impl = data_of(c.integrate(params, None, sel, theta, None, exterior_int=ext))
        except Exception as e:
            chk.k_bad('int1d', inp, 'raised %s: %s' % (type(e).__name__, e), 'a spectrum', float('inf')); return
    cl = classify_1d(spy.calls, ng)
    if isinstance(cl, str):
        chk.k_bad('int1d', inp, cl, 'tails over (0,-neg_gammas[-1]) and (-neg_gammas[0],inf)', float('inf')); return
    w = np.asarray(sel(-ng, params), dtype=float)
    S = np.asarray(c.spectra, dtype=float)[:n]
    if not finite(w, impl, list(cl.values())):
        chk.k_skipped += 1; return
    line = 'c17.int1d %d %s %s %s %s %s %s %s' % (int(ext), rat(theta), fmt_list(ng), fmt_list(w), rat(cl.get('N', 0.0)), rat(cl.get('D', 0.0)),
                                                 fmt_list(np.asarray(c.neu_spec, dtype=float).ravel()), rows(entries_1d(S)))
    out = drv.ask(line)
    if not out.startswith('ok '):
        chk.k_bad('int1d', inp, small(impl), out, float('inf')); return
    mod = parse_vals(out[3:])
    ok, err, scale = close(impl.ravel(), mod, rtol=RTOL)
    if ok: chk.k_ok('int1d')
    else: chk.k_bad('int1d', inp, small(impl), small(mod), err)

def k_pp1(chk, drv, dadi, c, name, sel, pdf_params, pp, theta, ext, demo, tag='pp1'):
    """pp = [(ppos, gammapos), ...]; the cache object is mutated by the call when a gamma is computed on the fly"""
    ng = np.asarray(c.neg_gammas, dtype=float); n = len(ng)
    params = list(pdf_params) + [v for pr in pp for v in pr]
    npos = len(pp)
    gs0 = np.asarray(c.gammas, dtype=float).copy(); sp0 = np.asarray(c.spectra, dtype=float).copy()
    inp = dict(op='Cache1D.integrate_point_pos', pdf=name, params=params, Npos=npos, theta=theta, exterior_int=ext,
               demo_sel_func=(demo.__name__ if demo else None), cache=cache_desc(c))
    comp = []
    if demo is not None:
        for _, g in pp:
            if g not in gs0 and g not in [x[0] for x in comp]:
                comp.append((g, data_of(demo(tuple(c.params) + (g,), c.ns, c.pts)).ravel()))
    impl = None; raised = None
    with QuadSpy() as spy:
        try:
            impl = data_of(c.integrate_point_pos(params, None, sel, theta, demo_sel_func=demo, Npos=npos, exterior_int=ext))
        except Exception as e:
            raised = type(e).__name__
    cl = classify_1d(spy.calls, ng)
    if isinstance(cl, str):
        chk.k_bad(tag, inp, cl, 'documented tails', float('inf')); return
    w = np.asarray(sel(-ng, list(pdf_params)), dtype=float)
    if not finite(w, list(cl.values())) or (impl is not None and not finite(impl)):
        chk.k_skipped += 1; return
    ctok = ';'.join('%s=%s' % (rat(g), fmt_list(v)) for g, v in comp) if comp else '-'
    line = 'c17.pp1 %d %s %d %s %s %s %s %s %s %s %s %s' % (
        int(ext), rat(theta), npos, fmt_list(params), fmt_list(ng), fmt_list(w), rat(cl.get('N', 0.0)), rat(cl.get('D', 0.0)),
        fmt_list(np.asarray(c.neu_spec, dtype=float).ravel()), fmt_list(gs0), ctok, rows(entries_1d(sp0)))
    out = drv.ask(line)
    if raised is not None or not out.startswith('ok '):
        if raised is not None and out == 'err ' + raised:
            chk.k_ok(tag + ':raises')
        else:
            chk.k_bad(tag, inp, 'raised ' + raised if raised else small(impl), out[:200], float('inf'))
        return
    parts = out[3:].split(' | ')
    mod = parse_vals(parts[0]); gs1 = parse_vals(parts[1])
    sp1 = np.array([[float(v) for v in common.parse_list(r)] for r in parts[2].split(';')])
    pdf_m, ppos_m, gpos_m = [parse_vals(t) for t in parts[3].split(' ')]
    ok, err, scale = close(impl.ravel(), mod, rtol=RTOL)
    gs_i = np.asarray(c.gammas, dtype=float); sp_i = entries_1d(np.asarray(c.spectra, dtype=float))
    ok2 = gs_i.shape == gs1.shape and np.array_equal(gs_i, gs1)
    ok3 = ok2 and close(sp_i, sp1, rtol=RTOL)[0]
    ok4 = np.array_equal(ppos_m, [p for p, _ in pp]) and np.array_equal(gpos_m, [g for _, g in pp]) and np.array_equal(pdf_m, list(pdf_params))
    if ok and ok3 and ok4: chk.k_ok(tag)
    else:
        what = 'result' if not ok else ('cache after the call' if not ok3 else 'parameter slicing')
        chk.k_bad(tag, dict(inp, differs=what), small(impl) if not ok else small(sp_i[:, -1]), small(mod) if not ok else small(sp1[:, -1]), err)

# ------------------------------------------------------------------ K: Cache2D.integrate / integrate_point_pos
def impl_int2d(c, sel, params, theta, ext):
    """run the real method under the spy; -> (data | None, raised | None, classification)"""
    ng = np.asarray(c.neg_gammas, dtype=float)
    with QuadSpy() as spy:
        try:
            impl = data_of(c.integrate(params, None, sel, theta, None, exterior_int=ext)); raised = None
        except Exception as e:
            impl = None; raised = '%s: %s' % (type(e).__name__, e)
    return impl, raised, classify_2d(spy.calls, ng, sel, np.array(params))

def int2d_tokens(c, sel, params, cl):
    ng = np.asarray(c.neg_gammas, dtype=float)
    w = np.asarray(sel(-ng, -ng, np.array(params)), dtype=float).reshape(len(ng), len(ng))
    tx = np.logspace(-2, 2, 3)
    to = np.asarray(sel(tx, tx, np.array(params)), dtype=float).reshape(3, 3)
    wv, C = cl
    if not finite(w, to, *wv.values()) or not finite(list(C.values()) or [0.0]):
        return None
    return '%s %s %s %s %s' % (fmt_list(ng), rows(w), rows(to), wv_tok(wv), c_tok(C))

def k_int2d(chk, drv, c, name, sel, params, theta, ext):
    n = len(c.neg_gammas)
    inp = dict(op='Cache2D.integrate', pdf=name, params=params, theta=theta, exterior_int=ext, cache=cache_desc(c))
    impl, raised, cl = impl_int2d(c, sel, params, theta, ext)
    if raised is not None:
        chk.k_bad('int2d', inp, 'raised ' + raised, 'a spectrum', float('inf')); return
    if isinstance(cl, str):
        chk.k_bad('int2d', inp, cl, 'documented exterior regions', float('inf')); return
    tk = int2d_tokens(c, sel, params, cl)
    if tk is None or not finite(impl):
        chk.k_skipped += 1; return
    S = np.asarray(c.spectra, dtype=float)[:n, :n]
    out = drv.ask('c17.int2d %d %s %s %s' % (int(ext), rat(theta), tk, rows(entries_2d(S))))
    if not out.startswith('ok '):
        chk.k_bad('int2d', inp, small(impl), out[:200], float('inf')); return
    sym, vals = out[3:].split(' ')
    mod = parse_vals(vals)
    ok, err, scale = close(impl.ravel(), mod, rtol=RTOL)
    if ok: chk.k_ok('int2d:sym' if sym == '1' else 'int2d:asym')
    else: chk.k_bad('int2d', dict(inp, symmetric_dfe=sym), small(impl), small(mod), err)

def k_pp2(chk, drv, c, name, sel, biv_params, pt, theta, rho, symmetric_call):
    """pt = (ppos1, g1, ppos2, g2); symmetric_call: go through integrate_symmetric_point_pos (then biv_params ends with rho)"""
    ng = np.asarray(c.neg_gammas, dtype=float); n = len(ng)
    if symmetric_call:
        params = list(biv_params) + [pt[0], pt[1]]
        kind = 'spp'; tag = 'spp2'
    else:
        params = list(biv_params) + list(pt)
        kind = 'pp'; tag = 'pp2'
    inp = dict(op='Cache2D.integrate_symmetric_point_pos' if symmetric_call else 'Cache2D.integrate_point_pos', pdf=name, params=params,
               theta=theta, rho=rho, cache=cache_desc(c))
    impl = None; raised = None
    with QuadSpy() as spy:
        try:
            if symmetric_call:
                impl = data_of(c.integrate_symmetric_point_pos(params, None, sel, theta))
            elif rho is None:
                impl = data_of(c.integrate_point_pos(params, None, sel, theta))
            else:
                impl = data_of(c.integrate_point_pos(params, None, sel, theta, rho=rho))
        except Exception as e:
            raised = type(e).__name__
    wire = drv.ask('c17.pp2wire %s %s %s' % (kind, fmt_list(params), 'x' if symmetric_call else ('dflt' if rho is None else 'given:' + rat(rho))))
    if not wire.startswith('ok '):
        if raised is not None and wire.startswith('err ' + raised): chk.k_ok(tag + ':raises')
        else: chk.k_bad(tag, inp, 'raised %s' % raised if raised else small(impl), wire, float('inf'))
        return
    bt, p1, g1, p2, g2, rh = wire[3:].split(' ')
    biv = [float(v) for v in common.parse_list(bt)]
    cl = classify_2d(spy.calls, ng, sel, np.array(biv))
    if isinstance(cl, str):
        if raised == 'IndexError':        # the lookup of the point mass failed before/after the quadrature: compare the error only
            cl = ({k: np.zeros(n) for k in (('D', 'I'), ('N', 'I'), ('I', 'D'), ('I', 'N'))}, {})
        else:
            chk.k_bad(tag, inp, cl, 'documented exterior regions', float('inf')); return
    tk = int2d_tokens(c, sel, biv, cl)
    if tk is None or (impl is not None and not finite(impl)):
        chk.k_skipped += 1; return
    arg = drv.ask('c17.pp2prep %s %s' % (p1, p2))
    a = Fraction(arg[3:])
    tab = '%s:%s' % (arg[3:], rat(math.sqrt(float(a)))) if a >= 0 else '-'
    out = drv.ask('c17.pp2 %s %s %s %s %s %s %s %s %s %s' % (rat(theta), rh, p1, g1, p2, g2, tab, fmt_list(np.asarray(c.gammas, dtype=float)), tk,
                                                      rows(entries_2d(np.asarray(c.spectra, dtype=float)))))
    if raised is not None or not out.startswith('ok '):
        if raised is not None and out == 'err ' + raised: chk.k_ok(tag + ':raises')
        else: chk.k_bad(tag, inp, 'raised %s' % raised if raised else small(impl), out[:200], float('inf'))
        return
    mod = parse_vals(out[3:])
    ok, err, scale = close(impl.ravel(), mod, rtol=RTOL)
    if ok: chk.k_ok(tag)
    else: chk.k_bad(tag, inp, small(impl), small(mod), err)

# ------------------------------------------------------------------ K: mixtures (glue only: components replaced by recording stubs)
def mk_stubs(dadi, F1, F2):
    rec = {}
    class S1(dadi.DFE.Cache1D):
        def __init__(self): pass
        def integrate(self, params, ns, sel_dist, theta, pts=None, exterior_int=True):
            rec['c1'] = dict(method='integrate', params=list(params), sel=sel_dist, theta=theta, exterior_int=exterior_int); return F1.copy()
        def integrate_point_pos(self, params, ns, sel_dist, theta, demo_sel_func=None, Npos=1, pts=None, exterior_int=True):
            rec['c1'] = dict(method='integrate_point_pos', params=list(params), sel=sel_dist, theta=theta, Npos=Npos,
                             demo=demo_sel_func, exterior_int=exterior_int); return F1.copy()
    class S2(dadi.DFE.Cache2D):
        def __init__(self): pass
        def integrate(self, params, ns, sel_dist, theta, pts, exterior_int=True):
            rec['c2'] = dict(method='integrate', params=list(params), sel=sel_dist, theta=theta, exterior_int=exterior_int); return F2.copy()
        def integrate_point_pos(self, params, ns, biv_seldist, theta, rho=0, pts=None):
            rec['c2'] = dict(method='integrate_point_pos', params=list(params), sel=biv_seldist, theta=theta, rho=rho); return F2.copy()
        def integrate_symmetric_point_pos(self, params, ns, biv_seldist, theta, pts=None):
            rec['c2'] = dict(method='integrate_symmetric_point_pos', params=list(params), sel=biv_seldist, theta=theta); return F2.copy()
    return S1(), S2(), rec

MIX = {'mix': ('mixture', 'integrate', 'integrate'),
       'mixsym': ('mixture_symmetric_point_pos', 'integrate_point_pos', 'integrate_symmetric_point_pos'),
       'mixpt': ('mixture_point_pos', 'integrate_point_pos', 'integrate_point_pos')}

def k_mix(chk, drv, dadi, rng, kind, params, theta, ext=True):
    fname, m1, m2 = MIX[kind]
    fn = getattr(dadi.DFE.Cache2D_mod, fname)
    F1 = rng.uniform(0.5, 2, size=(2, 3)); F2 = rng.uniform(0.5, 2, size=(2, 3))
    s1, s2, rec = mk_stubs(dadi, F1, F2)
    sd1, sd2 = object(), object()
    inp = dict(op='DFE.' + fname, params=params, theta=theta)
    raised = None; impl = None
    try:
        if kind == 'mix':
            impl = data_of(fn(params, None, s1, s2, sd1, sd2, theta, None, ext))
        else:
            impl = data_of(fn(params, None, s1, s2, sd1, sd2, theta))
    except Exception as e:
        raised = type(e).__name__
    out = drv.ask('c17.mixwire %s %s' % (kind, fmt_list(params)))
    if raised is not None or not out.startswith('ok '):
        if raised is not None and out.startswith('err ' + raised): chk.k_ok(kind + ':raises')
        else: chk.k_bad(kind, inp, 'raised %s' % raised if raised else small(impl), out[:200], float('inf'))
        return
    parts = out[3:].split(' | ')
    def lst(t): return [float(v) for v in common.parse_list(t)]
    bad = []
    c1, c2 = rec.get('c1'), rec.get('c2')
    if c1 is None or c2 is None or c1['method'] != m1 or c2['method'] != m2:
        bad.append('component methods called: %r' % [c1 and c1['method'], c2 and c2['method']])
    else:
        if c1['params'] != lst(parts[0]): bad.append('params of the 1-D component: impl %r model %r' % (c1['params'], lst(parts[0])))
        if kind == 'mix':
            if c2['params'] != lst(parts[1]): bad.append('params of the 2-D component')
            p2d = parts[2]
            if c1['exterior_int'] is not ext or c2['exterior_int'] is not ext: bad.append('exterior_int not forwarded')
        else:
            if c1['Npos'] != int(parts[1]): bad.append('Npos')
            if c2['params'] != lst(parts[2]): bad.append('params of the 2-D component: impl %r model %r' % (c2['params'], lst(parts[2])))
            if c1['demo'] is not None or c1['exterior_int'] is not True: bad.append('extra arguments of the 1-D component')
            p2d = parts[-1]
            if kind == 'mixpt':
                rb = parts[3]
                ri = c2['rho']
                want = 'none' if ri is None else 'given:' + rat(ri)
                if rb == 'dflt': want = 'given:' + rat(ri) if ri != 0 else 'dflt'
                if rb != want: bad.append('rho handed to integrate_point_pos: impl %r model %s' % (ri, rb))
        if c1['sel'] is not sd1 or c2['sel'] is not sd2: bad.append('pdfs not forwarded')
        if c1['theta'] != theta or c2['theta'] != theta: bad.append('theta not forwarded')
    if bad:
        chk.k_bad(kind, inp, bad, out, float('inf')); return
    out2 = drv.ask('c17.mixcomb %s %s %s %s' % (kind, p2d, fmt_list(F1.ravel()), fmt_list(F2.ravel())))
    mod = parse_vals(out2[3:])
    ok, err, scale = close(impl.ravel(), mod, rtol=RTOL)
    if ok: chk.k_ok(kind)
    else: chk.k_bad(kind, inp, small(impl), small(mod), err)

def k_spp_glue(chk, drv, dadi, rng, params, theta):
    """integrate_symmetric_point_pos -> integrate_point_pos: what is handed over"""
    F2 = rng.uniform(0.5, 2, size=(2, 3))
    _, s2, rec = mk_stubs(dadi, F2, F2)
    inp = dict(op='Cache2D.integrate_symmetric_point_pos(glue)', params=params, theta=theta)
    raised = None
    try:
        dadi.DFE.Cache2D.integrate_symmetric_point_pos(s2, params, None, 'pdf', theta)
    except Exception as e:
        raised = type(e).__name__
    out = drv.ask('c17.pp2wire spp %s x' % fmt_list(params))
    if raised is not None or not out.startswith('ok '):
        if raised is not None and out.startswith('err ' + raised): chk.k_ok('spp:raises')
        else: chk.k_bad('spp', inp, 'raised %s' % raised, out, float('inf'))
        return
    bt, p1, g1, p2, g2, rh = out[3:].split(' ')
    c2 = rec['c2']
    want = [float(v) for v in common.parse_list(bt)] + [float(Fraction(t)) for t in (p1, g1, p2, g2)]
    if [float(v) for v in c2['params']] == want and float(c2['rho']) == float(Fraction(rh)) and c2['theta'] == theta and c2['sel'] == 'pdf':
        chk.k_ok('spp')
    else:
        chk.k_bad('spp', inp, dict(params=[float(v) for v in c2['params']], rho=float(c2['rho'])), out, float('inf'))

# ------------------------------------------------------------------ K: Vourlaki_mixture
def k_vourlaki(chk, drv, dadi, s1, s2, params, theta):
    P = dadi.DFE.PDFs
    alpha, beta, pw, gpos, pc, pcp = params
    ng = np.asarray(s2.neg_gammas, dtype=float); n = len(ng)
    inp = dict(op='DFE.Vourlaki_mixture', params=params, theta=theta, cache1=cache_desc(s1), cache2=cache_desc(s2))
    raised = None; impl = None
    with QuadSpy() as spy:
        try:
            impl = data_of(dadi.DFE.Vourlaki_mixture(params, None, s1, s2, theta, None))
        except Exception as e:
            raised = type(e).__name__
    gs = np.asarray(s2.gammas, dtype=float)
    ipos = np.nonzero(gs == gpos)[0]
    if len(ipos) == 0:
        if raised == 'IndexError': chk.k_ok('vourlaki:raises')
        else: chk.k_bad('vourlaki', inp, 'raised %s' % raised if raised else small(impl), 'IndexError', float('inf'))
        return
    if raised is not None:
        chk.k_bad('vourlaki', inp, 'raised ' + raised, 'a spectrum', float('inf')); return
    own = [c for c in spy.calls if c['kind'] == 'quad' and c['func'] is P.gamma and region_of(c['a'], c['b'], ng) is not None][-2:]
    cl = classify_1d(own, ng)
    if isinstance(cl, str):
        chk.k_bad('vourlaki', inp, cl, 'documented tails', float('inf')); return
    ip = int(ipos[0])
    sp = np.asarray(s2.spectra, dtype=float)
    m5 = data_of(s1.integrate([alpha, beta], None, P.gamma, 1, None)).ravel()
    m6 = data_of(s2.integrate([alpha, beta], None, P.biv_ind_gamma, 1, None, exterior_int=True)).ravel()
    wg = np.asarray(P.gamma(-ng, [alpha, beta]), dtype=float)
    if not finite(impl, m5, m6, wg, list(cl.values())):
        chk.k_skipped += 1; return
    out = drv.ask('c17.vk %s %s %s %s %s %s %s %s %s %s %s' % (
        rat(theta), fmt_list(params), fmt_list(ng), fmt_list(wg), rat(cl.get('N', 0.0)), rat(cl.get('D', 0.0)),
        rows(entries_1d(sp[ip, :n])), rows(entries_1d(sp[:n, ip])), fmt_list(sp[ip, ip].ravel()), fmt_list(m5), fmt_list(m6)))
    if not out.startswith('ok '):
        chk.k_bad('vourlaki', inp, small(impl), out[:200], float('inf')); return
    mod = parse_vals(out[3:])
    ok, err, scale = close(impl.ravel(), mod, rtol=RTOL)
    if ok: chk.k_ok('vourlaki')
    else: chk.k_bad('vourlaki', inp, small(impl), small(mod), err)

# ------------------------------------------------------------------ K: cache construction, job split, merge
def table_of(c, dim):
    """flattened list of None / 1-D arrays from a cache object's `spectra`"""
    sp = c.spectra
    out = []
    if dim == 1:
        for v in sp: out.append(None if v is None else data_of(v).ravel())
    else:
        for row in sp:
            for v in row: out.append(None if v is None else data_of(v).ravel())
    return out

def table_tok(tab):
    return ';'.join('_' if v is None else fmt_list(v) for v in tab) if tab else '-'

def parse_table(tok):
    return [None if t == '_' else np.array([float(v) for v in common.parse_list(t)]) for t in tok.split(';')] if tok != '-' else []

def tables_equal(a, b):
    if len(a) != len(b): return False
    for x, y in zip(a, b):
        if (x is None) != (y is None): return False
        if x is not None and not (x.shape == y.shape and close(x, y, rtol=RTOL)[0]): return False
    return True

def k_build(chk, drv, dadi, rng, dim, cpus, split=1, job=0, fault=None, n=None, extra=None):
    """multi-process construction under an arbitrary (simulated) completion order vs `assign` / `collect`"""
    n = int(rng.integers(1, 4)) if n is None else n
    extra = [2.5][:int(rng.integers(0, 2))] if extra is None else extra
    G = n + len(extra)
    gam = np.concatenate((-np.logspace(np.log10(40.), np.log10(0.05), n), extra))
    FAULT['at'] = None
    if fault is not None:
        FAULT['at'] = (gam[fault[0]], gam[fault[1]]) if dim == 2 else (gam[fault[0]], gam[fault[0]])
        FAULT['kind'] = 'raise'
    inp = dict(op='Cache%dD(multi-process, simulated schedule)' % dim, cpus=cpus, split_jobs=split, this_job_id=job, gammas=gam.tolist(),
               fault=fault)
    raised = None; c = None
    try:
        with FakeMP(rng) as f, quiet():
            try:
                if dim == 1:
                    c = dadi.DFE.Cache1D([1.3], [1, 2], demo1, [8], gamma_bounds=(0.05, 40.), gamma_pts=n, additional_gammas=extra, cpus=cpus)
                else:
                    c = dadi.DFE.Cache2D([1.3], [1, 2], demo2, [8], gamma_bounds=(0.05, 40.), gamma_pts=n, additional_gammas=extra, cpus=cpus,
                                         split_jobs=split, this_job_id=job)
            except Exception as e:
                raised = type(e).__name__
    finally:
        FAULT['at'] = None
    inp['schedule'] = [list(map(float, x[:-dim] if False else x[:dim])) for x in (f.order or [])]
    items = []
    for r in (f.results or []):
        if isinstance(r, BaseException): items.append('!')
        elif dim == 1: items.append('%d=%s' % (r[0], fmt_list(data_of(r[1]).ravel())))
        else: items.append('%d=%s' % (r[0] * G + r[1], fmt_list(data_of(r[2]).ravel())))
    N = G if dim == 1 else G * G
    out = drv.ask('c17.build %d %s' % (N, ';'.join(items) if items else '-'))
    tag = 'build%dD' % dim
    if out.startswith('err '):
        if raised is not None: chk.k_ok(tag + ':error')
        else: chk.k_bad(tag, inp, 'returned a cache', out, float('inf'))
        return
    if raised is not None:
        # a table with holes and split_jobs == 1: numpy refuses the ragged array (ValueError)
        mt = parse_table(out[3:])
        if any(v is None for v in mt) and split == 1: chk.k_ok(tag + ':incomplete-raises')
        else: chk.k_bad(tag, inp, 'raised ' + raised, out[:200], float('inf'))
        return
    if tables_equal(table_of(c, dim), parse_table(out[3:])): chk.k_ok(tag)
    else: chk.k_bad(tag, inp, 'final table differs from assign(results)', out[:200], float('inf'))
    if dim == 2:
        jm = drv.ask('c17.jobs 1 %d %d %d' % (G, split, job))
        want = sorted((int(a), int(b)) for a, b in (t.split(':') for t in jm[3:].split(','))) if jm != 'ok -' else []
        got = sorted((int(x[0]), int(x[1])) for x in (f.order or []))
        if got == want: chk.k_ok('jobs:multi')
        else: chk.k_bad('jobs:multi', inp, got, want, float('inf'))

def k_jobs_single(chk, drv, dadi, G_neg, extra, split, job):
    inp = dict(op='Cache2D(single process)', gamma_pts=G_neg, additional_gammas=extra, split_jobs=split, this_job_id=job)
    c = dadi.DFE.Cache2D([1.3], [1, 1], demo2, [8], gamma_bounds=(0.05, 40.), gamma_pts=G_neg, additional_gammas=extra, cpus=1,
                         split_jobs=split, this_job_id=job)
    G = G_neg + len(extra)
    got = sorted((i, j) for i in range(G) for j in range(G) if c.spectra[i][j] is not None)
    jm = drv.ask('c17.jobs 0 %d %d %d' % (G, split, job))
    want = sorted((int(a), int(b)) for a, b in (t.split(':') for t in jm[3:].split(','))) if jm != 'ok -' else []
    if got == want: chk.k_ok('jobs:single')
    else: chk.k_bad('jobs:single', inp, got, want, float('inf'))
    return c

def k_merge(chk, drv, dadi, caches, desc):
    """caches: list of Cache2D objects (not modified)"""
    inp = dict(op='Cache2D.merge', jobs=desc)
    raised = None; m = None
    try:
        m = dadi.DFE.Cache2D.merge(caches)
    except Exception as e:
        raised = type(e).__name__ + ':' + ('conflict' if 'conflict' in str(e) else 'incomplete' if 'incomplete' in str(e) else str(e)[:40])
    tabs = [table_of(c, 2) for c in caches]
    N = len(tabs[0]) if tabs else 0
    out = drv.ask('c17.merge %d %s' % (N, '|'.join(table_tok(t) for t in tabs) if tabs else '-'))
    if out.startswith('err '):
        if raised is not None and (out[4:] == raised or (out[4:] == 'IndexError' and raised.startswith('IndexError'))): chk.k_ok('merge:' + out[4:])
        else: chk.k_bad('merge', inp, raised or 'returned a cache', out, float('inf'))
        return
    if raised is not None:
        chk.k_bad('merge', inp, 'raised ' + raised, out[:200], float('inf')); return
    if tables_equal(table_of(m, 2), parse_table(out[3:])) and isinstance(m.spectra, np.ndarray): chk.k_ok('merge:ok')
    else: chk.k_bad('merge', inp, 'merged table differs', out[:200], float('inf'))
