"""C17 — DFE integration is the documented quadrature of a schedule-independent cache.

T : tools/gen_DFE.py regenerates the assembly lines of Cache1D.integrate*, Cache2D.integrate*, the mixtures,
    Vourlaki_mixture, the job-split test and the merge cell rule (Generated/DFE.lean); tools/gen_PDFs.py the loop extents,
    flat index expression, work-array extents, parameter-count dispatch and Lanczos coefficients of dadi/DFE/PDFs.c, the
    argument binding of the Cython wrapper and the dispatch of the Python reference formulas (Generated/PDFs.lean, run
    by the driver); tools/gen_PDFsReal.py the per-cell real-valued expressions of both sides (PDFs.c and PDFs.py) and
    the univariate pdfs (Generated/PDFsReal.lean).  Props/C17.lean is about them.
K : the real methods (dadi rebuilt from the working tree, compiled PDFs included) vs the exact-rational Lean model
    (Model/DFE.lean, Model/PDFs.lean through Driver/DFE.lean).  pdf values, quad/dblquad results (spied from the
    implementation's own calls and classified by their bounds) and square roots are passed to the model as numbers.
    Whole mixtures on real caches with both components computed by the model; compiled pdfs: output layout on
    rectangular grids, parameter-count dispatch (lengths 1..7, both sides), Lanczos series (exact in the model).
L3: the property statement evaluated directly on the real code with numpy/scipy, independent of the model:
    nine-region quadrature written out with explicit loops, linearity in theta, selection-neutral spectra and the
    total weight (region masses from normal / gamma cdfs) for integrate, integrate_point_pos (1-3 point masses) and all
    three mixtures, point-mass and mixture weights from the docstrings,
    single vs multi-process vs split+merge caches, worker faults, every subset of missing / duplicated jobs,
    compiled bivariate pdfs vs their formulas (contiguous and strided arguments) and vs the library's own reference
    functions on square, rectangular and degenerate grids for every accepted parameter-vector length."""
import os, sys, math, itertools, contextlib, copy
from fractions import Fraction
import numpy as np
from . import common
from .common import rat, fmt_list, close

PROP = 'C17'
GENERATED = ['DFE', 'PDFs', 'PDFsReal']
NEEDS_BUILD = True
NEEDS_DRIVER = True
DRIVER_MODULES = ['DFE']

RTOL = 1e-9

# ------------------------------------------------------------------ cheap closed-form "demographic models with selection"
FAULT = {'at': None, 'kind': None}      # (g1, g2) on which the demo function raises

def _f(g):
    return g / (1.0 + abs(g))

def _spec2(p0, ns, g1, g2):
    n1, n2 = ns
    k = np.arange(n1 + 1, dtype=float)[:, None]; l = np.arange(n2 + 1, dtype=float)[None, :]
    return p0 * (2.0 + _f(g1) * (k + 1) / (n1 + 1) + 0.5 * _f(g2) * (l + 1) / (n2 + 1) + 0.25 * _f(g1) * _f(g2)) / (1.0 + k + 2 * l)

def _maybe_fault(g1, g2):
    at = FAULT['at']
    if at is not None and g1 == at[0] and g2 == at[1]:
        if FAULT['kind'] == 'raise':
            raise ValueError('injected failure at gamma=(%r, %r)' % (g1, g2))

def demo2(params, ns, pts):
    import dadi
    g1, g2 = params[-2], params[-1]
    _maybe_fault(g1, g2)
    return dadi.Spectrum(_spec2(params[0], ns, g1, g2))

def demo1(params, ns, pts):
    """two-population spectrum with the same gamma in both populations (what a Cache1D used in a mixture holds)"""
    import dadi
    g = params[-1]
    _maybe_fault(g, g)
    return dadi.Spectrum(_spec2(params[0], ns, g, g))

def demo1_1pop(params, ns, pts):
    import dadi
    g = params[-1]
    _maybe_fault(g, g)
    k = np.arange(ns[0] + 1, dtype=float)
    return dadi.Spectrum(params[0] * (2.0 + _f(g) * (k + 1) / (ns[0] + 1)) / (1.0 + k))

def neutral2(params, ns, pts):
    import dadi
    return dadi.Spectrum(_spec2(params[0], ns, 0.0, 0.0))

def neutral1(params, ns, pts):
    import dadi
    return dadi.Spectrum(_spec2(params[0], ns, 0.0, 0.0))

for _fn in (demo2, demo1, demo1_1pop, neutral2, neutral1):
    _fn.__name__ = _fn.__name__

# ------------------------------------------------------------------ quiet stderr (workers print tracebacks)
@contextlib.contextmanager
def quiet():
    sys.stdout.flush(); sys.stderr.flush()
    old = os.dup(2); dn = os.open(os.devnull, os.O_WRONLY)
    os.dup2(dn, 2)
    try:
        yield
    finally:
        sys.stderr.flush()
        os.dup2(old, 2); os.close(dn); os.close(old)

# ------------------------------------------------------------------ wire helpers
def rows(a2):
    """2-D array-like -> 'r;r;r'"""
    a2 = list(a2)
    return ';'.join(fmt_list(np.asarray(r, dtype=float).ravel().tolist()) for r in a2) if a2 else '-'

def entries_1d(spectra):
    """spectra: (G, *shape) -> E rows of G values"""
    a = np.asarray(spectra, dtype=float)
    G = a.shape[0]
    return a.reshape(G, -1).T

def entries_2d(spectra):
    """spectra: (G, G, *shape) -> E rows of G*G values (row-major i,j)"""
    a = np.asarray(spectra, dtype=float)
    G = a.shape[0]
    return a.reshape(G * G, -1).T

def parse_vals(tok):
    return np.array([float(v) for v in common.parse_list(tok)])

def data_of(x):
    return np.asarray(np.ma.getdata(x), dtype=float)

def finite(*arrs):
    return all(np.all(np.isfinite(np.asarray(a, dtype=float))) for a in arrs)

# ------------------------------------------------------------------ compiled code in a child process
def isolated(fn, *args):
    """fn(*args) evaluated in a forked child (a compiled loop with a wrong index expression writes outside its buffer:
    the harness itself must survive that).  -> ('ok', array) | ('raised', 'Type: msg') | ('crashed', description)"""
    import pickle, signal
    sys.stdout.flush(); sys.stderr.flush()
    r, w = os.pipe()
    pid = os.fork()
    if pid == 0:
        code = 0
        try:
            os.close(r)
            try:
                os.dup2(os.open(os.devnull, os.O_WRONLY), 2)
                res = ('ok', np.array(fn(*args), dtype=float))
            except Exception as e:
                res = ('raised', '%s: %s' % (type(e).__name__, e))
            with os.fdopen(w, 'wb') as f:
                pickle.dump(res, f)
        except BaseException:
            code = 3
        finally:
            os._exit(code)
    os.close(w)
    with os.fdopen(r, 'rb') as f:
        data = f.read()
    _, status = os.waitpid(pid, 0)
    if os.WIFSIGNALED(status):
        return ('crashed', 'killed by signal %d' % os.WTERMSIG(status))
    if os.WEXITSTATUS(status) != 0 or not data:
        return ('crashed', 'exit status %d' % os.WEXITSTATUS(status))
    try:
        return pickle.loads(data)
    except Exception as e:
        return ('crashed', 'unreadable result (%s)' % type(e).__name__)

# ------------------------------------------------------------------ spying on scipy.integrate
PROBE = 0.7311

class QuadSpy:
    """records every quad / dblquad call made while active (delegating to the real functions)"""
    def __init__(self):
        self.calls = []
    def __enter__(self):
        import scipy.integrate as si
        self.si = si; self.q = si.quad; self.d = si.dblquad
        def quad(func, a, b, *pa, **kw):
            r = self.q(func, a, b, *pa, **kw)
            args = kw.get('args', pa[0] if pa else ())
            probe = None
            if isinstance(args, tuple) and len(args) == 0:
                try: probe = float(np.squeeze(func(PROBE)))      # closures over loop variables must be read now
                except Exception: probe = None
            self.calls.append(dict(kind='quad', func=func, a=a, b=b, args=args, res=r[0], probe=probe))
            return r
        def dblquad(func, a, b, gfun, hfun, *pa, **kw):
            r = self.d(func, a, b, gfun, hfun, *pa, **kw)
            g = gfun(0.0) if callable(gfun) else gfun; h = hfun(0.0) if callable(hfun) else hfun
            self.calls.append(dict(kind='dblquad', func=func, a=a, b=b, g=g, h=h, res=r[0]))
            return r
        si.quad = quad; si.dblquad = dblquad
        return self
    def __exit__(self, *a):
        self.si.quad = self.q; self.si.dblquad = self.d
        return False

def region_of(a, b, neg_gammas):
    if a == 0 and b == -neg_gammas[-1]:
        return 'N'
    if a == -neg_gammas[0] and b == np.inf:
        return 'D'
    return None

def classify_1d(calls, neg_gammas):
    """-> dict region -> mass, or an error string"""
    out = {}
    for c in calls:
        if c['kind'] != 'quad':
            return 'dblquad in a 1-D integral'
        r = region_of(c['a'], c['b'], neg_gammas)
        if r is None:
            return 'tail bounds (%r, %r) are not a documented region' % (c['a'], c['b'])
        out[r] = c['res']
    return out

def classify_2d(calls, neg_gammas, sel_dist, params):
    """-> (wv dict (r1,r2)->vector, C dict (r1,r2)->mass) or an error string"""
    n = len(neg_gammas)
    gam = -np.asarray(neg_gammas)
    wv = {k: np.zeros(n) for k in (('D', 'I'), ('N', 'I'), ('I', 'D'), ('I', 'N'))}
    C = {}
    cur = None
    t = PROBE
    for c in calls:
        if c['kind'] == 'quad':
            r = region_of(c['a'], c['b'], neg_gammas)
            if r is None:
                return 'edge bounds (%r, %r) are not a documented region' % (c['a'], c['b'])
            args = c['args']
            if isinstance(args, tuple) and len(args) == 2:
                ks = np.nonzero(gam == args[0])[0]
                if len(ks) != 1:
                    return 'edge integral at a gamma that is not on the grid'
                cur = int(ks[0])
                wv[(r, 'I')][cur] = c['res']
            else:
                if cur is None:
                    return 'marginal integral before any grid point'
                v = c.get('probe')
                a2 = float(np.squeeze(sel_dist(gam[cur], t, params))); a1 = float(np.squeeze(sel_dist(t, gam[cur], params)))
                if v == a2:
                    wv[('I', r)][cur] = c['res']
                elif v == a1:
                    wv[(r, 'I')][cur] = c['res']
                else:
                    return 'marginal integrand is neither pdf(gamma_k, .) nor pdf(., gamma_k)'
        else:
            r2 = region_of(c['a'], c['b'], neg_gammas); r1 = region_of(c['g'], c['h'], neg_gammas)
            if r1 is None or r2 is None:
                return 'corner bounds are not a documented region'
            C[(r1, r2)] = c['res']
    return wv, C

def wv_tok(wv):
    return rows([wv[('D', 'I')], wv[('N', 'I')], wv[('I', 'D')], wv[('I', 'N')]])

def c_tok(C):
    return fmt_list([C.get(('N', 'N'), 0.0), C.get(('D', 'N'), 0.0), C.get(('N', 'D'), 0.0), C.get(('D', 'D'), 0.0)])

# ------------------------------------------------------------------ in-process stand-in for multiprocessing (arbitrary schedules)
class FakeMP:
    """Replaces multiprocessing.Manager / Process while active.  All queued jobs are handed out in a permuted order, cut
    into one chunk per worker; workers (the real `_worker_sfs`) run one after another, so the results list ends up in
    that permuted order — any completion order of a real pool is one of these."""
    def __init__(self, rng):
        self.rng = rng; self.results = None; self.order = None
    def __enter__(self):
        import multiprocessing as mp
        self.mp = mp; self.M = mp.Manager; self.P = mp.Process
        outer = self
        class Q:
            def __init__(self):
                self.items = []; self.prepared = None
            def put(self, x):
                self.items.append(x)
            def prepare(self):
                jobs = [x for x in self.items if x is not None]
                nstop = sum(1 for x in self.items if x is None)
                perm = outer.rng.permutation(len(jobs))
                jobs = [jobs[i] for i in perm]
                cuts = sorted(outer.rng.integers(0, len(jobs) + 1, size=max(nstop - 1, 0)).tolist())
                seq = []; prev = 0
                for c in cuts:
                    seq += jobs[prev:c] + [None]; prev = c
                seq += jobs[prev:] + [None]
                self.prepared = seq; outer.order = jobs
            def get(self):
                if self.prepared is None:
                    self.prepare()
                return self.prepared.pop(0)
        class Mgr:
            def __enter__(s): return s
            def __exit__(s, *a): return False
            def Queue(s, n=0):
                outer.queue = Q(); return outer.queue
            def list(s):
                outer.results = []; return outer.results
        class Proc:
            def __init__(s, target=None, args=()):
                s.target = target; s.args = args; s.done = False
            def start(s): pass
            def join(s):
                if not s.done:
                    s.done = True; s.target(*s.args)
        mp.Manager = Mgr; mp.Process = Proc
        return self
    def __exit__(self, *a):
        self.mp.Manager = self.M; self.mp.Process = self.P
        return False

# ------------------------------------------------------------------ caches and pdfs
def small(x, nd=6):
    a = np.asarray(x, dtype=float).ravel()
    return [float(v) for v in a[:nd]]

def cache_desc(c):
    return dict(neg_gammas=[float(g) for g in c.neg_gammas], gammas=[float(g) for g in c.gammas], ns=list(c.ns), params=list(c.params))

# ------------------------------------------------------------------ K: Cache1D.integrate / integrate_point_pos
def k_int1d(chk, drv, c, name, sel, params, theta, ext):
    ng = np.asarray(c.neg_gammas, dtype=float); n = len(ng)
    inp = dict(op='Cache1D.integrate', pdf=name, params=params, theta=theta, exterior_int=ext, cache=cache_desc(c))
    with QuadSpy() as spy:
        try:
            impl = data_of(c.integrate(params, None, sel, theta, None, exterior_int=ext))
        except Exception as e:
            chk.k_bad('int1d', inp, 'raised %s: %s' % (type(e).__name__, e), 'a spectrum', float('inf')); return
    cl = classify_1d(spy.calls, ng)
    if isinstance(cl, str):
        chk.k_bad('int1d', inp, cl, 'tails over (0,-neg_gammas[-1]) and (-neg_gammas[0],inf)', float('inf')); return
    w = np.asarray(sel(-ng, params), dtype=float)
    S = np.asarray(c.spectra, dtype=float)[:n]
    if not finite(w, impl, list(cl.values())):
        chk.k_skipped += 1; return
    line = 'c17.int1d %d %s %s %s %s %s %s %s' % (int(ext), rat(theta), fmt_list(ng), fmt_list(w), rat(cl.get('N', 0.0)), rat(cl.get('D', 0.0)),
                                                 fmt_list(np.asarray(c.neu_spec, dtype=float).ravel()), rows(entries_1d(S)))
    out = drv.ask(line)
    if not out.startswith('ok '):
        chk.k_bad('int1d', inp, small(impl), out, float('inf')); return
    mod = parse_vals(out[3:])
    ok, err, scale = close(impl.ravel(), mod, rtol=RTOL)
    if ok: chk.k_ok('int1d')
    else: chk.k_bad('int1d', inp, small(impl), small(mod), err)

def k_pp1(chk, drv, dadi, c, name, sel, pdf_params, pp, theta, ext, demo, tag='pp1'):
    """pp = [(ppos, gammapos), ...]; the cache object is mutated by the call when a gamma is computed on the fly"""
    ng = np.asarray(c.neg_gammas, dtype=float); n = len(ng)
    params = list(pdf_params) + [v for pr in pp for v in pr]
    npos = len(pp)
    gs0 = np.asarray(c.gammas, dtype=float).copy(); sp0 = np.asarray(c.spectra, dtype=float).copy()
    inp = dict(op='Cache1D.integrate_point_pos', pdf=name, params=params, Npos=npos, theta=theta, exterior_int=ext,
               demo_sel_func=(demo.__name__ if demo else None), cache=cache_desc(c))
    comp = []
    if demo is not None:
        for _, g in pp:
            if g not in gs0 and g not in [x[0] for x in comp]:
                comp.append((g, data_of(demo(tuple(c.params) + (g,), c.ns, c.pts)).ravel()))
    impl = None; raised = None
    with QuadSpy() as spy:
        try:
            impl = data_of(c.integrate_point_pos(params, None, sel, theta, demo_sel_func=demo, Npos=npos, exterior_int=ext))
        except Exception as e:
            raised = type(e).__name__
    cl = classify_1d(spy.calls, ng)
    if isinstance(cl, str):
        chk.k_bad(tag, inp, cl, 'documented tails', float('inf')); return
    w = np.asarray(sel(-ng, list(pdf_params)), dtype=float)
    if not finite(w, list(cl.values())) or (impl is not None and not finite(impl)):
        chk.k_skipped += 1; return
    ctok = ';'.join('%s=%s' % (rat(g), fmt_list(v)) for g, v in comp) if comp else '-'
    line = 'c17.pp1 %d %s %d %s %s %s %s %s %s %s %s %s' % (
        int(ext), rat(theta), npos, fmt_list(params), fmt_list(ng), fmt_list(w), rat(cl.get('N', 0.0)), rat(cl.get('D', 0.0)),
        fmt_list(np.asarray(c.neu_spec, dtype=float).ravel()), fmt_list(gs0), ctok, rows(entries_1d(sp0)))
    out = drv.ask(line)
    if raised is not None or not out.startswith('ok '):
        if raised is not None and out == 'err ' + raised:
            chk.k_ok(tag + ':raises')
        else:
            chk.k_bad(tag, inp, 'raised ' + raised if raised else small(impl), out[:200], float('inf'))
        return
    parts = out[3:].split(' | ')
    mod = parse_vals(parts[0]); gs1 = parse_vals(parts[1])
    sp1 = np.array([[float(v) for v in common.parse_list(r)] for r in parts[2].split(';')])
    pdf_m, ppos_m, gpos_m = [parse_vals(t) for t in parts[3].split(' ')]
    ok, err, scale = close(impl.ravel(), mod, rtol=RTOL)
    gs_i = np.asarray(c.gammas, dtype=float); sp_i = entries_1d(np.asarray(c.spectra, dtype=float))
    ok2 = gs_i.shape == gs1.shape and np.array_equal(gs_i, gs1)
    ok3 = ok2 and close(sp_i, sp1, rtol=RTOL)[0]
    ok4 = np.array_equal(ppos_m, [p for p, _ in pp]) and np.array_equal(gpos_m, [g for _, g in pp]) and np.array_equal(pdf_m, list(pdf_params))
    if ok and ok3 and ok4: chk.k_ok(tag)
    else:
        what = 'result' if not ok else ('cache after the call' if not ok3 else 'parameter slicing')
        chk.k_bad(tag, dict(inp, differs=what), small(impl) if not ok else small(sp_i[:, -1]), small(mod) if not ok else small(sp1[:, -1]), err)

# ------------------------------------------------------------------ K: Cache2D.integrate / integrate_point_pos
def impl_int2d(c, sel, params, theta, ext):
    """run the real method under the spy; -> (data | None, raised | None, classification)"""
    ng = np.asarray(c.neg_gammas, dtype=float)
    with QuadSpy() as spy:
        try:
            impl = data_of(c.integrate(params, None, sel, theta, None, exterior_int=ext)); raised = None
        except Exception as e:
            impl = None; raised = '%s: %s' % (type(e).__name__, e)
    return impl, raised, classify_2d(spy.calls, ng, sel, np.array(params))

def int2d_tokens(c, sel, params, cl):
    ng = np.asarray(c.neg_gammas, dtype=float)
    w = np.asarray(sel(-ng, -ng, np.array(params)), dtype=float).reshape(len(ng), len(ng))
    tx = np.logspace(-2, 2, 3)
    to = np.asarray(sel(tx, tx, np.array(params)), dtype=float).reshape(3, 3)
    wv, C = cl
    if not finite(w, to, *wv.values()) or not finite(list(C.values()) or [0.0]):
        return None
    return '%s %s %s %s %s' % (fmt_list(ng), rows(w), rows(to), wv_tok(wv), c_tok(C))

def k_int2d(chk, drv, c, name, sel, params, theta, ext):
    n = len(c.neg_gammas)
    inp = dict(op='Cache2D.integrate', pdf=name, params=params, theta=theta, exterior_int=ext, cache=cache_desc(c))
    impl, raised, cl = impl_int2d(c, sel, params, theta, ext)
    if raised is not None:
        chk.k_bad('int2d', inp, 'raised ' + raised, 'a spectrum', float('inf')); return
    if isinstance(cl, str):
        chk.k_bad('int2d', inp, cl, 'documented exterior regions', float('inf')); return
    tk = int2d_tokens(c, sel, params, cl)
    if tk is None or not finite(impl):
        chk.k_skipped += 1; return
    S = np.asarray(c.spectra, dtype=float)[:n, :n]
    out = drv.ask('c17.int2d %d %s %s %s' % (int(ext), rat(theta), tk, rows(entries_2d(S))))
    if not out.startswith('ok '):
        chk.k_bad('int2d', inp, small(impl), out[:200], float('inf')); return
    sym, vals = out[3:].split(' ')
    mod = parse_vals(vals)
    ok, err, scale = close(impl.ravel(), mod, rtol=RTOL)
    if ok: chk.k_ok('int2d:sym' if sym == '1' else 'int2d:asym')
    else: chk.k_bad('int2d', dict(inp, symmetric_dfe=sym), small(impl), small(mod), err)

def k_pp2(chk, drv, c, name, sel, biv_params, pt, theta, rho, symmetric_call):
    """pt = (ppos1, g1, ppos2, g2); symmetric_call: go through integrate_symmetric_point_pos (then biv_params ends with rho)"""
    ng = np.asarray(c.neg_gammas, dtype=float); n = len(ng)
    if symmetric_call:
        params = list(biv_params) + [pt[0], pt[1]]
        kind = 'spp'; tag = 'spp2'
    else:
        params = list(biv_params) + list(pt)
        kind = 'pp'; tag = 'pp2'
    inp = dict(op='Cache2D.integrate_symmetric_point_pos' if symmetric_call else 'Cache2D.integrate_point_pos', pdf=name, params=params,
               theta=theta, rho=rho, cache=cache_desc(c))
    impl = None; raised = None
    with QuadSpy() as spy:
        try:
            if symmetric_call:
                impl = data_of(c.integrate_symmetric_point_pos(params, None, sel, theta))
            elif rho is None:
                impl = data_of(c.integrate_point_pos(params, None, sel, theta))
            else:
                impl = data_of(c.integrate_point_pos(params, None, sel, theta, rho=rho))
        except Exception as e:
            raised = type(e).__name__
    wire = drv.ask('c17.pp2wire %s %s %s' % (kind, fmt_list(params), 'x' if symmetric_call else ('dflt' if rho is None else 'given:' + rat(rho))))
    if not wire.startswith('ok '):
        if raised is not None and wire.startswith('err ' + raised): chk.k_ok(tag + ':raises')
        else: chk.k_bad(tag, inp, 'raised %s' % raised if raised else small(impl), wire, float('inf'))
        return
    bt, p1, g1, p2, g2, rh = wire[3:].split(' ')
    biv = [float(v) for v in common.parse_list(bt)]
    cl = classify_2d(spy.calls, ng, sel, np.array(biv))
    if isinstance(cl, str):
        if raised == 'IndexError':        # the lookup of the point mass failed before/after the quadrature: compare the error only
            cl = ({k: np.zeros(n) for k in (('D', 'I'), ('N', 'I'), ('I', 'D'), ('I', 'N'))}, {})
        else:
            chk.k_bad(tag, inp, cl, 'documented exterior regions', float('inf')); return
    tk = int2d_tokens(c, sel, biv, cl)
    if tk is None or (impl is not None and not finite(impl)):
        chk.k_skipped += 1; return
    arg = drv.ask('c17.pp2prep %s %s' % (p1, p2))
    a = Fraction(arg[3:])
    tab = '%s:%s' % (arg[3:], rat(math.sqrt(float(a)))) if a >= 0 else '-'
    out = drv.ask('c17.pp2 %s %s %s %s %s %s %s %s %s %s' % (rat(theta), rh, p1, g1, p2, g2, tab, fmt_list(np.asarray(c.gammas, dtype=float)), tk,
                                                      rows(entries_2d(np.asarray(c.spectra, dtype=float)))))
    if raised is not None or not out.startswith('ok '):
        if raised is not None and out == 'err ' + raised: chk.k_ok(tag + ':raises')
        else: chk.k_bad(tag, inp, 'raised %s' % raised if raised else small(impl), out[:200], float('inf'))
        return
    mod = parse_vals(out[3:])
    ok, err, scale = close(impl.ravel(), mod, rtol=RTOL)
    if ok: chk.k_ok(tag)
    else: chk.k_bad(tag, inp, small(impl), small(mod), err)

# ------------------------------------------------------------------ K: mixtures (glue only: components replaced by recording stubs)
def mk_stubs(dadi, F1, F2):
    rec = {}
    class S1(dadi.DFE.Cache1D):
        def __init__(self): pass
        def integrate(self, params, ns, sel_dist, theta, pts=None, exterior_int=True):
            rec['c1'] = dict(method='integrate', params=list(params), sel=sel_dist, theta=theta, exterior_int=exterior_int); return F1.copy()
        def integrate_point_pos(self, params, ns, sel_dist, theta, demo_sel_func=None, Npos=1, pts=None, exterior_int=True):
            rec['c1'] = dict(method='integrate_point_pos', params=list(params), sel=sel_dist, theta=theta, Npos=Npos,
                             demo=demo_sel_func, exterior_int=exterior_int); return F1.copy()
    class S2(dadi.DFE.Cache2D):
        def __init__(self): pass
        def integrate(self, params, ns, sel_dist, theta, pts, exterior_int=True):
            rec['c2'] = dict(method='integrate', params=list(params), sel=sel_dist, theta=theta, exterior_int=exterior_int); return F2.copy()
        def integrate_point_pos(self, params, ns, biv_seldist, theta, rho=0, pts=None):
            rec['c2'] = dict(method='integrate_point_pos', params=list(params), sel=biv_seldist, theta=theta, rho=rho); return F2.copy()
        def integrate_symmetric_point_pos(self, params, ns, biv_seldist, theta, pts=None):
            rec['c2'] = dict(method='integrate_symmetric_point_pos', params=list(params), sel=biv_seldist, theta=theta); return F2.copy()
    return S1(), S2(), rec

MIX = {'mix': ('mixture', 'integrate', 'integrate'),
       'mixsym': ('mixture_symmetric_point_pos', 'integrate_point_pos', 'integrate_symmetric_point_pos'),
       'mixpt': ('mixture_point_pos', 'integrate_point_pos', 'integrate_point_pos')}

def k_mix(chk, drv, dadi, rng, kind, params, theta, ext=True):
    fname, m1, m2 = MIX[kind]
    fn = getattr(dadi.DFE.Cache2D_mod, fname)
    F1 = rng.uniform(0.5, 2, size=(2, 3)); F2 = rng.uniform(0.5, 2, size=(2, 3))
    s1, s2, rec = mk_stubs(dadi, F1, F2)
    sd1, sd2 = object(), object()
    inp = dict(op='DFE.' + fname, params=params, theta=theta)
    raised = None; impl = None
    try:
        if kind == 'mix':
            impl = data_of(fn(params, None, s1, s2, sd1, sd2, theta, None, ext))
        else:
            impl = data_of(fn(params, None, s1, s2, sd1, sd2, theta))
    except Exception as e:
        raised = type(e).__name__
    out = drv.ask('c17.mixwire %s %s' % (kind, fmt_list(params)))
    if raised is not None or not out.startswith('ok '):
        if raised is not None and out.startswith('err ' + raised): chk.k_ok(kind + ':raises')
        else: chk.k_bad(kind, inp, 'raised %s' % raised if raised else small(impl), out[:200], float('inf'))
        return
    parts = out[3:].split(' | ')
    def lst(t): return [float(v) for v in common.parse_list(t)]
    bad = []
    c1, c2 = rec.get('c1'), rec.get('c2')
    if c1 is None or c2 is None or c1['method'] != m1 or c2['method'] != m2:
        bad.append('component methods called: %r' % [c1 and c1['method'], c2 and c2['method']])
    else:
        if c1['params'] != lst(parts[0]): bad.append('params of the 1-D component: impl %r model %r' % (c1['params'], lst(parts[0])))
        if kind == 'mix':
            if c2['params'] != lst(parts[1]): bad.append('params of the 2-D component')
            p2d = parts[2]
            if c1['exterior_int'] is not ext or c2['exterior_int'] is not ext: bad.append('exterior_int not forwarded')
        else:
            if c1['Npos'] != int(parts[1]): bad.append('Npos')
            if c2['params'] != lst(parts[2]): bad.append('params of the 2-D component: impl %r model %r' % (c2['params'], lst(parts[2])))
            if c1['demo'] is not None or c1['exterior_int'] is not True: bad.append('extra arguments of the 1-D component')
            p2d = parts[-1]
            if kind == 'mixpt':
                rb = parts[3]
                ri = c2['rho']
                want = 'none' if ri is None else 'given:' + rat(ri)
                if rb == 'dflt': want = 'given:' + rat(ri) if ri != 0 else 'dflt'
                if rb != want: bad.append('rho handed to integrate_point_pos: impl %r model %s' % (ri, rb))
        if c1['sel'] is not sd1 or c2['sel'] is not sd2: bad.append('pdfs not forwarded')
        if c1['theta'] != theta or c2['theta'] != theta: bad.append('theta not forwarded')
    if bad:
        chk.k_bad(kind, inp, bad, out, float('inf')); return
    out2 = drv.ask('c17.mixcomb %s %s %s %s' % (kind, p2d, fmt_list(F1.ravel()), fmt_list(F2.ravel())))
    mod = parse_vals(out2[3:])
    ok, err, scale = close(impl.ravel(), mod, rtol=RTOL)
    if ok: chk.k_ok(kind)
    else: chk.k_bad(kind, inp, small(impl), small(mod), err)

def k_spp_glue(chk, drv, dadi, rng, params, theta):
    """integrate_symmetric_point_pos -> integrate_point_pos: what is handed over"""
    F2 = rng.uniform(0.5, 2, size=(2, 3))
    _, s2, rec = mk_stubs(dadi, F2, F2)
    inp = dict(op='Cache2D.integrate_symmetric_point_pos(glue)', params=params, theta=theta)
    raised = None
    try:
        dadi.DFE.Cache2D.integrate_symmetric_point_pos(s2, params, None, 'pdf', theta)
    except Exception as e:
        raised = type(e).__name__
    out = drv.ask('c17.pp2wire spp %s x' % fmt_list(params))
    if raised is not None or not out.startswith('ok '):
        if raised is not None and out.startswith('err ' + raised): chk.k_ok('spp:raises')
        else: chk.k_bad('spp', inp, 'raised %s' % raised, out, float('inf'))
        return
    bt, p1, g1, p2, g2, rh = out[3:].split(' ')
    c2 = rec['c2']
    want = [float(v) for v in common.parse_list(bt)] + [float(Fraction(t)) for t in (p1, g1, p2, g2)]
    if [float(v) for v in c2['params']] == want and float(c2['rho']) == float(Fraction(rh)) and c2['theta'] == theta and c2['sel'] == 'pdf':
        chk.k_ok('spp')
    else:
        chk.k_bad('spp', inp, dict(params=[float(v) for v in c2['params']], rho=float(c2['rho'])), out, float('inf'))

# ------------------------------------------------------------------ K: Vourlaki_mixture
def k_vourlaki(chk, drv, dadi, s1, s2, params, theta):
    P = dadi.DFE.PDFs
    alpha, beta, pw, gpos, pc, pcp = params
    ng = np.asarray(s2.neg_gammas, dtype=float); n = len(ng)
    inp = dict(op='DFE.Vourlaki_mixture', params=params, theta=theta, cache1=cache_desc(s1), cache2=cache_desc(s2))
    raised = None; impl = None
    with QuadSpy() as spy:
        try:
            impl = data_of(dadi.DFE.Vourlaki_mixture(params, None, s1, s2, theta, None))
        except Exception as e:
            raised = type(e).__name__
    gs = np.asarray(s2.gammas, dtype=float)
    ipos = np.nonzero(gs == gpos)[0]
    if len(ipos) == 0:
        if raised == 'IndexError': chk.k_ok('vourlaki:raises')
        else: chk.k_bad('vourlaki', inp, 'raised %s' % raised if raised else small(impl), 'IndexError', float('inf'))
        return
    if raised is not None:
        chk.k_bad('vourlaki', inp, 'raised ' + raised, 'a spectrum', float('inf')); return
    own = [c for c in spy.calls if c['kind'] == 'quad' and c['func'] is P.gamma and region_of(c['a'], c['b'], ng) is not None][-2:]
    cl = classify_1d(own, ng)
    if isinstance(cl, str):
        chk.k_bad('vourlaki', inp, cl, 'documented tails', float('inf')); return
    ip = int(ipos[0])
    sp = np.asarray(s2.spectra, dtype=float)
    m5 = data_of(s1.integrate([alpha, beta], None, P.gamma, 1, None)).ravel()
    m6 = data_of(s2.integrate([alpha, beta], None, P.biv_ind_gamma, 1, None, exterior_int=True)).ravel()
    wg = np.asarray(P.gamma(-ng, [alpha, beta]), dtype=float)
    if not finite(impl, m5, m6, wg, list(cl.values())):
        chk.k_skipped += 1; return
    out = drv.ask('c17.vk %s %s %s %s %s %s %s %s %s %s %s' % (
        rat(theta), fmt_list(params), fmt_list(ng), fmt_list(wg), rat(cl.get('N', 0.0)), rat(cl.get('D', 0.0)),
        rows(entries_1d(sp[ip, :n])), rows(entries_1d(sp[:n, ip])), fmt_list(sp[ip, ip].ravel()), fmt_list(m5), fmt_list(m6)))
    if not out.startswith('ok '):
        chk.k_bad('vourlaki', inp, small(impl), out[:200], float('inf')); return
    mod = parse_vals(out[3:])
    ok, err, scale = close(impl.ravel(), mod, rtol=RTOL)
    if ok: chk.k_ok('vourlaki')
    else: chk.k_bad('vourlaki', inp, small(impl), small(mod), err)

# ------------------------------------------------------------------ K: cache construction, job split, merge
def table_of(c, dim):
    """flattened list of None / 1-D arrays from a cache object's `spectra`"""
    sp = c.spectra
    out = []
    if dim == 1:
        for v in sp: out.append(None if v is None else data_of(v).ravel())
    else:
        for row in sp:
            for v in row: out.append(None if v is None else data_of(v).ravel())
    return out

def table_tok(tab):
    return ';'.join('_' if v is None else fmt_list(v) for v in tab) if tab else '-'

def parse_table(tok):
    return [None if t == '_' else np.array([float(v) for v in common.parse_list(t)]) for t in tok.split(';')] if tok != '-' else []

def tables_equal(a, b):
    if len(a) != len(b): return False
    for x, y in zip(a, b):
        if (x is None) != (y is None): return False
        if x is not None and not (x.shape == y.shape and close(x, y, rtol=RTOL)[0]): return False
    return True

def k_build(chk, drv, dadi, rng, dim, cpus, split=1, job=0, fault=None, n=None, extra=None):
    """multi-process construction under an arbitrary (simulated) completion order vs `assign` / `collect`"""
    n = int(rng.integers(1, 4)) if n is None else n
    extra = [2.5][:int(rng.integers(0, 2))] if extra is None else extra
    G = n + len(extra)
    gam = np.concatenate((-np.logspace(np.log10(40.), np.log10(0.05), n), extra))
    FAULT['at'] = None
    if fault is not None:
        FAULT['at'] = (gam[fault[0]], gam[fault[1]]) if dim == 2 else (gam[fault[0]], gam[fault[0]])
        FAULT['kind'] = 'raise'
    inp = dict(op='Cache%dD(multi-process, simulated schedule)' % dim, cpus=cpus, split_jobs=split, this_job_id=job, gammas=gam.tolist(),
               fault=fault)
    raised = None; c = None
    try:
        with FakeMP(rng) as f, quiet():
            try:
                if dim == 1:
                    c = dadi.DFE.Cache1D([1.3], [1, 2], demo1, [8], gamma_bounds=(0.05, 40.), gamma_pts=n, additional_gammas=extra, cpus=cpus)
                else:
                    c = dadi.DFE.Cache2D([1.3], [1, 2], demo2, [8], gamma_bounds=(0.05, 40.), gamma_pts=n, additional_gammas=extra, cpus=cpus,
                                         split_jobs=split, this_job_id=job)
            except Exception as e:
                raised = type(e).__name__
    finally:
        FAULT['at'] = None
    inp['schedule'] = [[int(v) for v in x[:dim]] for x in (f.order or [])]
    items = []
    for r in (f.results or []):
        if isinstance(r, BaseException): items.append('!')
        elif dim == 1: items.append('%d=%s' % (r[0], fmt_list(data_of(r[1]).ravel())))
        else: items.append('%d=%s' % (r[0] * G + r[1], fmt_list(data_of(r[2]).ravel())))
    N = G if dim == 1 else G * G
    tag = 'build%dD' % dim
    # every result must carry the index of the gamma (pair) it was computed for
    for r in (f.results or []):
        if isinstance(r, BaseException): continue
        want = data_of(demo1([1.3, gam[r[0]]], [1, 2], None)) if dim == 1 else data_of(demo2([1.3, gam[r[0]], gam[r[1]]], [1, 2], None))
        if not np.array_equal(data_of(r[-1]), want):
            chk.k_bad(tag + ':label', inp, 'result labelled %r is not the spectrum of that gamma' % (r[:dim],), 'spectrum of the labelled gamma', float('inf')); return
    out = drv.ask('c17.build %d %s' % (N, ';'.join(items) if items else '-'))
    if out.startswith('err '):
        if raised is not None: chk.k_ok(tag + ':error')
        else: chk.k_bad(tag, inp, 'returned a cache', out, float('inf'))
        return
    if raised is not None:
        # a table with holes and split_jobs == 1: numpy refuses the ragged array (ValueError)
        mt = parse_table(out[3:])
        if any(v is None for v in mt) and split == 1: chk.k_ok(tag + ':incomplete-raises')
        else: chk.k_bad(tag, inp, 'raised ' + raised, out[:200], float('inf'))
        return
    if tables_equal(table_of(c, dim), parse_table(out[3:])): chk.k_ok(tag)
    else: chk.k_bad(tag, inp, 'final table differs from assign(results)', out[:200], float('inf'))
    if dim == 2:
        jm = drv.ask('c17.jobs 1 %d %d %d' % (G, split, job))
        want = sorted((int(a), int(b)) for a, b in (t.split(':') for t in jm[3:].split(','))) if jm != 'ok -' else []
        got = sorted((int(x[0]), int(x[1])) for x in (f.order or []))
        if got == want: chk.k_ok('jobs:multi')
        else: chk.k_bad('jobs:multi', inp, got, want, float('inf'))

def k_jobs_single(chk, drv, dadi, G_neg, extra, split, job):
    inp = dict(op='Cache2D(single process)', gamma_pts=G_neg, additional_gammas=extra, split_jobs=split, this_job_id=job)
    c = dadi.DFE.Cache2D([1.3], [1, 1], demo2, [8], gamma_bounds=(0.05, 40.), gamma_pts=G_neg, additional_gammas=extra, cpus=1,
                         split_jobs=split, this_job_id=job)
    G = G_neg + len(extra)
    got = sorted((i, j) for i in range(G) for j in range(G) if c.spectra[i][j] is not None)
    jm = drv.ask('c17.jobs 0 %d %d %d' % (G, split, job))
    want = sorted((int(a), int(b)) for a, b in (t.split(':') for t in jm[3:].split(','))) if jm != 'ok -' else []
    if got == want: chk.k_ok('jobs:single')
    else: chk.k_bad('jobs:single', inp, got, want, float('inf'))
    return c

def k_merge(chk, drv, dadi, caches, desc):
    """caches: list of Cache2D objects (not modified)"""
    inp = dict(op='Cache2D.merge', jobs=desc)
    raised = None; m = None
    try:
        m = dadi.DFE.Cache2D.merge(caches)
    except Exception as e:
        raised = type(e).__name__ + ':' + ('conflict' if 'conflict' in str(e) else 'incomplete' if 'incomplete' in str(e) else str(e)[:40])
    tabs = [table_of(c, 2) for c in caches]
    N = len(tabs[0]) if tabs else 0
    out = drv.ask('c17.merge %d %s' % (N, '|'.join(table_tok(t) for t in tabs) if tabs else '-'))
    if out.startswith('err '):
        if raised is not None and out[4:].split(':')[0] == raised.split(':')[0]: chk.k_ok('merge:' + out[4:])
        else: chk.k_bad('merge', inp, raised or 'returned a cache', out, float('inf'))
        return
    if raised is not None:
        chk.k_bad('merge', inp, 'raised ' + raised, out[:200], float('inf')); return
    if tables_equal(table_of(m, 2), parse_table(out[3:])) and isinstance(m.spectra, np.ndarray): chk.k_ok('merge:ok')
    else: chk.k_bad('merge', inp, 'merged table differs', out[:200], float('inf'))

# ------------------------------------------------------------------ K: whole mixtures on real caches (components by the model)
def split_calls(calls, sel1):
    """quad calls of the 1-D component (integrand is the 1-D pdf itself) / everything else"""
    c1 = [c for c in calls if c['kind'] == 'quad' and c['func'] is sel1]
    c2 = [c for c in calls if not (c['kind'] == 'quad' and c['func'] is sel1)]
    return c1, c2

def k_mixfull(chk, drv, dadi, s1, s2, name1, sel1, name2, sel2, shared, rho, p2d, theta, ext):
    M = dadi.DFE.Cache2D_mod
    params = list(shared) + [rho, p2d]
    inp = dict(op='DFE.mixture(real caches)', pdf1=name1, pdf2=name2, params=params, theta=theta, exterior_int=ext,
               cache1=cache_desc(s1), cache2=cache_desc(s2))
    ng1 = np.asarray(s1.neg_gammas, dtype=float); n1 = len(ng1)
    with QuadSpy() as spy:
        try:
            impl = data_of(M.mixture(params, None, s1, s2, sel1, sel2, theta, None, ext))
        except Exception as e:
            chk.k_bad('mixfull', inp, 'raised %s: %s' % (type(e).__name__, e), 'a spectrum', float('inf')); return
    c1, c2 = split_calls(spy.calls, sel1)
    cl1 = classify_1d(c1, ng1)
    cl2 = classify_2d(c2, np.asarray(s2.neg_gammas, dtype=float), sel2, np.array(list(shared) + [rho]))
    if isinstance(cl1, str) or isinstance(cl2, str):
        chk.k_bad('mixfull', inp, cl1 if isinstance(cl1, str) else cl2, 'documented regions', float('inf')); return
    w1 = np.asarray(sel1(-ng1, list(shared)), dtype=float)
    tk2 = int2d_tokens(s2, sel2, list(shared) + [rho], cl2)
    if tk2 is None or not finite(w1, impl, list(cl1.values())):
        chk.k_skipped += 1; return
    n2 = len(s2.neg_gammas)
    S1 = np.asarray(s1.spectra, dtype=float)[:n1]; S2 = np.asarray(s2.spectra, dtype=float)[:n2, :n2]
    out = drv.ask('c17.mixfull %d %s %s %s %s %s %s %s %s %s %s' % (
        int(ext), rat(theta), rat(p2d), fmt_list(ng1), fmt_list(w1), rat(cl1.get('N', 0.0)), rat(cl1.get('D', 0.0)),
        fmt_list(np.asarray(s1.neu_spec, dtype=float).ravel()), rows(entries_1d(S1)), tk2, rows(entries_2d(S2))))
    if not out.startswith('ok '):
        chk.k_bad('mixfull', inp, small(impl), out[:200], float('inf')); return
    mod = parse_vals(out[3:])
    ok, err, scale = close(impl.ravel(), mod, rtol=RTOL)
    if ok: chk.k_ok('mixfull')
    else: chk.k_bad('mixfull', inp, small(impl), small(mod), err)

def k_mixptfull(chk, drv, dadi, s1, s2, name1, sel1, name2, sel2, shared, rho, pt, p2d, theta, symm):
    """pt = (ppos1, g1, ppos2, g2); symm: mixture_symmetric_point_pos (then only (ppos1, g1) is used)"""
    M = dadi.DFE.Cache2D_mod
    p1, g1, p2, g2 = pt
    if symm: p2, g2 = p1, g1
    params = list(shared) + ([rho, p1, g1, p2d] if symm else [rho, p1, g1, p2, g2, p2d])
    fname = 'mixture_symmetric_point_pos' if symm else 'mixture_point_pos'
    tag = 'mixsymfull' if symm else 'mixptfull'
    inp = dict(op='DFE.%s(real caches)' % fname, pdf1=name1, pdf2=name2, params=params, theta=theta, cache1=cache_desc(s1), cache2=cache_desc(s2))
    ng1 = np.asarray(s1.neg_gammas, dtype=float); n1 = len(ng1); ng2 = np.asarray(s2.neg_gammas, dtype=float)
    gs1 = np.asarray(s1.gammas, dtype=float).copy(); sp1 = np.asarray(s1.spectra, dtype=float).copy()
    impl = None; raised = None
    with QuadSpy() as spy:
        try:
            impl = data_of(getattr(M, fname)(params, None, s1, s2, sel1, sel2, theta))
        except Exception as e:
            raised = type(e).__name__
    c1, c2 = split_calls(spy.calls, sel1)
    cl1 = classify_1d(c1, ng1)
    biv = list(shared) + [rho]
    cl2 = classify_2d(c2, ng2, sel2, np.array(biv))
    if raised == 'IndexError' and (isinstance(cl1, str) or isinstance(cl2, str) or not c2):
        cl1 = cl1 if not isinstance(cl1, str) else {}
        cl2 = ({k: np.zeros(len(ng2)) for k in (('D', 'I'), ('N', 'I'), ('I', 'D'), ('I', 'N'))}, {})
    if isinstance(cl1, str) or isinstance(cl2, str):
        chk.k_bad(tag, inp, cl1 if isinstance(cl1, str) else cl2, 'documented regions', float('inf')); return
    w1 = np.asarray(sel1(-ng1, list(shared)), dtype=float)
    tk2 = int2d_tokens(s2, sel2, biv, cl2)
    if tk2 is None or not finite(w1, list(cl1.values())) or (impl is not None and not finite(impl)):
        chk.k_skipped += 1; return
    arg = drv.ask('c17.pp2prep %s %s' % (rat(p1), rat(p2)))
    a = Fraction(arg[3:])
    tab = '%s:%s' % (arg[3:], rat(math.sqrt(float(a)))) if a >= 0 else '-'
    out = drv.ask('c17.mixptfull %s %s %s %s %s %s %s %s %s %s %s %s %s %s %s %s %s %s %s %s %s' % (
        'sym' if symm else 'pt', rat(theta), rat(p2d), rat(p1), rat(g1), fmt_list(ng1), fmt_list(w1), rat(cl1.get('N', 0.0)), rat(cl1.get('D', 0.0)),
        fmt_list(np.asarray(s1.neu_spec, dtype=float).ravel()), fmt_list(gs1), rows(entries_1d(sp1)),
        rat(rho), rat(p1), rat(g1), rat(p2), rat(g2), tab, fmt_list(np.asarray(s2.gammas, dtype=float)), tk2,
        rows(entries_2d(np.asarray(s2.spectra, dtype=float)))))
    if raised is not None or not out.startswith('ok '):
        if raised is not None and out == 'err ' + raised: chk.k_ok(tag + ':raises')
        else: chk.k_bad(tag, inp, 'raised %s' % raised if raised else small(impl), out[:200], float('inf'))
        return
    mod = parse_vals(out[3:])
    ok, err, scale = close(impl.ravel(), mod, rtol=RTOL)
    if ok: chk.k_ok(tag)
    else: chk.k_bad(tag, inp, small(impl), small(mod), err)

# ------------------------------------------------------------------ K: compiled pdfs — layout, dispatch, Lanczos series
def _point_ln(x, y, m1, m2, s1, s2, r):
    dx = (math.log(x) - m1) / s1; dy = (math.log(y) - m2) / s2
    q = (dx * dx - 2 * r * dx * dy + dy * dy) / (1 - r * r)
    return math.exp(-q / 2) / (2 * math.pi * s1 * s2 * math.sqrt(1 - r * r) * x * y)

def _point_g(x, y, a1, a2, b1, b2):
    from scipy.special import gammaln
    f = lambda t, a, b: math.exp((a - 1) * math.log(t) - t / b - gammaln(a) - a * math.log(b))
    return f(x, a1, b1) * f(y, a2, b2)

def k_pdf_layout(chk, drv, dadi, which, xs, ys, params):
    """the compiled result on an xs-by-ys grid vs per-point values placed by the model's loops / index expression"""
    f = dadi.DFE.PDFs.biv_ind_gamma if which == 'g' else dadi.DFE.PDFs.biv_lognormal
    xx = np.logspace(-1, 1.2, xs) * 1.07; yy = np.logspace(-0.8, 1.5, ys) * 0.93
    inp = dict(op='PDFs.%s(layout)' % f.__name__, xx=xx.tolist(), yy=yy.tolist(), params=params)
    out = drv.ask('c17.pdflayout %s %d %d' % (which, xs, ys))
    if not out.startswith('ok '):
        chk.k_bad('pdf:layout', inp, 'model', out, float('inf')); return
    beyond, cells = out[3:].split(' ')
    if beyond != '0' or '_' in cells.split(','):
        # the model says the loops write outside the buffer / leave cells unwritten: do not run the real code on it
        chk.k_bad('pdf:layout', inp, 'not run', 'model: %s writes beyond the buffer, cells %s' % (beyond, cells[:80]), float('inf')); return
    pt = (lambda x, y: _point_g(x, y, *biv_params5('biv_ind_gamma', params))) if which == 'g' else \
         (lambda x, y: _point_ln(x, y, *biv_params5('biv_lognormal', params)))
    want = np.empty((xs, ys))
    for k, c in enumerate(cells.split(',')):
        ii, jj = [int(v) for v in c.split(':')]
        if ii >= xs or jj >= ys:
            chk.k_bad('pdf:layout', inp, 'not run', 'model reads xx[%d] / yy[%d] outside the inputs' % (ii, jj), float('inf')); return
        want[k // ys, k % ys] = pt(xx[ii], yy[jj])
    st, impl = isolated(f, xx, yy, params)
    if st != 'ok' or impl.size != xs * ys:
        chk.k_bad('pdf:layout', inp, '%s: %s' % (st, impl if st != 'ok' else 'shape %r' % (impl.shape,)), small(want), float('inf')); return
    impl = impl.reshape(xs, ys)
    e = pdf_mismatch(impl, want)
    if e <= 1e-9: chk.k_ok('pdf:layout:%s' % ('square' if xs == ys else 'rect'))
    else: chk.k_bad('pdf:layout', inp, small(impl), small(want), e)

def k_pdf_dispatch(chk, drv, dadi, which, L, rng):
    """parameter-count dispatch: compiled code and reference formula vs the translated tables"""
    P = dadi.DFE.PDFs
    f, fpy = (P.biv_ind_gamma, P.biv_ind_gamma_py) if which == 'g' else (P.biv_lognormal, P.biv_lognormal_py)
    if which == 'g': params = [float(r3(rng.uniform(0.4, 2.5))) for _ in range(L)]
    else: params = [float(r3(rng.uniform(0.3, 0.9))) for _ in range(L)]
    xx = np.array([0.3, 1.7]); yy = np.array([0.6, 2.2])
    inp = dict(op='PDFs.%s(dispatch)' % f.__name__, params=params, xx=xx.tolist(), yy=yy.tolist())
    for side, fn in (('c', f), ('py', fpy)):
        out = drv.ask('c17.pdfdispatch %s_%s %d' % (side, which, L))
        if not out.startswith('ok '):
            chk.k_bad('pdf:dispatch', inp, side, out, float('inf')); continue
        handled, items = out[3:].split(' ')
        tab = dict(it.split('=') for it in items.split(','))
        st, got = isolated(fn, xx, yy, params)
        raised = None
        if st == 'raised' and got.startswith('ValueError'): got = None; raised = 'ValueError'
        elif st != 'ok':
            chk.k_bad('pdf:dispatch', dict(inp, side=side), '%s: %s' % (st, got), out, float('inf')); continue
        if handled == '0':
            # reference: must raise; compiled: leaves its variables at 0 -> not a density (nan, inf or 0 everywhere)
            okk = (raised is not None) if side == 'py' else (got is not None and not np.any(np.isfinite(got) & (got > 0)))
            if okk: chk.k_ok('pdf:dispatch:%s:unhandled' % side)
            else: chk.k_bad('pdf:dispatch', dict(inp, side=side), 'returned a density' if got is not None else raised, 'length %d is not handled' % L, float('inf'))
            continue
        if raised is not None:
            chk.k_bad('pdf:dispatch', dict(inp, side=side), 'raised ' + raised, out, float('inf')); continue
        names = ['alpha1', 'alpha2', 'beta1', 'beta2'] if which == 'g' else ['mu1', 'mu2', 'sigma1', 'sigma2', 'rho']
        vals = [params[int(tab[nm])] if tab[nm] != '_' else 0.0 for nm in names]
        pt = _point_g if which == 'g' else _point_ln
        want = np.array([[pt(x, y, *vals) for y in yy] for x in xx])
        e = pdf_mismatch(got.reshape(want.shape), want)
        if e <= 1e-9: chk.k_ok('pdf:dispatch:%s:L=%d' % (side, L))
        else: chk.k_bad('pdf:dispatch', dict(inp, side=side, table=tab), small(got), small(want), e)

def k_lanczos(chk, drv, dadi, alpha):
    """gamma_func(alpha) as the compiled code uses it (recovered from one value of biv_ind_gamma) vs the translated
    Lanczos series evaluated exactly by the model (sqrt / pow / exp / sin applied here in floating point)"""
    P = dadi.DFE.PDFs
    x, b = 1.3, 2.0
    v = float(np.asarray(P.biv_ind_gamma(np.array([x]), np.array([x]), [alpha, b])).ravel()[0])
    inp = dict(op='PDFs.c gamma_func', alpha=alpha)
    marg = math.sqrt(v)                                  # x^(a-1) e^(-x/b) / (b^a G)
    G_impl = x ** (alpha - 1) * math.exp(-x / b) / (b ** alpha * marg)
    def main(z):
        out = drv.ask('c17.lanczos %s' % rat(z))
        if not out.startswith('ok '): return None, None
        xs, t, lim = out[3:].split(' ')
        xs = float(Fraction(xs)); t = float(Fraction(t))
        return math.sqrt(2 * math.pi) * t ** (z - 1 + 0.5) * math.exp(-t) * xs, float(Fraction(lim))
    y, lim = main(alpha)
    if y is None:
        chk.k_bad('pdf:lanczos', inp, G_impl, 'model', float('inf')); return
    if alpha < lim:
        y1, _ = main(1.0 - alpha)
        y = math.pi / (math.sin(math.pi * alpha) * y1)
    e = abs(G_impl - y) / abs(y)
    if e <= 1e-11: chk.k_ok('pdf:lanczos:%s' % ('reflection' if alpha < lim else 'main'))
    else: chk.k_bad('pdf:lanczos', inp, G_impl, y, e)

# ================================================================== L3: the property itself, on the real code
FUNCS = {'demo1': demo1, 'demo2': demo2, 'demo1_1pop': demo1_1pop, 'neutral1': neutral1, 'neutral2': neutral2}
_CACHE = {}

def spec_cache(kind, func, p0, ns, bounds, n, extra):
    return dict(kind=kind, func=func, p0=p0, ns=list(ns), bounds=[float(bounds[0]), float(bounds[1])], n=int(n), extra=[float(x) for x in extra])

def build_cache(dadi, sp, fresh=False):
    key = (id(dadi), sp['kind'], sp['func'], sp['p0'], tuple(sp['ns']), tuple(sp['bounds']), sp['n'], tuple(sp['extra']))
    if not fresh and key in _CACHE:
        return _CACHE[key]
    cls = dadi.DFE.Cache1D if sp['kind'] == '1d' else dadi.DFE.Cache2D
    c = cls([sp['p0']], list(sp['ns']), FUNCS[sp['func']], [8], gamma_bounds=tuple(sp['bounds']), gamma_pts=sp['n'],
            additional_gammas=list(sp['extra']), cpus=1)
    if not fresh:
        _CACHE[key] = c
    return c

def pdf_by_name(dadi, name):
    return getattr(dadi.DFE.PDFs, name)

def my_trapz(y, x):
    """explicit trapezoid rule over the first axis"""
    y = np.asarray(y, dtype=float)
    tot = np.zeros(y.shape[1:]) if y.ndim > 1 else 0.0
    for i in range(len(x) - 1):
        tot = tot + (x[i + 1] - x[i]) * (y[i + 1] + y[i]) / 2.0
    return tot

def masses_1d(name, params, lo, hi):
    """P(lo < X < hi) from the distribution functions (independent of scipy.integrate)"""
    import scipy.stats.distributions as ssd
    if name == 'exponential': d = ssd.expon(scale=params[0])
    elif name == 'gamma': d = ssd.gamma(params[0], scale=params[1])
    elif name == 'lognormal': d = ssd.lognorm(params[1], scale=np.exp(params[0]))
    elif name == 'beta': d = ssd.beta(params[0], params[1])
    else: raise KeyError(name)
    return float(d.cdf(hi) - d.cdf(lo)) if np.isfinite(hi) else float(d.sf(lo))

def relerr(a, b):
    a = np.asarray(a, dtype=float); b = np.asarray(b, dtype=float)
    if a.shape != b.shape or not np.all(np.isfinite(a)): return float('inf')
    s = float(np.max(np.abs(b))) or 1.0
    return float(np.max(np.abs(a - b))) / s

def masserr(a, b, scale):
    """max |a-b| in units of `scale` (= theta * max|spectrum|: what the result would be at total weight one)"""
    a = np.asarray(a, dtype=float); b = np.asarray(b, dtype=float)
    if a.shape != b.shape or not np.all(np.isfinite(a)): return float('inf')
    return float(np.max(np.abs(a - b))) / (scale or 1.0)

QTOL1 = 2e-5      # 1-D quad (default tolerances) vs distribution functions
QTOL2 = 4e-3      # 2-D: the code asks quad/dblquad for epsabs=1e-4, epsrel=1e-3

def o_int1d(chk, dadi, inp):
    c = build_cache(dadi, inp['cache']); sel = pdf_by_name(dadi, inp['pdf']); params = inp['params']; theta = inp['theta']; ext = inp['exterior_int']
    ng = np.asarray(c.neg_gammas, dtype=float); n = len(ng)
    S = np.asarray(c.spectra, dtype=float)[:n]
    w = np.asarray(sel(-ng, params), dtype=float)
    try:
        got = data_of(c.integrate(params, None, sel, theta, None, exterior_int=ext))
    except Exception as e:
        chk.fail('Cache1D.integrate:raises:%s' % type(e).__name__, 'Cache1D.integrate raised %s: %s' % (type(e).__name__, e), inp); return
    exp = my_trapz([w[i] * S[i] for i in range(n)], ng)
    wN = masses_1d(inp['pdf'], params, 0.0, -ng[-1]); wD = masses_1d(inp['pdf'], params, -ng[0], np.inf)
    if ext:
        exp = exp + wN * np.asarray(c.neu_spec, dtype=float) + wD * S[0]
    exp = theta * exp
    chk.l3(('int1d', inp['pdf'], ext, n))
    chk.stat('int1d:%s' % inp['pdf'])
    sc = abs(theta) * float(np.max(np.abs(S)))
    e = masserr(got, exp, sc)
    if e > QTOL1:
        which = ''
        if ext and masserr(got, exp - theta * wN * np.asarray(c.neu_spec, dtype=float), sc) <= QTOL1: which = ':neutral-tail-missing'
        elif ext and masserr(got, exp - theta * wD * S[0], sc) <= QTOL1: which = ':lethal-tail-missing'
        chk.fail('Cache1D.integrate:quadrature' + which, 'Cache1D.integrate differs from theta*(trapz(pdf*spectra) + tails): rel err %.3g' % e,
                 dict(inp, got=small(got), expected=small(exp)))
    # linear in theta
    g1 = data_of(c.integrate(params, None, sel, 1.0, None, exterior_int=ext))
    if relerr(got, theta * g1) > 1e-12:
        chk.fail('Cache1D.integrate:theta-linear', 'integrate(theta) != theta*integrate(1)', dict(inp, got=small(got), expected=small(theta * g1)))

def o_nosel1d(chk, dadi, inp):
    c = build_cache(dadi, inp['cache']); sel = pdf_by_name(dadi, inp['pdf']); params = inp['params']; theta = inp['theta']
    ng = np.asarray(c.neg_gammas, dtype=float)
    S0 = data_of(neutral1([inp['cache']['p0']], inp['cache']['ns'], None))
    got = data_of(c.integrate(params, None, sel, theta, None))
    W = my_trapz(np.asarray(sel(-ng, params), dtype=float), ng) + masses_1d(inp['pdf'], params, 0.0, -ng[-1]) + masses_1d(inp['pdf'], params, -ng[0], np.inf)
    chk.l3(('nosel1d', inp['pdf'], len(ng)))
    e = masserr(got, theta * W * S0, abs(theta) * float(np.max(np.abs(S0))))
    if e > QTOL1:
        chk.fail('Cache1D.integrate:no-selection', 'with selection-neutral spectra the result is not theta*S0*(total weight): rel err %.3g' % e,
                 dict(inp, got=small(got), expected=small(theta * W * S0), total_weight=W))
    if inp.get('fine'):
        chk.stat('nosel1d:|W-1|<=%g' % (0.001 if abs(W - 1) <= 0.001 else 0.01 if abs(W - 1) <= 0.01 else 0.05 if abs(W - 1) <= 0.05 else 1))
        if abs(W - 1) > 0.05:
            chk.fail('Cache1D.integrate:total-weight', 'total quadrature weight %.4f is not one up to quadrature error on a fine grid' % W, dict(inp, total_weight=W))

def o_pp1(chk, dadi, inp):
    c = build_cache(dadi, inp['cache'], fresh=True); sel = pdf_by_name(dadi, inp['pdf']); theta = inp['theta']
    pdfp = inp['pdf_params']; pp = inp['point_masses']; demo = FUNCS[inp['demo']] if inp.get('demo') else None
    params = list(pdfp) + [v for pr in pp for v in pr]
    gs0 = [float(g) for g in c.gammas]
    S0 = np.asarray(c.spectra, dtype=float).copy()
    cont = data_of(c.integrate(pdfp, None, sel, theta, None))
    exp = (1 - sum(p for p, _ in pp)) * cont
    for p, g in pp:
        if g in gs0: s = np.asarray(c.spectra, dtype=float)[gs0.index(g)]
        elif demo is not None: s = data_of(demo(tuple(c.params) + (g,), c.ns, c.pts))
        else: s = None
        if s is None: exp = None; break
        exp = exp + p * theta * s
    chk.l3(('pp1', len(pp), exp is None, demo is not None, tuple(g in gs0 for _, g in pp)))
    try:
        got = data_of(c.integrate_point_pos(params, None, sel, theta, demo_sel_func=demo, Npos=len(pp)))
    except IndexError:
        if exp is not None:
            chk.fail('Cache1D.integrate_point_pos:raises:IndexError', 'IndexError although every gamma is cached or computable', inp)
        return
    except Exception as e:
        chk.fail('Cache1D.integrate_point_pos:raises:%s' % type(e).__name__, '%s: %s' % (type(e).__name__, e), inp); return
    if exp is None:
        chk.fail('Cache1D.integrate_point_pos:uncached-not-reported', 'an uncached gamma without demo_sel_func did not raise', inp); return
    e = relerr(got, exp)
    if e > 1e-9:
        cached = [g for _, g in pp if g in gs0]
        chk.fail('Cache1D.integrate_point_pos:theta' if cached and theta != 1 else 'Cache1D.integrate_point_pos:weights',
                 'integrate_point_pos differs from (1-sum ppos)*integrate + sum ppos*theta*spectrum(gammapos): rel err %.3g '
                 '(not linear in theta for a cached positive gamma)' % e, dict(inp, got=small(got), expected=small(exp)))
        return
    # what was stored for gammas computed on the fly must be the spectrum itself; a second call with another theta must scale
    for p, g in pp:
        if g not in gs0 and demo is not None:
            gs1 = [float(x) for x in c.gammas]
            if g not in gs1:
                continue        # where (and whether) an on-the-fly spectrum is kept is the cache's business; the repeated call below judges the effect
            st = np.asarray(c.spectra, dtype=float)[gs1.index(g)]
            want = data_of(demo(tuple(c.params) + (g,), c.ns, c.pts))
            if relerr(st, want) > 1e-12:
                chk.fail('Cache1D.integrate_point_pos:on-the-fly-stored-scaled',
                         'the spectrum cached for a gamma computed on the fly is multiplied by the theta of that call (ratio %.6g)' % float(np.mean(st / want)),
                         dict(inp, stored=small(st), expected=small(want)))
                return
    th2 = inp.get('theta2')
    if th2 is None and demo is not None and any(g not in gs0 for _, g in pp):
        th2 = theta             # after an on-the-fly gamma the same call must give the same answer (nothing precomputed was disturbed)
    if th2 is not None:
        got2 = data_of(c.integrate_point_pos(params, None, sel, th2, demo_sel_func=demo, Npos=len(pp)))
        if relerr(got2, exp * (th2 / theta)) > 1e-9:
            chk.fail('Cache1D.integrate_point_pos:theta', 'second call with theta=%g is not theta2/theta1 times the first' % th2,
                     dict(inp, got=small(got2), expected=small(exp * (th2 / theta))))
    # computing a spectrum on the fly must leave everything that was cached before usable: the continuous part, and a point mass at a
    # gamma that was cached up front (through the API; where the cache keeps things is its own business)
    if demo is not None and any(g not in gs0 for _, g in pp):
        chk.l3(('pp1:after-on-the-fly', len(pp)))
        try:
            cont2 = data_of(c.integrate(pdfp, None, sel, theta, None))
            if relerr(cont2, cont) > 1e-12:
                chk.fail('Cache1D.integrate:after-on-the-fly', 'Cache1D.integrate changes after integrate_point_pos computed the spectrum of gamma=%s on the fly (rel err %.3g)'
                         % ([g for _, g in pp if g not in gs0], relerr(cont2, cont)), dict(inp, got=small(cont2), expected=small(cont))); return
            for g in [g for g in gs0 if g > 0][-1:]:
                got3 = data_of(c.integrate_point_pos(list(pdfp) + [0.5, g], None, sel, theta, demo_sel_func=None, Npos=1))
                exp3 = 0.5 * cont + 0.5 * theta * S0[gs0.index(g)]
                if relerr(got3, exp3) > 1e-9:
                    chk.fail('Cache1D.integrate_point_pos:after-on-the-fly', 'a point mass at gamma=%g, cached up front, gives a different spectrum after another gamma was computed on the fly (rel err %.3g)'
                             % (g, relerr(got3, exp3)), dict(inp, got=small(got3), expected=small(exp3))); return
        except Exception as e:
            chk.fail('Cache1D.integrate_point_pos:after-on-the-fly:%s' % type(e).__name__, '%s: %s' % (type(e).__name__, e), inp)

# ------------------------------------------------------------------ 2-D region masses from distribution functions
def _norm_cdf(z):
    from scipy.special import ndtr
    return ndtr(z)

def biv_params5(name, params):
    if name == 'biv_lognormal':
        if len(params) == 3: mu, s, r = params; return mu, mu, s, s, r
        return tuple(params)
    if len(params) in (2, 3): return params[0], params[0], params[1], params[1]
    return tuple(params[:4])

def edge_mass(name, params, which, lo, hi, g):
    """∫_{lo}^{hi} pdf(x, g) dx (which = 1: first argument integrated) or ∫ pdf(g, y) dy (which = 2)"""
    import scipy.stats.distributions as ssd
    if name == 'biv_lognormal':
        m1, m2, s1, s2, r = biv_params5(name, params)
        if which == 2: m1, m2, s1, s2 = m2, m1, s2, s1          # integrate the other coordinate
        ly = math.log(g)
        fy = float(ssd.lognorm.pdf(g, s2, scale=math.exp(m2)))
        cm = m1 + r * s1 / s2 * (ly - m2); cs = s1 * math.sqrt(1 - r * r)
        a = _norm_cdf((math.log(lo) - cm) / cs) if lo > 0 else 0.0
        b = _norm_cdf((math.log(hi) - cm) / cs) if np.isfinite(hi) else 1.0
        return fy * float(b - a)
    a1, a2, b1, b2 = biv_params5(name, params)
    if which == 2: a1, a2, b1, b2 = a2, a1, b2, b1
    fy = float(ssd.gamma.pdf(g, a2, scale=b2))
    d = ssd.gamma(a1, scale=b1)
    return fy * (float(d.cdf(hi) - d.cdf(lo)) if np.isfinite(hi) else float(d.sf(lo)))

def corner_mass(name, params, r1, r2):
    """P(X in r1, Y in r2), r = (lo, hi)"""
    import scipy.stats.distributions as ssd
    if name == 'biv_ind_gamma':
        a1, a2, b1, b2 = biv_params5(name, params)
        def m(a, b, r):
            d = ssd.gamma(a, scale=b)
            return float(d.cdf(r[1]) - d.cdf(r[0])) if np.isfinite(r[1]) else float(d.sf(r[0]))
        return m(a1, b1, r1) * m(a2, b2, r2)
    from scipy.stats import multivariate_normal
    m1, m2, s1, s2, r = biv_params5(name, params)
    def z(v, m, s):
        return -40.0 if v <= 0 else (40.0 if not np.isfinite(v) else max(-40.0, min(40.0, (math.log(v) - m) / s)))
    mvn = multivariate_normal(mean=[0, 0], cov=[[1, r], [r, 1]])
    def F(a, b):
        if a <= -40 or b <= -40: return 0.0
        return float(mvn.cdf([a, b]))
    x0, x1, y0, y1 = z(r1[0], m1, s1), z(r1[1], m1, s1), z(r2[0], m2, s2), z(r2[1], m2, s2)
    return F(x1, y1) - F(x0, y1) - F(x1, y0) + F(x0, y0)

def region_masses(name, params, ng, sel=None):
    """masses of the eight exterior regions: edges as vectors over the grid, corners as numbers.
    sel=None: from distribution functions; else with scipy quad/dblquad called as the documentation of the method says
    (epsabs=1e-4, epsrel=1e-3), general (non-symmetric) path."""
    import scipy.integrate as si
    n = len(ng); gam = -ng
    N = (0.0, gam[-1]); D = (gam[0], np.inf)
    out = {}
    p = np.array(params)
    for key, which, R in (('edge(I,D)', 2, D), ('edge(I,N)', 2, N), ('edge(D,I)', 1, D), ('edge(N,I)', 1, N)):
        if sel is None:
            out[key] = np.array([edge_mass(name, params, which, R[0], R[1], gam[k]) for k in range(n)])
        elif which == 1:
            out[key] = np.array([si.quad(sel, R[0], R[1], epsabs=1e-4, epsrel=1e-3, args=(gam[k], p))[0] for k in range(n)])
        else:
            out[key] = np.array([si.quad(lambda y, g=gam[k]: sel(g, y, p), R[0], R[1], epsabs=1e-4, epsrel=1e-3)[0] for k in range(n)])
    for key, R1, R2 in (('corner(N,N)', N, N), ('corner(D,N)', D, N), ('corner(N,D)', N, D), ('corner(D,D)', D, D)):
        if sel is None:
            out[key] = corner_mass(name, params, R1, R2)
        else:   # dblquad(f, a, b, g, h): f(y, x), x in (a, b) outer, y in (g, h) inner; sel(first, second): first = inner
            out[key] = si.dblquad(sel, R2[0], R2[1], lambda _: R1[0], lambda _: R1[1], epsrel=1e-3, epsabs=1e-4, args=[p])[0]
    return out

def nine_regions(ng, S, w, M):
    """the documented quadrature written out: interior + 4 edges + 4 corners; returns (total, dict of contributions)"""
    n = len(ng)
    parts = {}
    parts['interior'] = my_trapz([my_trapz([w[i, j] * S[i, j] for i in range(n)], ng) for j in range(n)], ng)
    parts['edge(I,D)'] = my_trapz([S[k, 0] * M['edge(I,D)'][k] for k in range(n)], ng)
    parts['edge(I,N)'] = my_trapz([S[k, n - 1] * M['edge(I,N)'][k] for k in range(n)], ng)
    parts['edge(D,I)'] = my_trapz([S[0, k] * M['edge(D,I)'][k] for k in range(n)], ng)
    parts['edge(N,I)'] = my_trapz([S[n - 1, k] * M['edge(N,I)'][k] for k in range(n)], ng)
    parts['corner(N,N)'] = S[n - 1, n - 1] * M['corner(N,N)']
    parts['corner(D,N)'] = S[0, n - 1] * M['corner(D,N)']
    parts['corner(N,D)'] = S[n - 1, 0] * M['corner(N,D)']
    parts['corner(D,D)'] = S[0, 0] * M['corner(D,D)']
    return sum(parts.values()), parts

def well_conditioned(chk, name, params, ng, sel, what):
    """The documented integrator (scipy quad/dblquad at the requested accuracy) must itself be accurate on this case,
    otherwise nothing can be asserted about "the tail masses": such cases are counted and skipped."""
    Mc = region_masses(name, params, ng)
    Mq = region_masses(name, params, ng, sel)
    ones = np.ones((len(ng), len(ng)))
    z = np.zeros((len(ng), len(ng)))
    a, pa = nine_regions(ng, ones, z, Mc); b, pb = nine_regions(ng, ones, z, Mq)
    bad = sum(abs(pa[k] - pb[k]) for k in pa)
    if not np.isfinite(bad) or bad > 2e-3:
        chk.stat('%s:skipped(scipy quad off by %s)' % (what, '>1e-2' if bad > 1e-2 else '>2e-3'))
        return None
    chk.stat('%s:well-conditioned' % what)
    return Mc

def o_int2d(chk, dadi, inp):
    c = build_cache(dadi, inp['cache']); sel = pdf_by_name(dadi, inp['pdf']); params = inp['params']; theta = inp['theta']; ext = inp['exterior_int']
    ng = np.asarray(c.neg_gammas, dtype=float); n = len(ng)
    S = np.asarray(c.spectra, dtype=float)[:n, :n]
    w = np.asarray(sel(-ng, -ng, np.array(params)), dtype=float).reshape(n, n)
    try:
        got = data_of(c.integrate(params, None, sel, theta, None, exterior_int=ext))
    except Exception as e:
        chk.fail('Cache2D.integrate:raises:%s' % type(e).__name__, '%s: %s' % (type(e).__name__, e), inp); return
    M = well_conditioned(chk, inp['pdf'], params, ng, sel, 'int2d') if ext else region_masses(inp['pdf'], params, ng)
    if M is None:
        return
    tot, parts = nine_regions(ng, S, w, M)
    exp = theta * (tot if ext else parts['interior'])
    chk.l3(('int2d', inp['pdf'], len(params), ext, n))
    chk.stat('int2d:%s' % inp['pdf'])
    tol = QTOL2 if ext else 1e-9
    sc = abs(theta) * float(np.max(np.abs(S))) if ext else float(np.max(np.abs(exp)))
    e = masserr(got, exp, sc)
    if e > tol:
        key = 'Cache2D.integrate:quadrature'
        if ext:      # which single exterior contribution, if left out, explains the result best
            cand = sorted((masserr(got, exp - theta * v, sc), nm) for nm, v in parts.items() if nm != 'interior')
            if cand and cand[0][0] <= tol:
                key += ':%s-missing' % cand[0][1]
        chk.fail(key, 'Cache2D.integrate differs from theta*(interior double trapezoid + 4 edges + 4 corners): rel err %.3g' % e,
                 dict(inp, got=small(got), expected=small(exp), contributions={k: small(v, 2) for k, v in parts.items()}))
    g1 = data_of(c.integrate(params, None, sel, 1.0, None, exterior_int=ext))
    if relerr(got, theta * g1) > 1e-12:
        chk.fail('Cache2D.integrate:theta-linear', 'integrate(theta) != theta*integrate(1)', dict(inp, got=small(got), expected=small(theta * g1)))
    # one cache object used for two DFE families from the same parameter vector (as when comparing families from one starting point): the
    # result for this pdf must not depend on another pdf having been integrated on the same cache before with the same numbers
    if ext and len(params) == 3 and inp['pdf'] in ('biv_lognormal', 'biv_ind_gamma'):
        other = 'biv_ind_gamma' if inp['pdf'] == 'biv_lognormal' else 'biv_lognormal'
        import copy
        c3 = build_cache(dadi, inp['cache'], fresh=True); c2 = copy.deepcopy(c3)      # two cache objects nothing has been integrated on yet
        try:
            got = data_of(c3.integrate(params, None, sel, theta, None, exterior_int=ext))
            with np.errstate(all='ignore'):
                c2.integrate(params, None, pdf_by_name(dadi, other), theta, None, exterior_int=ext)
        except Exception:
            chk.stat('int2d:sequence:other-pdf-raises')
        else:
            chk.l3(('int2d:sequence', inp['pdf'], n))
            try:
                gb = data_of(c2.integrate(params, None, sel, theta, None, exterior_int=ext))
            except Exception as e:
                chk.fail('Cache2D.integrate:sequence:%s' % type(e).__name__, 'integrate raises %r after another pdf was integrated on the same cache' % (e,), inp); return
            if relerr(gb, got) > 1e-12:
                chk.fail('Cache2D.integrate:sequence', 'Cache2D.integrate(%s) after %s with the same parameter vector on the same cache differs from the '
                         'same call on a fresh cache: rel err %.3g' % (inp['pdf'], other, relerr(gb, got)), dict(inp, after=other, got=small(gb), expected=small(got)))

def o_nosel2d(chk, dadi, inp):
    c = build_cache(dadi, inp['cache']); sel = pdf_by_name(dadi, inp['pdf']); params = inp['params']; theta = inp['theta']
    ng = np.asarray(c.neg_gammas, dtype=float); n = len(ng)
    S0 = data_of(neutral2([inp['cache']['p0']], inp['cache']['ns'], None))
    got = data_of(c.integrate(params, None, sel, theta, None))
    w = np.asarray(sel(-ng, -ng, np.array(params)), dtype=float).reshape(n, n)
    M = well_conditioned(chk, inp['pdf'], params, ng, sel, 'nosel2d')
    if M is None:
        return
    W, parts = nine_regions(ng, np.ones((n, n)), w, M)
    Wimpl = float(np.mean(got / (theta * S0)))
    chk.l3(('nosel2d', inp['pdf'], len(params), n, round(parts['corner(D,D)'], 1)))
    chk.stat('nosel2d:lethal-corner-mass>%g' % (0.1 if parts['corner(D,D)'] > 0.1 else 0.01 if parts['corner(D,D)'] > 0.01 else 0))
    e = masserr(got, theta * W * S0, abs(theta) * float(np.max(np.abs(S0))))
    if e > QTOL2:
        key = 'Cache2D.integrate:no-selection'
        if abs(Wimpl + parts['corner(D,D)'] - W) <= QTOL2: key += ':(lethal,lethal)-corner-missing'
        chk.fail(key, 'with selection-neutral spectra the result is theta*S0*%.4f, the total weight of the nine regions is %.4f '
                 '(mass beyond the grid in both coordinates: %.4f)' % (Wimpl, W, parts['corner(D,D)']),
                 dict(inp, got=small(got), expected=small(theta * W * S0), total_weight_impl=Wimpl, total_weight=W, contributions=parts))
    if inp.get('fine'):
        chk.stat('nosel2d:|W-1|<=%g' % (0.01 if abs(W - 1) <= 0.01 else 0.05 if abs(W - 1) <= 0.05 else 1))
        if abs(W - 1) > 0.05:
            chk.fail('Cache2D.integrate:total-weight', 'total quadrature weight %.4f is not one up to quadrature error on the default grid' % W, dict(inp, total_weight=W))

def quadrant_weights(p1, p2, rho):
    """docstring of Cache2D.integrate_point_pos"""
    s = math.sqrt(p1 * p2)
    return (p1 * p2 + rho * (s - p1 * p2), (1 - rho) * p1 * (1 - p2), (1 - rho) * (1 - p1) * p2,
            (1 - p1) * (1 - p2) + rho * (1 - s - (1 - p1) * (1 - p2)))

def expected_pp2(c, sel, biv, p1, g1, p2, g2, rho, theta):
    ng = np.asarray(c.neg_gammas, dtype=float); n = len(ng)
    gs = [float(g) for g in c.gammas]
    if g1 not in gs or g2 not in gs:
        return None
    i1, i2 = gs.index(g1), gs.index(g2)
    sp = np.asarray(c.spectra, dtype=float)
    w = np.asarray(sel(-ng, -ng, np.array(biv)), dtype=float).reshape(n, n)
    marg2 = [my_trapz(w[:, j], ng) for j in range(n)]        # pdf of gamma2, gamma1 integrated out
    marg1 = [my_trapz(w[i, :], ng) for i in range(n)]
    pos_neg = my_trapz([marg2[j] * sp[i1, j] for j in range(n)], ng)
    neg_pos = my_trapz([marg1[i] * sp[i, i2] for i in range(n)], ng)
    neg_neg = data_of(c.integrate(biv, None, sel, 1.0, None))
    a, b, cc, d = quadrant_weights(p1, p2, rho)
    return theta * (a * sp[i1, i2] + b * pos_neg + cc * neg_pos + d * neg_neg)

def o_pp2(chk, dadi, inp):
    c = build_cache(dadi, inp['cache']); sel = pdf_by_name(dadi, inp['pdf']); theta = inp['theta']
    biv = inp['biv_params']; p1, g1, p2, g2 = inp['point']; rho = inp['rho']
    exp = expected_pp2(c, sel, biv, p1, g1, p2, g2, rho, theta)
    chk.l3(('pp2', inp['pdf'], inp.get('symmetric', False), exp is None, rho == 0))
    try:
        if inp.get('symmetric'):
            got = data_of(c.integrate_symmetric_point_pos(list(biv) + [p1, g1], None, sel, theta))
        else:
            got = data_of(c.integrate_point_pos(list(biv) + [p1, g1, p2, g2], None, sel, theta, rho=rho))
    except IndexError:
        if exp is not None: chk.fail('Cache2D.integrate_point_pos:raises:IndexError', 'IndexError although both gammas are cached', inp)
        return
    except Exception as e:
        chk.fail('Cache2D.integrate_point_pos:raises:%s' % type(e).__name__, '%s: %s' % (type(e).__name__, e), inp); return
    if exp is None:
        chk.fail('Cache2D.integrate_point_pos:uncached-not-reported', 'a gamma that is not cached did not raise IndexError', inp); return
    e = relerr(got, exp)
    if e > 1e-9:
        chk.fail('Cache2D.integrate%s_point_pos:weights' % ('_symmetric' if inp.get('symmetric') else ''),
                 'differs from theta*(p++ S[g1,g2] + p+- marginal + p-+ marginal + p-- integrate(theta=1)): rel err %.3g' % e,
                 dict(inp, got=small(got), expected=small(exp)))

def o_mix(chk, dadi, inp):
    """documented meaning of the parameter vector of the three mixtures"""
    s1 = build_cache(dadi, inp['cache1']); s2 = build_cache(dadi, inp['cache2']); P = dadi.DFE.PDFs
    sd1 = pdf_by_name(dadi, inp['pdf1']); sd2 = pdf_by_name(dadi, inp['pdf2'])
    kind = inp['kind']; sh = inp['shared']; theta = inp['theta']; rho = inp['rho']; p2d = inp['p2d']
    M = dadi.DFE.Cache2D_mod
    try:
        if kind == 'mix':
            params = list(sh) + [rho, p2d]
            ext = bool(inp.get('exterior_int', True))
            exp = (1 - p2d) * data_of(s1.integrate(sh, None, sd1, theta, None, exterior_int=ext)) + \
                p2d * data_of(s2.integrate(list(sh) + [rho], None, sd2, theta, None, exterior_int=ext))
            call = (lambda: M.mixture(params, None, s1, s2, sd1, sd2, theta, None, ext)) if 'exterior_int' in inp else \
                (lambda: M.mixture(params, None, s1, s2, sd1, sd2, theta, None))
        elif kind == 'mixsym':
            pp, g = inp['point'][:2]
            params = list(sh) + [rho, pp, g, p2d]
            exp = (1 - p2d) * data_of(s1.integrate_point_pos(list(sh) + [pp, g], None, sd1, theta)) + \
                p2d * data_of(s2.integrate_symmetric_point_pos(list(sh) + [rho, pp, g], None, sd2, theta))
            call = lambda: M.mixture_symmetric_point_pos(params, None, s1, s2, sd1, sd2, theta)
        else:
            p1, g1, p2, g2 = inp['point']
            params = list(sh) + [rho, p1, g1, p2, g2, p2d]
            exp = (1 - p2d) * data_of(s1.integrate_point_pos(list(sh) + [p1, g1], None, sd1, theta)) + \
                p2d * data_of(s2.integrate_point_pos(list(sh) + [rho, p1, g1, p2, g2], None, sd2, theta, rho=rho))
            call = lambda: M.mixture_point_pos(params, None, s1, s2, sd1, sd2, theta)
    except Exception as e:
        chk.notes.append('o_mix: component raised %r on %r' % (e, inp)); return
    fname = MIX[kind][0]
    chk.l3(('mix', kind, p2d in (0.0, 1.0), rho == 0, inp.get('exterior_int')))
    try:
        got = data_of(call())
    except Exception as e:
        chk.fail('%s:raises:%s' % (fname, type(e).__name__), 'DFE.%s raised %s: %s' % (fname, type(e).__name__, e), dict(inp, params=params)); return
    e = relerr(got, exp)
    if e > 1e-9:
        chk.fail('%s:weights' % fname, 'DFE.%s differs from (1-p2d)*[1-D component] + p2d*[2-D component] with the documented parameter meaning: rel err %.3g%s'
                 % (fname, e, ' (result is not finite)' if not np.all(np.isfinite(got)) else ''), dict(inp, params=params, got=small(got), expected=small(exp)))

def o_vourlaki(chk, dadi, inp):
    s1 = build_cache(dadi, inp['cache1']); s2 = build_cache(dadi, inp['cache2']); P = dadi.DFE.PDFs
    alpha, beta, pw, gpos, pc, pcp = inp['params']; theta = inp['theta']
    ng = np.asarray(s2.neg_gammas, dtype=float); n = len(ng); gs = [float(g) for g in s2.gammas]
    chk.l3(('vourlaki', gpos in gs))
    try:
        got = data_of(dadi.DFE.Vourlaki_mixture(inp['params'], None, s1, s2, theta, None))
    except IndexError:
        if gpos in gs: chk.fail('Vourlaki_mixture:raises:IndexError', 'IndexError although gamma_pos is cached', inp)
        return
    except Exception as e:
        chk.fail('Vourlaki_mixture:raises:%s' % type(e).__name__, '%s: %s' % (type(e).__name__, e), inp); return
    if gpos not in gs:
        chk.fail('Vourlaki_mixture:uncached-not-reported', 'gamma_pos is not cached but no IndexError', inp); return
    ip = gs.index(gpos); sp = np.asarray(s2.spectra, dtype=float)
    m5 = data_of(s1.integrate([alpha, beta], None, P.gamma, 1, None)); m6 = data_of(s2.integrate([alpha, beta], None, P.biv_ind_gamma, 1, None))
    m2 = sp[ip, ip]
    wg = np.asarray(P.gamma(-ng, [alpha, beta]), dtype=float)
    wN = masses_1d('gamma', [alpha, beta], 0.0, -ng[-1]); wD = masses_1d('gamma', [alpha, beta], -ng[0], np.inf)
    m4 = my_trapz([wg[k] * sp[ip, k] for k in range(n)], ng) + sp[ip, 0] * wD + sp[ip, n - 1] * wN      # pop1 positive, pop2 negative
    m7 = my_trapz([wg[k] * sp[k, ip] for k in range(n)], ng) + sp[0, ip] * wD + sp[n - 1, ip] * wN
    exp = theta * (m5 * (1 - pw) * (1 - pc) + m6 * (1 - pw) * pc * (1 - pcp) + m7 * (1 - pw) * pc * pcp
                   + m2 * pw * (1 - pc) + m2 * pw * pc * pcp + m4 * pw * pc * (1 - pcp))
    e = relerr(got, exp)
    if e > QTOL1:
        chk.fail('Vourlaki_mixture:weights', 'differs from the six-component mixture of the docstring: rel err %.3g' % e, dict(inp, got=small(got), expected=small(exp)))
    g1 = data_of(dadi.DFE.Vourlaki_mixture(inp['params'], None, s1, s2, 1.0, None))
    if relerr(got, theta * g1) > 1e-12:
        chk.fail('Vourlaki_mixture:theta-linear', 'not linear in theta', inp)

# ------------------------------------------------------------------ cache construction on real processes, split / merge, faults
def grid(n, extra):
    return np.concatenate((-np.logspace(np.log10(40.), np.log10(0.05), n), extra))

def build_real(dadi, dim, n, extra, cpus, split=1, job=0, func=None):
    with quiet():
        if dim == 1:
            return dadi.DFE.Cache1D([1.3], [1, 2], func or demo1, [8], gamma_bounds=(0.05, 40.), gamma_pts=n, additional_gammas=list(extra), cpus=cpus)
        return dadi.DFE.Cache2D([1.3], [1, 2], func or demo2, [8], gamma_bounds=(0.05, 40.), gamma_pts=n, additional_gammas=list(extra), cpus=cpus,
                                split_jobs=split, this_job_id=job)

def o_procs(chk, dadi, inp):
    """same spectra whether built by one process or many"""
    dim, n, extra, cpus = inp['dim'], inp['n'], inp['extra'], inp['cpus']
    ref = build_real(dadi, dim, n, extra, 1)
    chk.l3(('procs', dim, cpus, n + len(extra)))
    try:
        c = build_real(dadi, dim, n, extra, cpus)
    except Exception as e:
        chk.fail('Cache%dD:multi-process:raises:%s' % (dim, type(e).__name__), 'construction with cpus=%d raised %s: %s' % (cpus, type(e).__name__, e), inp); return
    a, b = np.asarray(ref.spectra, dtype=float), c.spectra
    if not isinstance(b, np.ndarray) or b.shape != a.shape or not np.array_equal(a, np.asarray(b, dtype=float)):
        chk.fail('Cache%dD:multi-process:differs' % dim, 'cache built with cpus=%d differs from the single-process cache' % cpus, inp)
    if dim == 1 and not np.array_equal(np.asarray(ref.neu_spec), np.asarray(c.neu_spec)):
        chk.fail('Cache1D:multi-process:neu_spec', 'neutral spectrum differs', inp)

def o_fault(chk, dadi, inp):
    """a worker raising on one gamma must make the construction fail (whatever the worker count / split)"""
    dim, n, extra, cpus, at = inp['dim'], inp['n'], inp['extra'], inp['cpus'], inp['at']
    split, job = inp.get('split', 1), inp.get('job', 0)
    gam = grid(n, extra)
    FAULT['at'] = (gam[at[0]], gam[at[1]]) if dim == 2 else (gam[at[0]], gam[at[0]]); FAULT['kind'] = 'raise'
    G = len(gam)
    owned = dim == 1 or ((at[0] * G + at[1]) % split == job)
    chk.l3(('fault', dim, cpus, split, owned))
    try:
        try:
            c = build_real(dadi, dim, n, extra, cpus, split, job)
        finally:
            FAULT['at'] = None
    except BaseException as e:
        if isinstance(e, (KeyboardInterrupt, SystemExit)): raise
        if not owned:
            chk.fail('Cache2D:split:foreign-failure', 'a job failed on a gamma pair that belongs to another job', inp)
        return
    if owned:
        chk.fail('Cache%dD:worker-failure-absorbed' % dim, 'a demo function raising at gamma index %r did not make the construction fail (cpus=%d, split_jobs=%d)'
                 % (at, cpus, split), inp)

def o_split(chk, dadi, inp):
    """split_jobs construction + merge == single job; job ids partition the table"""
    n, extra, s, cpus, order = inp['n'], inp['extra'], inp['split'], inp['cpus'], inp['order']
    ref = build_real(dadi, 2, n, extra, 1)
    G = n + len(extra)
    jobs = [build_real(dadi, 2, n, extra, cpus, s, j) for j in range(s)]
    chk.l3(('split', s, cpus, G))
    count = np.zeros((G, G), dtype=int)
    for jc in jobs:
        for i in range(G):
            for j in range(G):
                if jc.spectra[i][j] is not None: count[i, j] += 1
    if not np.all(count == 1):
        chk.fail('Cache2D:split:not-a-partition', 'with split_jobs=%d some (gamma1, gamma2) pair is computed by %s jobs' % (s, sorted(set(count.ravel().tolist()))), inp); return
    try:
        m = dadi.DFE.Cache2D.merge([jobs[j] for j in order])
    except Exception as e:
        chk.fail('Cache2D.merge:complete-set-refused', 'merging all %d jobs raised %s: %s' % (s, type(e).__name__, e), inp); return
    if not isinstance(m.spectra, np.ndarray) or not np.array_equal(np.asarray(m.spectra, dtype=float), np.asarray(ref.spectra, dtype=float)):
        chk.fail('Cache2D.merge:differs', 'split_jobs=%d + merge differs from the single-job cache' % s, inp)

_JOBS4 = {}
def o_subsets(chk, dadi, inp):
    """4 jobs: a multiset of job ids (multiplicities 0/1/2, some order), optionally one duplicate tampered with"""
    mult, order, tamper = inp['mult'], inp['order'], inp.get('tamper')
    key = id(dadi)
    if key not in _JOBS4:
        _JOBS4[key] = ([build_real(dadi, 2, 2, [1.5], 1, 4, j) for j in range(4)], build_real(dadi, 2, 2, [1.5], 1))
    jobs, ref = _JOBS4[key]
    lst = []
    for j in order:
        lst.append(copy.deepcopy(jobs[j]))
    if tamper is not None:
        cc = lst[tamper]
        done = False
        for i in range(len(cc.spectra)):
            for j in range(len(cc.spectra)):
                if cc.spectra[i][j] is not None and not done:
                    cc.spectra[i][j] = cc.spectra[i][j] * 1.0000001; done = True
    complete = all(m >= 1 for m in mult)
    conflict = tamper is not None
    chk.l3(('subsets', tuple(mult), conflict))
    chk.stat('subsets:%s' % ('conflict' if conflict else 'complete' if complete else 'missing'))
    if not lst:
        return
    try:
        m = dadi.DFE.Cache2D.merge(lst)
    except ValueError as e:
        if complete and not conflict:
            chk.fail('Cache2D.merge:complete-set-refused', 'a complete set of jobs (duplicates identical) was refused: %s' % e, inp)
        return
    except Exception as e:
        chk.fail('Cache2D.merge:raises:%s' % type(e).__name__, '%s: %s' % (type(e).__name__, e), inp); return
    if conflict:
        chk.fail('Cache2D.merge:conflict-absorbed', 'a duplicated job with different content was merged silently', inp)
    elif not complete:
        chk.fail('Cache2D.merge:missing-absorbed', 'jobs %r are missing but merge returned a cache' % [j for j in range(4) if mult[j] == 0], inp)
    elif not np.array_equal(np.asarray(m.spectra, dtype=float), np.asarray(ref.spectra, dtype=float)):
        chk.fail('Cache2D.merge:differs', 'merged cache differs from the single-job cache', inp)

# ------------------------------------------------------------------ compiled bivariate pdfs vs their formulas
def ref_biv_lognormal(xx, yy, params):
    m1, m2, s1, s2, r = biv_params5('biv_lognormal', list(params))
    out = np.empty((len(xx), len(yy)))
    for i, x in enumerate(xx):
        for j, y in enumerate(yy):
            dx = (math.log(x) - m1) / s1; dy = (math.log(y) - m2) / s2
            q = (dx * dx - 2 * r * dx * dy + dy * dy) / (1 - r * r)
            out[i, j] = math.exp(-q / 2) / (2 * math.pi * s1 * s2 * math.sqrt(1 - r * r) * x * y)
    return out

def ref_biv_ind_gamma(xx, yy, params):
    from scipy.special import gammaln
    a1, a2, b1, b2 = biv_params5('biv_ind_gamma', list(params))
    fx = [math.exp((a1 - 1) * math.log(x) - x / b1 - gammaln(a1) - a1 * math.log(b1)) for x in xx]
    fy = [math.exp((a2 - 1) * math.log(y) - y / b2 - gammaln(a2) - a2 * math.log(b2)) for y in yy]
    return np.outer(fx, fy)

def o_pdf(chk, dadi, inp):
    name, params, layout = inp['pdf'], inp['params'], inp['layout']
    f = pdf_by_name(dadi, name)
    base = np.array(inp['xx'], dtype=float); basey = np.array(inp['yy'], dtype=float)
    if layout == 'contiguous': xx, yy = base.copy(), basey.copy()
    elif layout == 'strided':
        bx = np.empty(2 * len(base)); bx[::2] = base; bx[1::2] = -1.0; xx = bx[::2]
        by = np.empty(3 * len(basey)); by[::3] = basey; by[1::3] = -1.0; by[2::3] = -2.0; yy = by[::3]
    elif layout == 'reversed': xx, yy = base[::-1].copy()[::-1], basey[::-1].copy()[::-1]
    elif layout == 'int': xx, yy = np.arange(1, 4), np.arange(2, 5); base, basey = xx.astype(float), yy.astype(float)
    elif layout == 'list': xx, yy = base.tolist(), basey.tolist()
    elif layout == 'scalar': xx, yy = float(base[0]), float(basey[0]); base, basey = base[:1], basey[:1]
    else: raise KeyError(layout)
    ref = (ref_biv_lognormal if name == 'biv_lognormal' else ref_biv_ind_gamma)(base, basey, params)
    chk.l3(('pdf', name, len(params), layout))
    chk.stat('pdf:%s:%s' % (name, layout))
    st, got = isolated(f, xx, yy, params)
    if st == 'raised':
        chk.fail('PDFs.%s:raises:%s' % (name, got.split(':')[0]), got, inp); return
    if st == 'crashed':
        chk.fail('PDFs.%s:crash' % name, 'the compiled %s did not survive a %d x %d grid (%s): it writes outside its buffers'
                 % (name, np.size(xx), np.size(yy), got), inp); return
    got = got.reshape(ref.shape) if got.size == ref.size else got
    tol = 1e-10 if name == 'biv_lognormal' else 1e-9
    e = pdf_mismatch(got, ref)
    if e > tol:
        chk.fail('PDFs.%s:%s' % (name, 'strided-argument' if layout in ('strided', 'reversed') else 'formula'),
                 'compiled %s differs from its formula (max rel err %.3g) for %s arguments' % (name, e, layout),
                 dict(inp, got=small(got), expected=small(ref)))

def pdf_mismatch(got, ref):
    """max relative error over the entries above 1e-200.  Smaller densities are only required to be finite and small
    (< 1e-190): the C code forms exp(-x/beta) before multiplying, which is subnormal there (benign, not claimed)."""
    if got.shape != ref.shape or not np.all(np.isfinite(got)):
        return float('inf')
    m = ref > 1e-200
    e = float(np.max(np.abs(got[m] - ref[m]) / ref[m])) if m.any() else 0.0
    if (~m).any() and bool(np.any(np.abs(got[~m]) > 1e-190)):
        e = float('inf')
    return e

def o_pdf_ref(chk, dadi, inp):
    """the property clause as stated: the compiled density equals the library's own reference formula (`*_py`), for every
    accepted parameter-vector length and rectangular / degenerate grid shapes"""
    P = dadi.DFE.PDFs
    name, params = inp['pdf'], inp['params']
    f, fpy = getattr(P, name), getattr(P, name + '_py')
    xx = np.array(inp['xx'], dtype=float); yy = np.array(inp['yy'], dtype=float)
    chk.l3(('pdf_ref', name, len(params), len(xx), len(yy)))
    chk.stat('pdf_ref:%s:%s' % (name, 'square' if len(xx) == len(yy) else 'wide' if len(xx) < len(yy) else 'tall'))
    try:
        ref = np.asarray(fpy(xx, yy, params), dtype=float)
    except Exception as e:
        chk.notes.append('o_pdf_ref: reference raised %r on %r' % (e, inp)); return
    st, got = isolated(f, xx, yy, params)
    if st == 'raised':
        chk.fail('PDFs.%s:raises:%s' % (name, got.split(':')[0]), got, inp); return
    if st == 'crashed':
        chk.fail('PDFs.%s:crash' % name, 'the compiled %s did not survive a %d x %d grid (%s): it writes outside its buffers'
                 % (name, len(xx), len(yy), got), inp); return
    if got.shape != ref.shape:
        chk.fail('PDFs.%s:shape' % name, 'compiled result has shape %r, the reference %r' % (got.shape, ref.shape), inp); return
    e = pdf_mismatch(np.atleast_2d(got), np.atleast_2d(ref))
    if e > (1e-10 if name == 'biv_lognormal' else 1e-9):
        chk.fail('PDFs.%s:%s' % (name, 'formula' if len(xx) == len(yy) else 'rectangular-grid'),
                 'compiled %s differs from %s_py (max rel err %.3g) on a %d x %d grid' % (name, name, e, len(xx), len(yy)),
                 dict(inp, got=small(got), expected=small(ref)))

def o_pp1_nosel(chk, dadi, inp):
    """selection has no effect (all cached spectra equal): integrate_point_pos with any number of point masses returns
    theta * S0 * ((1 - sum ppos) * W + sum ppos), W the total weight of the continuous part"""
    c = build_cache(dadi, inp['cache']); sel = pdf_by_name(dadi, inp['pdf']); theta = inp['theta']
    pdfp = inp['pdf_params']; pp = inp['point_masses']
    ng = np.asarray(c.neg_gammas, dtype=float)
    S0 = data_of(neutral1([inp['cache']['p0']], inp['cache']['ns'], None))
    W = my_trapz(np.asarray(sel(-ng, pdfp), dtype=float), ng) + masses_1d(inp['pdf'], pdfp, 0.0, -ng[-1]) + masses_1d(inp['pdf'], pdfp, -ng[0], np.inf)
    sp = sum(p for p, _ in pp)
    chk.l3(('pp1_nosel', inp['pdf'], len(pp)))
    chk.stat('pp1_nosel:Npos=%d' % len(pp))
    try:
        got = data_of(c.integrate_point_pos(list(pdfp) + [v for pr in pp for v in pr], None, sel, theta, Npos=len(pp)))
    except Exception as e:
        chk.fail('Cache1D.integrate_point_pos:raises:%s' % type(e).__name__, '%s: %s' % (type(e).__name__, e), inp); return
    Wtot = (1 - sp) * W + sp
    e = masserr(got, theta * Wtot * S0, abs(theta) * float(np.max(np.abs(S0))))
    if e > QTOL1:
        chk.fail('Cache1D.integrate_point_pos:no-selection', 'with selection-neutral spectra and %d point masses the result is theta*S0*%.5f, '
                 'expected total weight (1-sum ppos)*W + sum ppos = %.5f' % (len(pp), float(np.mean(got / (theta * S0))), Wtot),
                 dict(inp, got=small(got), expected=small(theta * Wtot * S0), total_weight=Wtot))

def o_mix_nosel(chk, dadi, inp):
    """selection has no effect: every mixture returns theta * S0 * (its total weight), the total weight being the stated
    combination of the components' total weights with (1 - p2d, p2d), the point-mass proportions and the quadrant weights"""
    s1 = build_cache(dadi, inp['cache1']); s2 = build_cache(dadi, inp['cache2'])
    sd1 = pdf_by_name(dadi, inp['pdf1']); sd2 = pdf_by_name(dadi, inp['pdf2'])
    kind = inp['kind']; sh = inp['shared']; theta = inp['theta']; rho = inp['rho']; p2d = inp['p2d']
    M = dadi.DFE.Cache2D_mod
    ng1 = np.asarray(s1.neg_gammas, dtype=float); ng2 = np.asarray(s2.neg_gammas, dtype=float); n2 = len(ng2)
    S0 = data_of(neutral2([inp['cache2']['p0']], inp['cache2']['ns'], None))
    biv = list(sh) + [rho]          # what the mixtures hand to the 2-D component (biv_ind_gamma ignores a third entry)
    Mr = well_conditioned(chk, inp['pdf2'], biv, ng2, sd2, 'mix_nosel')
    if Mr is None:
        return
    w2 = np.asarray(sd2(-ng2, -ng2, np.array(biv)), dtype=float).reshape(n2, n2)
    W2, _ = nine_regions(ng2, np.ones((n2, n2)), w2, Mr)
    W1 = my_trapz(np.asarray(sd1(-ng1, sh), dtype=float), ng1) + masses_1d(inp['pdf1'], sh, 0.0, -ng1[-1]) + masses_1d(inp['pdf1'], sh, -ng1[0], np.inf)
    if kind == 'mix':
        params = list(sh) + [rho, p2d]
        Wtot = (1 - p2d) * W1 + p2d * W2
        call = lambda: M.mixture(params, None, s1, s2, sd1, sd2, theta, None)
    else:
        if kind == 'mixsym':
            pp, g = inp['point'][:2]; p1, g1, p2, g2 = pp, g, pp, g
            params = list(sh) + [rho, pp, g, p2d]
            call = lambda: M.mixture_symmetric_point_pos(params, None, s1, s2, sd1, sd2, theta)
        else:
            p1, g1, p2, g2 = inp['point']
            params = list(sh) + [rho, p1, g1, p2, g2, p2d]
            call = lambda: M.mixture_point_pos(params, None, s1, s2, sd1, sd2, theta)
        a, b, cc, d = quadrant_weights(p1, p2, rho)
        M2 = my_trapz([my_trapz(w2[:, j], ng2) for j in range(n2)], ng2)       # interior mass of the marginal of gamma2
        M1 = my_trapz([my_trapz(w2[i, :], ng2) for i in range(n2)], ng2)
        Wtot = (1 - p2d) * ((1 - p1) * W1 + p1) + p2d * (a + b * M2 + cc * M1 + d * W2)
    chk.l3(('mix_nosel', kind, inp['pdf2'], p2d in (0.0, 1.0)))
    chk.stat('mix_nosel:%s' % kind)
    fname = MIX[kind][0]
    try:
        got = data_of(call())
    except Exception as e:
        chk.fail('%s:raises:%s' % (fname, type(e).__name__), 'DFE.%s raised %s: %s' % (fname, type(e).__name__, e), dict(inp, params=params)); return
    e = masserr(got, theta * Wtot * S0, abs(theta) * float(np.max(np.abs(S0))))
    if e > QTOL2:
        chk.fail('%s:no-selection' % fname, 'with selection-neutral spectra DFE.%s returns theta*S0*%.5f; the stated combination of the total weights is %.5f'
                 % (fname, float(np.mean(got / (theta * S0))), Wtot), dict(inp, params=params, got=small(got), expected=small(theta * Wtot * S0), total_weight=Wtot))

ORACLES = dict(int1d=o_int1d, nosel1d=o_nosel1d, pp1=o_pp1, int2d=o_int2d, nosel2d=o_nosel2d, pp2=o_pp2, mix=o_mix, vourlaki=o_vourlaki,
               procs=o_procs, fault=o_fault, split=o_split, subsets=o_subsets, pdf=o_pdf,
               pdf_ref=o_pdf_ref, pp1_nosel=o_pp1_nosel, mix_nosel=o_mix_nosel)

def ensure_dfe(dadi):
    import importlib
    importlib.import_module(dadi.__name__ + '.DFE.Cache2D_mod')

def oracle(chk, dadi, name, inp):
    ensure_dfe(dadi)
    inp = dict(inp, oracle=name)
    n0 = len(chk.failures)
    try:
        ORACLES[name](chk, dadi, inp)
    finally:
        FAULT['at'] = None
    for f in chk.failures[n0:]:
        chk.stat('FAIL ' + f['key'])
    if len(chk.failures) == n0:
        chk.sample(dict(oracle=name, input={k: v for k, v in inp.items() if k not in ('oracle',)}, verdict='holds'), cap=8)

# ================================================================== generators and the check itself
def r3(x):
    return round(float(x), 3)

def rnd_theta(rng):
    return float(rng.choice([1.0, 7.0, r3(10 ** rng.uniform(-1, 3))]))

def pdf1_specs(rng):
    return [('exponential', [r3(10 ** rng.uniform(-1, 2))]),
            ('gamma', [r3(rng.uniform(0.3, 2.5)), r3(10 ** rng.uniform(-1, 2.5))]),
            ('lognormal', [r3(rng.uniform(-2, 5)), r3(rng.uniform(0.3, 2.5))]),
            ('beta', [r3(rng.uniform(1.0, 3)), r3(rng.uniform(1.0, 3))])]

def pdf2_specs(rng):
    rho = float(rng.choice([0.0, r3(rng.uniform(-0.95, 0.95)), 0.9, -0.7]))
    return [('biv_lognormal', [r3(rng.uniform(-2, 5)), r3(rng.uniform(0.5, 2.5)), rho]),
            ('biv_lognormal', [r3(rng.uniform(-2, 5)), r3(rng.uniform(-2, 5)), r3(rng.uniform(0.5, 2.5)), r3(rng.uniform(0.5, 2.5)), rho]),
            ('biv_ind_gamma', [r3(rng.uniform(0.3, 2.5)), r3(10 ** rng.uniform(-1, 2.5))]),
            ('biv_ind_gamma', [r3(rng.uniform(0.3, 2.5)), r3(rng.uniform(0.3, 2.5)), r3(10 ** rng.uniform(-1, 2.5)), r3(10 ** rng.uniform(-1, 2.5))]),
            ('biv_ind_gamma', [r3(rng.uniform(0.3, 2.5)), r3(10 ** rng.uniform(-1, 2.5)), 0.3])]

def rnd_spec(rng, kind, func, extra=None, n=None):
    n = int(rng.integers(2, 6 if kind == '1d' else 5)) if n is None else n
    ns = [int(rng.integers(1, 3)), int(rng.integers(1, 3))]
    if func == 'demo1_1pop': ns = [int(rng.integers(1, 5))]
    bounds = (r3(10 ** rng.uniform(-2, -0.5)), r3(10 ** rng.uniform(0.7, 2.2)))
    extra = [r3(rng.uniform(0.5, 6)) for _ in range(int(rng.integers(0, 3)))] if extra is None else extra
    return spec_cache(kind, func, r3(rng.uniform(0.5, 2.0)), ns, bounds, n, extra)

def run(chk, ctx):
    dadi = ctx['dadi']; drv = ctx['driver']; tier = ctx['tier']
    rng = common.Rng(ctx['seed'], 'C17')
    thorough = tier == 'thorough'
    ensure_dfe(dadi)                   # mixture_point_pos is not exported by the package
    chk.rule = ('Caches are built from cheap closed-form spectra that depend on both gammas differently (so swapped slices show), 2-6 negative gammas on '
                'narrow ranges (so every exterior region carries mass) plus 0-2 positive gammas; pdfs: exponential/gamma/lognormal/beta and bivariate '
                'lognormal (3 and 5 parameters, rho in (-1,1) incl. 0 and 0.9) / independent gamma (2-5 parameters); theta in {1, 7, random}; point masses '
                'cached / computed on the fly / missing; mixtures with p2d in [0,1]; worker counts 1-4 (thorough: up to 16) on real processes and '
                'hundreds of simulated completion orders; split_jobs 1-6; all 81 multiplicity patterns of 4 jobs, with and without a tampered duplicate; '
                'a fault at every gamma position. Non-trivial = distinct (oracle, pdf, size, edge-case flags).')
    chk.unproved = [
        '"up to quadrature error": the size of the quadrature errors themselves (scipy quad/dblquad, trapezoid rule) is checked numerically only '
        '(tail / region masses vs distribution functions, |W-1| on fine grids); that W - total mass is exactly the sum of the per-region errors is proved',
        'floating-point evaluation of the compiled pdfs and the accuracy of the Lanczos gamma_func (the gamma theorems assume gamma_func(alpha) = Gamma(alpha)): '
        'numerical comparison on log grids, rel 1e-10 / 1e-9; the translated Lanczos coefficients are tied to the compiled gamma_func by K at 1e-11',
        'scipy.stats densities are taken from their documentation (fixed table in tools/gen_PDFsReal.py)',
        'operating-system scheduling itself: the theorem covers every permutation of the results list; real pools are sampled, simulated orders are exhaustive in kind',
        'numpy.trapz / boolean-mask indexing / np.squeeze are tied by correspondence (K), not translated',
    ]
    chk.assumptions += ['pdf values, quad/dblquad results and square roots enter the model as numbers taken from the implementation run (classified by their bounds)']
    nK = 3 if not thorough else 16
    # ------------------------------------------------------------ K
    if drv is not None and drv.ok():
        cfg = drv.ask('c17.cfg')
        if not cfg.startswith('ok 1 1 1 1 1 1 1 1 '):
            chk.notes.append('shape flags of the translation: ' + cfg)
        for ci in range(nK):
            func = ['demo1', 'demo1_1pop', 'demo1'][ci % 3]
            sp = rnd_spec(rng, '1d', func)
            c = build_cache(dadi, sp)
            for name, params in pdf1_specs(rng):
                sel = pdf_by_name(dadi, name)
                for ext in (True, False):
                    k_int1d(chk, drv, c, name, sel, params, rnd_theta(rng), ext)
            # point masses (fresh cache each time: the call may extend it)
            for rep in range(4 if not thorough else 8):
                name, params = pdf1_specs(rng)[rep % 4]
                sel = pdf_by_name(dadi, name)
                cc = build_cache(dadi, sp, fresh=True)
                npos = int(rng.integers(1, 4))
                pool = list(sp['extra']) + [r3(rng.uniform(0.5, 9))]
                pp = [(r3(rng.uniform(0.01, 0.3)), float(rng.choice(pool))) for _ in range(npos)]
                demo = FUNCS[func] if rng.random() < 0.6 else None
                k_pp1(chk, drv, dadi, cc, name, sel, params, pp, rnd_theta(rng), bool(rng.random() < 0.8), demo)
                k_pp1(chk, drv, dadi, cc, name, sel, params, pp, rnd_theta(rng), True, demo, tag='pp1:again')
        for ci in range(nK):
            sp = rnd_spec(rng, '2d', 'demo2', extra=[r3(rng.uniform(0.5, 6)) for _ in range(int(rng.integers(1, 3)))])
            c = build_cache(dadi, sp)
            for name, params in pdf2_specs(rng):
                sel = pdf_by_name(dadi, name)
                k_int2d(chk, drv, c, name, sel, params, rnd_theta(rng), True)
                k_int2d(chk, drv, c, name, sel, params, rnd_theta(rng), False)
                ex = sp['extra']
                g1 = float(rng.choice(ex)); g2 = float(rng.choice(ex + [7.77] if rng.random() < 0.15 else ex))
                pt = (r3(rng.uniform(0, 0.4)), g1, r3(rng.uniform(0, 0.4)), g2)
                rho = rng.choice([None, 0.0, r3(rng.uniform(-0.9, 0.9)), 1.0])
                k_pp2(chk, drv, c, name, sel, params, pt, rnd_theta(rng), None if rho is None else float(rho), False)
                if name == 'biv_lognormal':
                    k_pp2(chk, drv, c, name, sel, params, pt, rnd_theta(rng), None, True)
        for rep in range(12 if not thorough else 60):
            shared = [r3(rng.uniform(-1, 3)) for _ in range(int(rng.integers(0, 4)))]
            rho, p2d = r3(rng.uniform(-0.9, 0.9)), float(rng.choice([0.0, 1.0, r3(rng.uniform(0, 1))]))
            k_mix(chk, drv, dadi, rng, 'mix', shared + [rho, p2d], rnd_theta(rng), bool(rng.random() < 0.7))
            k_mix(chk, drv, dadi, rng, 'mixsym', shared + [rho, r3(rng.uniform(0, 0.5)), r3(rng.uniform(0.5, 5)), p2d], rnd_theta(rng))
            k_mix(chk, drv, dadi, rng, 'mixpt', shared + [rho, r3(rng.uniform(0, 0.5)), r3(rng.uniform(0.5, 5)), r3(rng.uniform(0, 0.5)),
                                                          r3(rng.uniform(0.5, 5)), p2d], rnd_theta(rng))
            k_spp_glue(chk, drv, dadi, rng, shared + [rho, r3(rng.uniform(0, 0.5)), r3(rng.uniform(0.5, 5))], rnd_theta(rng))
        for short in ([], [0.5], [0.1, 0.2, 0.3]):            # too few parameters
            for kind in ('mix', 'mixsym', 'mixpt'):
                k_mix(chk, drv, dadi, rng, kind, list(short), 1.0)
        for rep in range(4 if not thorough else 16):
            gp = r3(rng.uniform(0.5, 6))
            s1 = build_cache(dadi, rnd_spec(rng, '1d', 'demo1', extra=[]))
            sp2 = rnd_spec(rng, '2d', 'demo2', extra=[gp]); sp2['ns'] = list(s1.ns)
            s2 = build_cache(dadi, sp2)
            params = [r3(rng.uniform(0.3, 2)), r3(10 ** rng.uniform(0, 2)), r3(rng.uniform(0, 0.3)), gp if rng.random() < 0.9 else 9.99,
                      r3(rng.uniform(0, 1)), r3(rng.uniform(0, 1))]
            k_vourlaki(chk, drv, dadi, s1, s2, params, rnd_theta(rng))
        # whole mixtures on real caches: both components computed by the model
        for rep in range(2 if not thorough else 10):
            gp = r3(rng.uniform(0.5, 6)); gp2 = r3(rng.uniform(0.5, 6))
            sp1 = rnd_spec(rng, '1d', 'demo1', extra=[gp])
            sp2 = rnd_spec(rng, '2d', 'demo2', extra=[gp, gp2], n=int(rng.integers(2, 4))); sp2['ns'] = list(sp1['ns'])
            s1 = build_cache(dadi, sp1); s2 = build_cache(dadi, sp2)
            if rep % 2 == 0: n1, n2, shared = 'lognormal', 'biv_lognormal', [r3(rng.uniform(-1, 4)), r3(rng.uniform(0.5, 2))]
            else: n1, n2, shared = 'gamma', 'biv_ind_gamma', [r3(rng.uniform(0.4, 2.5)), r3(10 ** rng.uniform(0, 2))]
            sel1 = pdf_by_name(dadi, n1); sel2 = pdf_by_name(dadi, n2)
            rho = float(rng.choice([0.0, r3(rng.uniform(-0.9, 0.9))])); p2d = float(rng.choice([0.0, 1.0, r3(rng.uniform(0, 1))]))
            k_mixfull(chk, drv, dadi, s1, s2, n1, sel1, n2, sel2, shared, rho, p2d, rnd_theta(rng), True)
            k_mixfull(chk, drv, dadi, s1, s2, n1, sel1, n2, sel2, shared, rho, p2d, rnd_theta(rng), False)
            pt = (r3(rng.uniform(0, 0.4)), gp if rng.random() < 0.9 else 7.77, r3(rng.uniform(0, 0.4)), gp2)
            k_mixptfull(chk, drv, dadi, s1, s2, n1, sel1, n2, sel2, shared, rho, pt, p2d, rnd_theta(rng), False)
            k_mixptfull(chk, drv, dadi, s1, s2, n1, sel1, n2, sel2, shared, rho, pt, p2d, rnd_theta(rng), True)
        # compiled pdfs: output layout on rectangular grids, parameter-count dispatch, Lanczos series
        for (xs, ys) in [(1, 1), (1, 4), (4, 1), (3, 5), (5, 3), (4, 4), (2, 7)] + ([(7, 2), (6, 6), (1, 9), (9, 1)] if thorough else []):
            k_pdf_layout(chk, drv, dadi, 'ln', xs, ys, [0.4, -0.3, 0.7, 1.1, float(r3(rng.uniform(-0.8, 0.8)))])
            k_pdf_layout(chk, drv, dadi, 'g', xs, ys, [float(r3(rng.uniform(0.4, 2.5))), 1.7, 3.0, float(r3(rng.uniform(0.5, 5)))])
        for L in range(1, 8):
            k_pdf_dispatch(chk, drv, dadi, 'ln', L, rng)
            k_pdf_dispatch(chk, drv, dadi, 'g', L, rng)
        for alpha in [0.2, 0.45, 0.5, 0.8, 1.0, 1.5, 3.7, 12.3] + [float(r3(10 ** rng.uniform(-1.2, 1.4))) for _ in range(4 if not thorough else 40)]:
            k_lanczos(chk, drv, dadi, alpha)
        # construction under simulated schedules
        for rep in range(25 if not thorough else 150):
            dim = 1 + rep % 2
            cpus = int(rng.integers(2, 5 if not thorough else 17))
            split = 1 if dim == 1 or rng.random() < 0.5 else int(rng.integers(2, 7))
            job = int(rng.integers(0, split))
            n = int(rng.integers(1, 4)); extra = [2.5][:int(rng.integers(0, 2))]
            G = n + len(extra)
            fault = None
            if rng.random() < 0.25:
                fault = (int(rng.integers(0, G)), int(rng.integers(0, G)))
            k_build(chk, drv, dadi, rng, dim, cpus, split, job, fault, n, extra)
        built = {}
        for split in range(1, 7):
            for job in range(split):
                for (gn, extra) in ([(2, [1.5])] if not thorough else [(2, [1.5]), (1, []), (3, [1.5, 2.5])]):
                    built[(gn, tuple(extra), split, job)] = k_jobs_single(chk, drv, dadi, gn, extra, split, job)
        out = drv.ask('c17.jobs 0 3 0 0')
        if out == 'err ZeroDivisionError': chk.k_ok('jobs:split=0')
        else: chk.k_bad('jobs:split=0', 'split_jobs=0', 'ZeroDivisionError', out, float('inf'))
        for split in range(1, 7):
            js = [built[(2, (1.5,), split, j)] for j in range(split)]
            for rep in range(3 if not thorough else 10):
                ids = [j for j in range(split) if rng.random() < 0.85] + [int(rng.integers(0, split)) for _ in range(int(rng.integers(0, 2)))]
                ids = [ids[i] for i in rng.permutation(len(ids))] if ids else []
                if not ids: continue
                lst = [copy.deepcopy(js[j]) for j in ids]
                desc = dict(split_jobs=split, order=ids)
                if len(ids) != len(set(ids)) and rng.random() < 0.5:
                    d = [i for i, j in enumerate(ids) if ids.index(j) != i][0]
                    for i in range(3):
                        for j in range(3):
                            if lst[d].spectra[i][j] is not None:
                                lst[d].spectra[i][j] = lst[d].spectra[i][j] + 1e-9
                    desc['tampered'] = d
                k_merge(chk, drv, dadi, lst, desc)
    # ------------------------------------------------------------ L3
    nL = 4 if not thorough else 30
    for ci in range(nL):
        sp = rnd_spec(rng, '1d', ['demo1', 'demo1_1pop'][ci % 2])
        for name, params in pdf1_specs(rng):
            for ext in (True, False):
                oracle(chk, dadi, 'int1d', dict(cache=sp, pdf=name, params=params, theta=rnd_theta(rng), exterior_int=ext))
        spn = spec_cache('1d', 'neutral1', sp['p0'], [1, 2], sp['bounds'], sp['n'], [])
        for name, params in pdf1_specs(rng):
            oracle(chk, dadi, 'nosel1d', dict(cache=spn, pdf=name, params=params, theta=rnd_theta(rng)))
        # point masses: cached, on the fly, missing; theta = 1 and != 1
        pool = list(sp['extra'])
        func = sp['func']
        for rep in range(3 if not thorough else 6):
            name, params = pdf1_specs(rng)[int(rng.integers(0, 4))]
            npos = int(rng.integers(1, 4))
            cand = pool + [r3(rng.uniform(0.5, 9))]
            pp = [[r3(rng.uniform(0.01, 0.3)), float(rng.choice(cand))] for _ in range(npos)]
            oracle(chk, dadi, 'pp1', dict(cache=sp, pdf=name, pdf_params=params, point_masses=pp, theta=float(rng.choice([1.0, 7.0, r3(10 ** rng.uniform(0, 3))])),
                                          theta2=r3(10 ** rng.uniform(0, 2)), demo=(func if rng.random() < 0.7 else None)))
    # the documented headline case: one cached positive gamma, theta = 7
    spc = spec_cache('1d', 'demo1', 1.0, [2, 2], (0.01, 50.0), 5, [2.0])
    oracle(chk, dadi, 'pp1', dict(cache=spc, pdf='gamma', pdf_params=[1.0, 2.0], point_masses=[[0.3, 2.0]], theta=7.0, theta2=3.0, demo=None))
    oracle(chk, dadi, 'pp1', dict(cache=spc, pdf='gamma', pdf_params=[1.0, 2.0], point_masses=[[0.3, 3.0]], theta=7.0, theta2=3.0, demo='demo1'))
    fine1 = spec_cache('1d', 'neutral1', 1.0, [1, 2], (1e-4, 2000.0), 300 if not thorough else 500, [])
    for name, params in [('gamma', [0.2, 1000.0]), ('lognormal', [2.0, 1.5]), ('exponential', [30.0]), ('gamma', [0.5, 10.0]), ('lognormal', [9.0, 1.0])]:
        oracle(chk, dadi, 'nosel1d', dict(cache=fine1, pdf=name, params=params, theta=2.0, fine=True))
    for ci in range(nL):
        sp = rnd_spec(rng, '2d', 'demo2', extra=[r3(rng.uniform(0.5, 6)) for _ in range(int(rng.integers(1, 3)))])
        spn = spec_cache('2d', 'neutral2', sp['p0'], sp['ns'], sp['bounds'], sp['n'], [])
        for name, params in pdf2_specs(rng):
            oracle(chk, dadi, 'int2d', dict(cache=sp, pdf=name, params=params, theta=rnd_theta(rng), exterior_int=True))
            oracle(chk, dadi, 'int2d', dict(cache=sp, pdf=name, params=params, theta=rnd_theta(rng), exterior_int=False))
            oracle(chk, dadi, 'nosel2d', dict(cache=spn, pdf=name, params=params, theta=rnd_theta(rng)))
            ex = sp['extra']
            pt = [r3(rng.uniform(0, 0.4)), float(rng.choice(ex)), r3(rng.uniform(0, 0.4)), float(rng.choice(ex + [7.77] if rng.random() < 0.1 else ex))]
            rho = float(rng.choice([0.0, 1.0, r3(rng.uniform(-0.9, 0.9))]))
            oracle(chk, dadi, 'pp2', dict(cache=sp, pdf=name, biv_params=params, point=pt, rho=rho, theta=rnd_theta(rng)))
            if name == 'biv_lognormal':
                oracle(chk, dadi, 'pp2', dict(cache=sp, pdf=name, biv_params=params, point=[pt[0], pt[1], pt[0], pt[1]], rho=params[-1],
                                              theta=rnd_theta(rng), symmetric=True))
    # mass pushed into each exterior corner / edge in turn (gamma1 and gamma2 beyond the grid on different sides)
    for rep in range(2 if not thorough else 6):
        sp = rnd_spec(rng, '2d', 'demo2', extra=[])
        lo, hi = math.log(sp['bounds'][0]), math.log(sp['bounds'][1])
        for m1, m2 in ((hi + 1.5, lo - 1.5), (lo - 1.5, hi + 1.5), (hi + 1.5, hi + 1.0), (lo - 1.5, lo - 1.0), (hi + 1.0, (lo + hi) / 2), ((lo + hi) / 2, lo - 1.0)):
            params = [r3(m1), r3(m2), r3(rng.uniform(0.6, 1.2)), r3(rng.uniform(0.6, 1.2)), float(rng.choice([0.0, 0.5, -0.5]))]
            oracle(chk, dadi, 'int2d', dict(cache=sp, pdf='biv_lognormal', params=params, theta=rnd_theta(rng), exterior_int=True))
    # selection-neutral spectra on the default-like grid: distributions inside and beyond the cached range
    fine2 = spec_cache('2d', 'neutral2', 1.0, [1, 1], (1e-4, 2000.0), 60 if not thorough else 100, [])
    for params in [[2.0, 1.5, 0.0], [5.0, 1.0, 0.5], [0.0, 0.5, 0.9], [8.0, 1.0, 0.5], [10.0, 1.5, 0.9], [8.0, 3.0, 7.0, 1.0, -0.5]]:
        oracle(chk, dadi, 'nosel2d', dict(cache=fine2, pdf='biv_lognormal', params=params, theta=1.0, fine=True))
    for params in [[0.5, 10.0], [2.0, 5.0], [3.0, 1000.0]]:
        oracle(chk, dadi, 'nosel2d', dict(cache=fine2, pdf='biv_ind_gamma', params=params, theta=3.0, fine=True))
    # mixtures
    for rep in range(6 if not thorough else 30):
        gp = r3(rng.uniform(0.5, 6)); gp2 = r3(rng.uniform(0.5, 6))
        sp1 = rnd_spec(rng, '1d', 'demo1', extra=[gp])
        sp2 = rnd_spec(rng, '2d', 'demo2', extra=[gp, gp2]); sp2['ns'] = sp1['ns']
        shared = [r3(rng.uniform(-1, 4)), r3(rng.uniform(0.5, 2))]
        rho = float(rng.choice([0.0, r3(rng.uniform(-0.9, 0.9))])); p2d = float(rng.choice([0.0, 1.0, r3(rng.uniform(0, 1))]))
        base = dict(cache1=sp1, cache2=sp2, pdf1='lognormal', pdf2='biv_lognormal', shared=shared, rho=rho, p2d=p2d)
        oracle(chk, dadi, 'mix', dict(base, kind='mix', theta=rnd_theta(rng)))
        oracle(chk, dadi, 'mix', dict(base, kind='mix', theta=rnd_theta(rng), exterior_int=bool(rep % 2)))
        oracle(chk, dadi, 'mix', dict(base, kind='mixsym', theta=rnd_theta(rng), point=[r3(rng.uniform(0, 0.4)), gp]))
        oracle(chk, dadi, 'mix', dict(base, kind='mixpt', theta=rnd_theta(rng), point=[r3(rng.uniform(0, 0.4)), gp, r3(rng.uniform(0, 0.4)), gp2]))
        oracle(chk, dadi, 'vourlaki', dict(cache1=spec_cache('1d', 'demo1', sp1['p0'], sp1['ns'], sp1['bounds'], sp1['n'], []), cache2=sp2,
                                           params=[r3(rng.uniform(0.3, 2)), r3(10 ** rng.uniform(0, 2)), r3(rng.uniform(0, 0.3)),
                                                   gp if rng.random() < 0.9 else 9.99, r3(rng.uniform(0, 1)), r3(rng.uniform(0, 1))], theta=rnd_theta(rng)))
    # the example of the documentation (doc/examples/DFE): mu, sigma, rho, ppos, gamma_pos, p2d
    spd1 = spec_cache('1d', 'demo1', 1.0, [2, 2], (0.01, 50.0), 5, [1.2]); spd2 = spec_cache('2d', 'demo2', 1.0, [2, 2], (0.01, 50.0), 4, [1.2])
    oracle(chk, dadi, 'mix', dict(cache1=spd1, cache2=spd2, pdf1='lognormal', pdf2='biv_lognormal', shared=[0.5, 0.3], rho=0.0, p2d=0.2,
                                  kind='mixsym', theta=1.0, point=[0.2, 1.2]))
    # selection has no effect: point masses (any number) and all three mixtures return theta * S0 * (stated total weight)
    for rep in range(3 if not thorough else 12):
        g1, g2 = r3(rng.uniform(0.5, 6)), r3(rng.uniform(0.5, 6))
        spn = spec_cache('1d', 'neutral1', r3(rng.uniform(0.5, 2.0)), [1, 2], (r3(10 ** rng.uniform(-2, -0.5)), r3(10 ** rng.uniform(0.7, 2.2))),
                         int(rng.integers(3, 8)), [g1, g2])
        name, params = pdf1_specs(rng)[rep % 4]
        for npos in (1, 2, 3):
            pp = [[r3(rng.uniform(0.01, 0.3)), float(rng.choice([g1, g2]))] for _ in range(npos)]
            oracle(chk, dadi, 'pp1_nosel', dict(cache=spn, pdf=name, pdf_params=params, point_masses=pp, theta=rnd_theta(rng)))
    for rep in range(2 if not thorough else 10):
        g1, g2 = r3(rng.uniform(0.5, 6)), r3(rng.uniform(0.5, 6))
        bounds = (r3(10 ** rng.uniform(-2, -0.5)), r3(10 ** rng.uniform(0.7, 2.2)))
        p0 = r3(rng.uniform(0.5, 2.0))
        c1 = spec_cache('1d', 'neutral1', p0, [1, 2], bounds, int(rng.integers(3, 7)), [g1])
        c2 = spec_cache('2d', 'neutral2', p0, [1, 2], bounds, int(rng.integers(2, 5)), [g1, g2])
        if rep % 2 == 0: n1, n2, shared = 'lognormal', 'biv_lognormal', [r3(rng.uniform(-1, 3)), r3(rng.uniform(0.5, 2))]
        else: n1, n2, shared = 'gamma', 'biv_ind_gamma', [r3(rng.uniform(0.4, 2.5)), r3(10 ** rng.uniform(-0.5, 1.5))]
        rho = float(rng.choice([0.0, r3(rng.uniform(-0.9, 0.9))])); p2d = float(rng.choice([0.0, 1.0, r3(rng.uniform(0, 1))]))
        base = dict(cache1=c1, cache2=c2, pdf1=n1, pdf2=n2, shared=shared, rho=rho, p2d=p2d)
        oracle(chk, dadi, 'mix_nosel', dict(base, kind='mix', theta=rnd_theta(rng)))
        oracle(chk, dadi, 'mix_nosel', dict(base, kind='mixsym', theta=rnd_theta(rng), point=[r3(rng.uniform(0, 0.4)), g1]))
        oracle(chk, dadi, 'mix_nosel', dict(base, kind='mixpt', theta=rnd_theta(rng), point=[r3(rng.uniform(0, 0.4)), g1, r3(rng.uniform(0, 0.4)), g2]))
    # caches: processes, faults, split + merge, subsets
    cpus_l = [2, 3, 4] if not thorough else list(range(2, 17))
    for cpus in cpus_l:
        for dim in (1, 2):
            n = int(rng.integers(1, 4)); extra = [2.5][:int(rng.integers(0, 2))]
            oracle(chk, dadi, 'procs', dict(dim=dim, n=n, extra=extra, cpus=cpus))
    for dim in (1, 2):
        n, extra = 2, [2.5]
        G = 3
        cells = [(i, j) for i in range(G) for j in (range(G) if dim == 2 else [0])]
        for at in cells:
            for cpus in ([1, 2, 3] if not thorough else [1, 2, 3, 4, 8]):
                if not thorough and cpus == 3 and (at[0] + at[1]) % 2: continue
                oracle(chk, dadi, 'fault', dict(dim=dim, n=n, extra=extra, cpus=cpus, at=list(at)))
    for rep in range(12 if not thorough else 60):
        split = int(rng.integers(2, 7)); at = [int(rng.integers(0, 3)), int(rng.integers(0, 3))]
        job = (at[0] * 3 + at[1]) % split if rep % 2 == 0 else int(rng.integers(0, split))     # every other case: the job that owns the faulty pair
        oracle(chk, dadi, 'fault', dict(dim=2, n=2, extra=[2.5], cpus=int(rng.integers(1, 4)), at=at, split=split, job=job))
    for split in range(1, 7):
        for cpus in ([1, 2] if not thorough else [1, 2, 3, 4]):
            n = int(rng.integers(1, 4)); extra = [2.5][:int(rng.integers(0, 2))]
            oracle(chk, dadi, 'split', dict(n=n, extra=extra, split=split, cpus=cpus, order=[int(v) for v in rng.permutation(split)]))
    for mult in itertools.product((0, 1, 2), repeat=4):
        ids = [j for j in range(4) for _ in range(mult[j])]
        order = [ids[i] for i in rng.permutation(len(ids))] if ids else []
        oracle(chk, dadi, 'subsets', dict(mult=list(mult), order=[int(v) for v in order]))
        dups = [i for i, j in enumerate(order) if order.index(j) != i]
        if dups:
            oracle(chk, dadi, 'subsets', dict(mult=list(mult), order=[int(v) for v in order], tamper=int(dups[int(rng.integers(0, len(dups)))])))
    # compiled pdfs
    for rep in range(28 if not thorough else 600):
        npx = int(rng.integers(2, 9)); npy = int(rng.integers(2, 9))
        xx = np.sort(10 ** rng.uniform(-4, 3.5, size=npx)).tolist(); yy = np.sort(10 ** rng.uniform(-4, 3.5, size=npy)).tolist()
        rho = float(rng.choice([0.0, rng.uniform(-0.999, 0.999), 0.99, -0.99]))
        pl = [[rng.uniform(-3, 8), rng.uniform(0.1, 4), rho], [rng.uniform(-3, 8), rng.uniform(-3, 8), rng.uniform(0.1, 4), rng.uniform(0.1, 4), rho]]
        pg = [[10 ** rng.uniform(-1.5, 1.3), 10 ** rng.uniform(-1, 4)], [10 ** rng.uniform(-1.5, 1.3), 10 ** rng.uniform(-1, 4), 0.3],
              [10 ** rng.uniform(-1.5, 1.3), 10 ** rng.uniform(-1.5, 1.3), 10 ** rng.uniform(-1, 4), 10 ** rng.uniform(-1, 4)],
              [10 ** rng.uniform(-1.5, 1.3), 10 ** rng.uniform(-1.5, 1.3), 10 ** rng.uniform(-1, 4), 10 ** rng.uniform(-1, 4), -0.2]]
        layout = ['contiguous', 'contiguous', 'strided', 'reversed', 'list', 'scalar', 'int'][rep % 7]
        oracle(chk, dadi, 'pdf', dict(pdf='biv_lognormal', params=[float(v) for v in pl[rep % 2]], xx=xx, yy=yy, layout=layout))
        oracle(chk, dadi, 'pdf', dict(pdf='biv_ind_gamma', params=[float(v) for v in pg[rep % 4]], xx=xx, yy=yy, layout=layout))

    # the clause as stated: compiled == the library's reference formula, every accepted length, rectangular / degenerate grids
    shapes = [(1, 1), (1, 5), (5, 1), (3, 5), (5, 3), (2, 7), (4, 4)] + ([(7, 2), (8, 3), (1, 9), (6, 6)] if thorough else [])
    for (nx, ny) in shapes:
        xx = np.sort(10 ** rng.uniform(-3, 3, size=nx)).tolist(); yy = np.sort(10 ** rng.uniform(-3, 3, size=ny)).tolist()
        rho = float(rng.choice([0.0, rng.uniform(-0.99, 0.99)]))
        for params in ([rng.uniform(-3, 6), rng.uniform(0.2, 3), rho], [rng.uniform(-3, 6), rng.uniform(-3, 6), rng.uniform(0.2, 3), rng.uniform(0.2, 3), rho]):
            oracle(chk, dadi, 'pdf_ref', dict(pdf='biv_lognormal', params=[float(v) for v in params], xx=xx, yy=yy))
        a1, a2, b1, b2 = 10 ** rng.uniform(-1, 1.2), 10 ** rng.uniform(-1, 1.2), 10 ** rng.uniform(-1, 3), 10 ** rng.uniform(-1, 3)
        for params in ([a1, b1], [a1, b1, 0.3], [a1, a2, b1, b2], [a1, a2, b1, b2, -0.2]):
            oracle(chk, dadi, 'pdf_ref', dict(pdf='biv_ind_gamma', params=[float(v) for v in params], xx=xx, yy=yy))

def replay(chk, ctx, data):
    inp = data.get('input') or {}
    name = inp.get('oracle')
    if name in ORACLES:
        oracle(chk, ctx['dadi'], name, {k: v for k, v in inp.items() if k not in ('oracle', 'got', 'expected', 'contributions', 'stored',
                                                                                    'total_weight', 'total_weight_impl')})
    else:
        chk.notes.append('replay: no oracle named in the replay file')
