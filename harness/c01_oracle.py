"""Independent theory oracles for C01 (written from population-genetics theory, no dadi code):
 * expected SFS under the coalescent with a piecewise-constant size history;
 * drift-selection equilibrium SFS with dominance from the closed-form density (quadrature)."""
import numpy as np, math
from scipy import linalg, integrate, special

_W = {}
def _branch_weights(n):
    """W[i-1, a] = k * P(a branch present while there are k = a+2 lineages subtends i of the n samples)"""
    if n not in _W:
        W = np.zeros((n - 1, n - 1))
        for i in range(1, n):
            for a, k in enumerate(range(2, n + 1)):
                if n - i - 1 >= k - 2:
                    W[i - 1, a] = k * special.comb(n - i - 1, k - 2, exact=True) / special.comb(n - 1, k - 1, exact=True)
        _W[n] = W
    return _W[n]

def _sfs_from_pieces(n, pieces, theta=1.0):
    """pieces: list of (nu, dtau) BACKWARD in time from the present, a piece of constant size nu lasting dtau units of coalescent
    time (= real length / nu); before the last piece the size is 1 forever.  Returns E[xi_i], i = 1..n-1."""
    ks = np.arange(2, n + 1)
    m = len(ks)
    lam = ks * (ks - 1) / 2.0
    # generator of the pure-death chain on k = 2..n lineages (k=1 absorbing, dropped) in coalescent time tau
    Q = np.zeros((m, m))
    for a, k in enumerate(ks):
        Q[a, a] = -lam[a]
        if k > 2:
            Q[a, a - 1] = lam[a]
    Qinv = np.linalg.inv(Q)
    p = np.zeros(m); p[-1] = 1.0                      # start with n lineages at present
    ET = np.zeros(m)
    cache = {}
    for nu, dtau in pieces:
        if dtau <= 0: continue
        if dtau not in cache:
            if len(cache) > 64: cache.clear()
            E = linalg.expm(Q * dtau)
            # integral_0^dtau e^{Q s} ds = Q^{-1} (e^{Q dtau} - I); real time = nu * tau
            cache[dtau] = (E, Qinv @ (E - np.eye(m)))
        E, J = cache[dtau]
        ET += nu * (p @ J)
        p = p @ E
    ET += 1.0 * (p @ (-Qinv))                          # ancestral epoch, size 1, forever
    return theta / 2.0 * (_branch_weights(n) @ ET)

def coalescent_sfs(n, epochs, theta=1.0):
    """epochs: list of (nu, T) FORWARD in time, following an infinitely old ancestral population of size 1.
    Time in units of 2*Nref generations, theta = 4*Nref*mu.  Returns E[xi_i], i = 1..n-1."""
    return _sfs_from_pieces(n, [(nu, T / nu) for nu, T in reversed(list(epochs)) if T > 0], theta)

def refine_history(segments, M, K=4096):
    """A size history with continuously varying epochs as a piecewise-constant one, as pieces (nu, dtau) BACKWARD in time.
    segments: list (FORWARD in time) of (nu, T) with nu either a number (constant epoch) or a function of the time t in [0, T]
    since the start of the epoch.  A varying epoch is cut into M pieces of EQUAL coalescent-time length dtau (tau(t) = int_0^t
    ds/nu(s), composite Simpson on K sub-intervals, inverted by interpolation); a piece [t_j, t_j+1] gets the constant size
    (t_j+1 - t_j)/dtau - its harmonic-mean size, so that both its real and its coalescent length are those of the continuous
    history.  What is left is the variation of nu inside a piece, O(1/M^2)."""
    out = []
    for nu, T in segments:
        if T <= 0: continue
        if not callable(nu):
            out.append((float(nu), float(T) / float(nu))); continue
        t = np.linspace(0.0, T, 2 * K + 1)
        inv = np.array([1.0 / nu(x) for x in t])
        h = T / K
        cell = h / 6.0 * (inv[0:-1:2] + 4.0 * inv[1::2] + inv[2::2])
        tau = np.concatenate([[0.0], np.cumsum(cell)])          # at t[::2]
        tj = np.interp(np.linspace(0.0, tau[-1], M + 1), tau, t[::2]); tj[0] = 0.0; tj[-1] = T
        dtau = tau[-1] / M
        out += [(float(tj[j + 1] - tj[j]) / dtau, dtau) for j in range(M)]
    return out[::-1]

def coalescent_sfs_timedep(n, segments, theta=1.0, rtol=1e-5, M0=250, Mmax=64000):
    """expected SFS for a history whose epochs may have a time-dependent size (the death rates of the lineage process are
    C(k,2)/nu(t)): piecewise-constant refinement of nu(t), doubled until two successive refinements agree to rtol on every entry
    (the refinement check).  Returns (sfs, M used, last relative change)."""
    if not any(callable(nu) and T > 0 for nu, T in segments):
        return _sfs_from_pieces(n, refine_history(segments, 1), theta), 0, 0.0
    M = M0
    prev = _sfs_from_pieces(n, refine_history(segments, M), theta)
    while True:
        M *= 2
        cur = _sfs_from_pieces(n, refine_history(segments, M), theta)
        ch = float(np.max(np.abs(cur - prev) / cur))
        if ch <= rtol:
            return cur, M, ch
        if M >= Mmax:
            raise RuntimeError('coalescent oracle: refinement of nu(t) did not settle (change %.3g at M=%d)' % (ch, M))
        prev = cur

def selection_equilibrium_sfs(n, nu, gamma, h, theta=1.0):
    """E[xi_i] at drift-selection-mutation equilibrium for a population of relative size nu with scaled selection
    gamma = 2*Nref*s (so 2*N*s = gamma*nu), dominance h (fitness 1, 1+2sh, 1+2s), new mutations at rate theta/2 * nu^0 ...
    Density (Wright / Williamson et al. 2004, eq. 1) with G = gamma*nu:
       phi(x) = theta*nu * e^{Q(x)} / (x(1-x)) * int_x^1 e^{-Q} / int_0^1 e^{-Q},   Q(x) = 4 G h x + 2 G (1-2h) x^2."""
    G = gamma * nu
    Q = lambda x: 4 * G * h * x + 2 * G * (1 - 2 * h) * x * x
    # Q is monotone on [0,1] for h in [0,1] (Q' = 4G(h + (1-2h)x) has the sign of G), so its minimum is at an end point
    Qmin = min(Q(0.0), Q(1.0))
    pts = np.linspace(0, 1, 81)
    den = integrate.quad(lambda x: math.exp(-(Q(x) - Qmin)), 0, 1, points=pts[1:-1], limit=400, epsabs=0, epsrel=1e-12)[0]
    def phi(x):
        # e^{Q(x)} * int_x^1 e^{-Q} / int_0^1 e^{-Q}, all exponents combined so that each is <= 0
        Qx = Q(x)
        g = lambda xi: math.exp(Qx - Q(xi) + Qmin)
        brk = [p for p in pts if x < p < 1]
        num = integrate.quad(g, x, 1, points=brk[:60] or None, limit=400, epsabs=0, epsrel=1e-12)[0]
        return theta * nu * num / den / (x * (1 - x))
    out = np.zeros(n - 1)
    for i in range(1, n):
        lc = math.lgamma(n + 1) - math.lgamma(i + 1) - math.lgamma(n - i + 1)
        g = lambda x: math.exp(lc + i * math.log(x) + (n - i) * math.log1p(-x)) * phi(x) if 0 < x < 1 else 0.0
        mode = i / n
        brk = sorted(set([1e-6, 1e-4, 1e-3, 1e-2, 0.05, 0.1, 0.25, 0.5, 0.75, 0.9, 0.95, 0.99, 0.999, min(max(mode, 1e-3), 1 - 1e-3)]))
        out[i - 1] = integrate.quad(g, 0, 1, points=brk, limit=400, epsabs=0, epsrel=1e-9)[0]
    return out

if __name__ == '__main__':
    print(coalescent_sfs(6, []), [1 / i for i in range(1, 6)])
    print(coalescent_sfs(6, [(2.0, 0.3), (0.1, 0.05)]))
    s = selection_equilibrium_sfs(8, 1.0, 0.0, 0.5)
    print(s, [1 / i for i in range(1, 8)])
    print(selection_equilibrium_sfs(8, 2.0, -3.0, 0.3))
