"""Independent theory oracles for C01 (written from population-genetics theory, no dadi code):
 * expected SFS under the coalescent with a piecewise-constant size history;
 * drift-selection equilibrium SFS with dominance from the closed-form density (quadrature)."""
import numpy as np, math
from scipy import linalg, integrate, special

def coalescent_sfs(n, epochs, theta=1.0):
    """epochs: list of (nu, T) FORWARD in time, following an infinitely old ancestral population of size 1.
    Time in units of 2*Nref generations, theta = 4*Nref*mu.  Returns E[xi_i], i = 1..n-1."""
    ks = np.arange(2, n + 1)
    m = len(ks)
    lam = ks * (ks - 1) / 2.0
    # generator of the pure-death chain on k = 2..n lineages (k=1 absorbing, dropped) in coalescent time tau
    Q = np.zeros((m, m))
    for a, k in enumerate(ks):
        Q[a, a] = -lam[a]
        if k > 2:
            Q[a, a - 1] = lam[a]
    Qinv = np.linalg.inv(Q)
    p = np.zeros(m); p[-1] = 1.0                      # start with n lineages at present
    ET = np.zeros(m)
    for nu, T in reversed(list(epochs)):               # backward in time: most recent epoch first
        if T <= 0: continue
        dtau = T / nu
        E = linalg.expm(Q * dtau)
        # integral_0^dtau p e^{Q s} ds = p Q^{-1} (e^{Q dtau} - I); real time = nu * tau
        ET += nu * (p @ (Qinv @ (E - np.eye(m))))
        p = p @ E
    ET += 1.0 * (p @ (-Qinv))                          # ancestral epoch, size 1, forever
    out = np.zeros(n - 1)
    for i in range(1, n):
        s = 0.0
        for a, k in enumerate(ks):
            if n - i - 1 >= k - 2:
                s += k * ET[a] * special.comb(n - i - 1, k - 2, exact=True) / special.comb(n - 1, k - 1, exact=True)
        out[i - 1] = theta / 2.0 * s
    return out

def selection_equilibrium_sfs(n, nu, gamma, h, theta=1.0):
    """E[xi_i] at drift-selection-mutation equilibrium for a population of relative size nu with scaled selection
    gamma = 2*Nref*s (so 2*N*s = gamma*nu), dominance h (fitness 1, 1+2sh, 1+2s), new mutations at rate theta/2 * nu^0 ...
    Density (Wright / Williamson et al. 2004, eq. 1) with G = gamma*nu:
       phi(x) = theta*nu * e^{Q(x)} / (x(1-x)) * int_x^1 e^{-Q} / int_0^1 e^{-Q},   Q(x) = 4 G h x + 2 G (1-2h) x^2."""
    G = gamma * nu
    Q = lambda x: 4 * G * h * x + 2 * G * (1 - 2 * h) * x * x
    # Q is monotone on [0,1] for h in [0,1] (Q' = 4G(h + (1-2h)x) has the sign of G), so its minimum is at an end point
    Qmin = min(Q(0.0), Q(1.0))
    pts = np.linspace(0, 1, 81)
    den = integrate.quad(lambda x: math.exp(-(Q(x) - Qmin)), 0, 1, points=pts[1:-1], limit=400, epsabs=0, epsrel=1e-12)[0]
    def phi(x):
        # e^{Q(x)} * int_x^1 e^{-Q} / int_0^1 e^{-Q}, all exponents combined so that each is <= 0
        Qx = Q(x)
        g = lambda xi: math.exp(Qx - Q(xi) + Qmin)
        brk = [p for p in pts if x < p < 1]
        num = integrate.quad(g, x, 1, points=brk[:60] or None, limit=400, epsabs=0, epsrel=1e-12)[0]
        return theta * nu * num / den / (x * (1 - x))
    out = np.zeros(n - 1)
    for i in range(1, n):
        lc = math.lgamma(n + 1) - math.lgamma(i + 1) - math.lgamma(n - i + 1)
        g = lambda x: math.exp(lc + i * math.log(x) + (n - i) * math.log1p(-x)) * phi(x) if 0 < x < 1 else 0.0
        mode = i / n
        brk = sorted(set([1e-6, 1e-4, 1e-3, 1e-2, 0.05, 0.1, 0.25, 0.5, 0.75, 0.9, 0.95, 0.99, 0.999, min(max(mode, 1e-3), 1 - 1e-3)]))
        out[i - 1] = integrate.quad(g, 0, 1, points=brk, limit=400, epsabs=0, epsrel=1e-9)[0]
    return out

if __name__ == '__main__':
    print(coalescent_sfs(6, []), [1 / i for i in range(1, 6)])
    print(coalescent_sfs(6, [(2.0, 0.3), (0.1, 0.05)]))
    s = selection_equilibrium_sfs(8, 1.0, 0.0, 0.5)
    print(s, [1 / i for i in range(1, 8)])
    print(selection_equilibrium_sfs(8, 2.0, -3.0, 0.3))
