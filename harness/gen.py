"""Generators shared by the integration checks (C01–C04).  Every choice comes from one Rng."""
import numpy as np

def grid(rng, N, kind=None):
    kinds = ['uniform', 'exponential', 'quadratic', 'random', 'asym', 'dadi-quadratic']
    if kind is None:
        kind = kinds[int(rng.integers(len(kinds)))]
    if kind == 'uniform':
        g = np.linspace(0, 1, N)
    elif kind == 'exponential':
        crwd = float(rng.uniform(2, 10))
        unif = np.linspace(-1, 1, N)
        g = 1. / (1. + np.exp(-crwd * unif))
        g = (g - g[0]) / (g[-1] - g[0])
    elif kind == 'quadratic':
        u = np.linspace(0, 1, N)
        g = u * u * (3 - 2 * u) * 0.5 + u * 0.5
    elif kind == 'asym':
        # strongly asymmetric: geometric spacings (first and last spacing differ by a large factor)
        q = float(rng.uniform(1.15, 1.6)) ** (1 if rng.random() < 0.5 else -1)
        inc = q ** np.arange(N - 1)
        g = np.concatenate([[0.], np.cumsum(inc)]); g = g / g[-1]
    elif kind == 'dadi-quadratic':
        # the library's own quadratic grid (dense near 0, first spacing much smaller than the last)
        u = np.linspace(0, 1, N); g = u * u * 0.9 + u * 0.1
    else:
        inc = rng.uniform(0.2, 1.0, N - 1)
        g = np.concatenate([[0.], np.cumsum(inc)])
        g = g / g[-1]
    g = np.array(g, dtype=float)
    g[0] = 0.0; g[-1] = 1.0
    return g, kind

def density(rng, shape):
    phi = rng.uniform(0.0, 1.0, shape) ** 3 * 10
    # planted spikes at corners and edges
    d = len(shape)
    for _ in range(int(rng.integers(0, 4))):
        idx = tuple(int(rng.choice([0, 1, s - 2, s - 1, int(rng.integers(s))])) for s in shape)
        phi[idx] += float(rng.uniform(5, 50))
    return np.ascontiguousarray(phi, dtype=float)

def loguniform(rng, lo, hi):
    return float(np.exp(rng.uniform(np.log(lo), np.log(hi))))

def axis_params(rng, d, sel=True, mig=True):
    nu = loguniform(rng, 1e-2, 1e2)
    gamma = float(rng.uniform(-40, 40)) if sel and rng.random() < 0.8 else 0.0
    h = float(rng.uniform(0, 1)) if rng.random() < 0.8 else 0.5
    ms = [float(rng.uniform(0, 20)) if (mig and rng.random() < 0.85) else 0.0 for _ in range(d - 1)]
    # a population that receives no migrants at all is the commonest special value (isolation models): one case in four
    if d > 2 and rng.random() < 0.25:
        ms = [0.0] * (d - 1)
    return nu, gamma, h, ms

def round_sig(x, bits=20):
    """keep `bits` significant bits so exact rationals stay small (still a float)"""
    if x == 0: return 0.0
    import math
    m, e = math.frexp(x)
    return math.ldexp(round(m * (1 << bits)) / (1 << bits), e)

def coarse(a, bits=20):
    a = np.asarray(a, dtype=float)
    return np.vectorize(lambda v: round_sig(float(v), bits))(a) if a.size else a
