"""C20 — results independent of call history, hash seed and memory layout; inputs never modified in place.
Proved (Props/C20.lean): memo transparency given key sufficiency; key-sufficiency table and effect table regenerated
from the source.  Here (runtime clauses no model can exhibit):
  (i)   interleavings of API calls in one process vs each call in a fresh interpreter, bit-for-bit;
  (ii)  the same under different PYTHONHASHSEED values;
  (iii) C-/Fortran-ordered, transposed, sliced, negatively strided array arguments give equal results;
  (iv)  arguments are bit-for-bit unchanged and integrators return a fresh array.
K: the Lean memo model vs the real caches (hit/miss sequences)."""
import os, sys, subprocess, itertools, copy
import numpy as np
from . import common, gen
from .integ_common import kwargs_for, integrate, NAMES

PROP = 'C20'
GENERATED = ['Effects']
NEEDS_BUILD = True
NEEDS_DRIVER = False
DRIVER_MODULES = []

OPS = os.path.join(os.path.dirname(os.path.abspath(__file__)), 'c20_ops.py')

def run_ops(path, seed, idx, hashseed=None):
    env = dict(os.environ); env.pop('PYTHONPATH', None)
    if hashseed is not None: env['PYTHONHASHSEED'] = str(hashseed)
    p = subprocess.run([sys.executable, OPS, path, str(seed), ','.join(str(i) for i in idx)], stdout=subprocess.PIPE,
                       stderr=subprocess.PIPE, env=env, timeout=1200)
    out = {}
    for line in p.stdout.decode().splitlines():
        parts = line.split(' ', 1)
        if len(parts) == 2 and parts[0].isdigit():
            out[int(parts[0])] = parts[1]
        elif len(parts) == 2 and parts[0] == 'CACHE':
            out['cache'] = parts[1]
    if p.returncode != 0 and not out:
        raise common.Infra('c20_ops failed: ' + p.stderr.decode()[-1500:])
    return out

def history(chk, ctx, rng, tier):
    from concurrent.futures import ThreadPoolExecutor
    path = ctx['scratch'] or ctx['repo']
    nops = 30
    n_seq = 2 if tier == 'quick' else 8
    for s in range(n_seq):
        L = int(rng.integers(2, 41)) if tier == 'thorough' else int(rng.integers(8, 25))
        idx = [int(rng.integers(0, 400)) for _ in range(L)]
        # repeat some calls inside the sequence (cache hits) and include every op kind at least once over the run
        idx += [idx[int(rng.integers(len(idx)))] for _ in range(3)]
        if s == 0: idx += list(range(nops))
        seed = ctx['seed'] * 100 + s
        together = run_ops(path, seed, idx)
        chk.l3(('cache-soundness', s))
        if together.get('cache', 'ok') != 'ok':
            chk.fail('history:cache-corrupted', 'after the call sequence a memo table holds an entry that differs from a fresh recomputation from its key: %s' % together['cache'], dict(seed=seed, sequence=idx))
        uniq = sorted(set(idx))
        with ThreadPoolExecutor(max_workers=14) as ex:
            alone = list(ex.map(lambda i: run_ops(path, seed, [i]), uniq))
        alone = {i: d.get(i) for i, d in zip(uniq, alone)}
        for i in idx:
            chk.l3(('history', i % nops))
            a = together.get(i); b = alone.get(i)
            if a is None or b is None:
                chk.fail('history:missing:op%d' % (i % nops), 'operation %d produced no result (%r / %r)' % (i % nops, a, b), dict(seed=seed, sequence=idx, op=i)); continue
            if a != b:
                chk.fail('history:op%d' % (i % nops), 'operation #%d (kind %d) gives a different result after the call history %s than in a fresh interpreter (%s vs %s)' % (i, i % nops, idx[:idx.index(i)], a[:16], b[:16]),
                         dict(seed=seed, sequence=idx, op=i))
        # (ii) hash seeds
        for hs in ([0, 1] if tier == 'quick' else [0, 1, 2, 12345]):
            chk.l3(('hashseed', hs))
            other = run_ops(path, seed, idx, hashseed=hs)
            bad = [i for i in idx if other.get(i) != together.get(i)]
            if bad:
                chk.fail('hashseed:op%d' % (bad[0] % nops), 'results depend on PYTHONHASHSEED=%d for operations %s' % (hs, sorted(set(b % nops for b in bad))), dict(seed=seed, sequence=idx, hashseed=hs))
        chk.sample(dict(clause='history', length=len(idx), kinds=sorted(set(i % nops for i in idx))))

# ---------------------------------------------------------------- (iii) layouts, (iv) no mutation / no aliasing
def layouts(a):
    """the same values in different memory layouts"""
    out = [('C', np.ascontiguousarray(a))]
    out.append(('F', np.asfortranarray(a)))
    big = np.zeros([2 * s + 1 for s in a.shape]); sl = tuple(slice(1, 2 * s + 1, 2) for s in a.shape)
    big[sl] = a; out.append(('strided', big[sl]))
    rev = np.ascontiguousarray(a[tuple(slice(None, None, -1) for _ in a.shape)])
    out.append(('negative', rev[tuple(slice(None, None, -1) for _ in a.shape)]))
    if a.ndim >= 2:
        t = np.ascontiguousarray(np.transpose(a)); out.append(('transposed', np.transpose(t)))
    return out

def bytes_of(x):
    if isinstance(x, np.ndarray):
        m = np.ma.getmaskarray(x).tobytes() if isinstance(x, np.ma.MaskedArray) else b''
        return np.ascontiguousarray(np.ma.getdata(x)).tobytes() + m
    return repr(x).encode()

def check_call(chk, key, f, args, kwargs, array_args, inp, is_integrator=False, rtol=1e-12):
    """call f(*args, **kwargs); `array_args` = indices/keys of array or list arguments to watch"""
    if not chk.begin(key, inp): return None
    before = {}
    for k in array_args:
        v = args[k] if isinstance(k, int) else kwargs[k]
        before[k] = (bytes_of(v) if isinstance(v, np.ndarray) else repr(v).encode())
    chk.l3((key,))
    try:
        res = f(*args, **kwargs)
    except Exception as e:
        chk.fail(key + ':raises:' + type(e).__name__, '%s raises %r' % (key, e), inp); return None
    for k in array_args:
        v = args[k] if isinstance(k, int) else kwargs[k]
        after = (bytes_of(v) if isinstance(v, np.ndarray) else repr(v).encode())
        if after != before[k]:
            chk.fail(key + ':mutates:%s' % k, '%s modified its argument %r in place' % (key, k), inp)
        if is_integrator and isinstance(v, np.ndarray) and isinstance(res, np.ndarray) and np.shares_memory(res, v):
            chk.fail(key + ':alias:%s' % k, '%s returned an array sharing memory with its argument %r' % (key, k), inp)
    return res

def l3_layout_and_effects(chk, ctx, rng, tier):
    dadi = ctx['dadi']; I = dadi.Integration
    reps = 1 if tier == 'quick' else 4
    for rep in range(reps):
        for d in range(1, 6):
            pts = {1: 14, 2: 9, 3: 7, 4: 5, 5: 4}[d]
            xx = dadi.Numerics.default_grid(pts)
            phi = gen.density(rng, [pts] * d)
            nus = [gen.loguniform(rng, 0.3, 3) for _ in range(d)]
            ms = {(i, j): float(rng.uniform(0, 2)) for i in range(d) for j in range(d) if i != j}
            gam = [float(rng.uniform(-2, 2)) for _ in range(d)]; hs = [0.5] * d
            for varying in (False, True):
                kw = kwargs_for(d, nus, ms, gam, hs, 1.0)
                if varying:
                    kw['theta0'] = (lambda t: 1.0)
                T = 0.01
                f = getattr(I, NAMES[d])
                ref = None
                for zero_T in (False, True):
                    TT = 0.0 if zero_T else T
                    for lname, arr in layouts(phi):
                        for xname, xarr in layouts(xx)[:4]:
                            if lname != 'C' and xname != 'C' and rng.random() < 0.6:
                                continue
                            key = '%s:varying=%s:T0=%s:phi=%s:xx=%s' % (NAMES[d], varying, zero_T, lname, xname)
                            inp = dict(d=d, pts=pts, varying=varying, T=TT, phi_layout=lname, xx_layout=xname, nus=nus, gammas=gam)
                            a = arr.copy(order='K') if lname in ('C', 'F') else arr
                            res = check_call(chk, key, f, [a, xarr, TT], dict(kw), [0, 1], inp, is_integrator=True)
                            if res is None: continue
                            if zero_T:
                                if not np.array_equal(np.asarray(res), phi):
                                    chk.fail(key + ':value', '%s with zero duration does not return the input values' % NAMES[d], inp)
                                continue
                            if ref is None and lname == 'C' and xname == 'C':
                                ref = np.array(res)
                            elif ref is not None:
                                ok = np.all(np.isfinite(res)) and np.allclose(res, ref, rtol=1e-10, atol=1e-12 * np.max(np.abs(ref)))
                                if not ok:
                                    err = float(np.nanmax(np.abs(np.asarray(res) - ref))) if np.any(np.isfinite(res)) else float('nan')
                                    chk.fail(key + ':layout', '%s gives a different result (max diff %.3g, finite=%s) for phi layout %s / grid layout %s than for contiguous arrays' % (NAMES[d], err, bool(np.all(np.isfinite(res))), lname, xname), inp)
    # other public computations: spectrum methods, likelihoods, sampling, optimiser helpers
    S = dadi.Spectrum
    for rep in range(reps * 2):
        shape = (int(rng.integers(5, 9)), int(rng.integers(5, 9)))
        base = rng.uniform(0.1, 5, shape)
        ref = {}
        for lname, arr in layouts(base) + [('C-unmasked-corners', base.copy()), ('C-random-mask', base.copy())]:
            if lname == 'C-unmasked-corners':
                fs = S(arr, mask_corners=False)
            elif lname == 'C-random-mask':
                fs = S(arr, mask_corners=False); fs.mask = rng.random(shape) < 0.2
            else:
                fs = S(arr)
            data = S(rng.poisson(3, shape).astype(float))
            calls = [('fold', lambda fs=fs: fs.fold()), ('project', lambda fs=fs: fs.project([3, 4])), ('marginalize', lambda fs=fs: fs.marginalize([0])),
                     ('S', lambda fs=fs: np.array([fs.S()])), ('pi', lambda fs=fs: np.array([fs.marginalize([1]).pi()])),
                     ('Watterson_theta', lambda fs=fs: np.array([fs.marginalize([1], mask_corners=False).Watterson_theta()])),
                     ('S_1d', lambda fs=fs: np.array([fs.marginalize([0], mask_corners=False).S()])),
                     ('Fst', lambda fs=fs: np.array([fs.Fst()])), ('ll_multinom', lambda fs=fs, data=data: np.array([dadi.Inference.ll_multinom(fs, data)])),
                     ('scale', lambda fs=fs: fs * 2.0), ('sample-free', lambda fs=fs: fs.combine_pops([1, 2]))]
            for name, g in calls:
                key = 'Spectrum.%s:layout=%s' % (name, lname)
                b0 = bytes_of(fs); d0 = bytes_of(data)
                if not chk.begin(key, dict(shape=shape, layout=lname)): continue
                chk.l3((key,))
                try:
                    r = g()
                except Exception as e:
                    chk.fail(key + ':raises:' + type(e).__name__, '%s raises %r' % (key, e), dict(shape=shape, layout=lname)); continue
                if bytes_of(fs) != b0 or bytes_of(data) != d0:
                    chk.fail('Spectrum.%s:mutates' % name, 'Spectrum.%s modified its spectrum argument in place' % name, dict(shape=shape, layout=lname))
                val = np.ma.filled(np.ma.asarray(r), 0.0)
                if name == 'll_multinom' or lname.startswith('C-'):
                    continue      # data / mask differ for these iterations: only the no-mutation clause applies
                if name not in ref: ref[name] = val
                elif not np.allclose(val, ref[name], rtol=1e-11, atol=0):
                    chk.fail('Spectrum.%s:layout' % name, 'Spectrum.%s depends on the memory layout (%s)' % (name, lname), dict(shape=shape, layout=lname))
    # from_phi layouts
    for d in (1, 2, 3):
        pts = {1: 16, 2: 10, 3: 7}[d]
        xx = dadi.Numerics.default_grid(pts); phi = gen.density(rng, [pts] * d)
        ns = tuple(int(rng.integers(2, 6)) for _ in range(d))
        ref = None
        for lname, arr in layouts(phi):
            for xname, xarr in layouts(xx)[:4]:
                key = 'from_phi:%dD:phi=%s:xx=%s' % (d, lname, xname)
                res = check_call(chk, key, S.from_phi, [arr, ns, tuple([xarr] * d)], {}, [0], dict(d=d, ns=ns, phi_layout=lname, xx_layout=xname))
                if res is None: continue
                v = np.ma.filled(res, 0.0)
                if ref is None: ref = v
                elif not np.allclose(v, ref, rtol=1e-10, atol=1e-13 * np.max(np.abs(ref))):
                    chk.fail(key + ':layout', 'from_phi depends on memory layout (phi %s, grid %s)' % (lname, xname), dict(d=d, ns=ns))
    # optimiser helpers: list arguments must not be rewritten
    for rep in range(3):
        p = [1.0, 2.0, 0.5]; lb = [0.1, None, 0.01]; ub = [10, None, 5]
        lb0, ub0, p0 = copy.deepcopy(lb), copy.deepcopy(ub), list(p)
        if not chk.begin('perturb_params', dict(lb=lb0, ub=ub0)): continue
        chk.l3(('perturb_params',))
        np.random.seed(rep)
        try:
            dadi.Misc.perturb_params(p, fold=1, lower_bound=lb, upper_bound=ub)
        except Exception as e:
            chk.fail('perturb_params:raises:' + type(e).__name__, 'perturb_params raises %r' % (e,), dict(lb=lb0, ub=ub0)); continue
        if lb != lb0 or ub != ub0 or p != p0:
            chk.fail('perturb_params:mutates:bounds', 'Misc.perturb_params rewrote its list arguments: lower_bound %r -> %r, upper_bound %r -> %r' % (lb0, lb, ub0, ub), dict(lb=lb0, ub=ub0))
        fixed = [None, 2.0, None]; pin = [1.0, 0.5]
        f0, pin0 = list(fixed), list(pin)
        chk.l3(('project_params',))
        up = dadi.Inference._project_params_up(pin, fixed); dadi.Inference._project_params_down(list(up), fixed)
        if fixed != f0 or pin != pin0:
            chk.fail('_project_params:mutates', '_project_params_up/down modified their arguments', dict(fixed=f0, pin=pin0))

def k_memo(chk, ctx, rng):
    """the real caches behave as the memo model: hit/miss sequences return the function of the key (cache cleared first)"""
    dadi = ctx['dadi']; N = dadi.Numerics
    from math import comb
    N._projection_cache.clear()
    seq = [(int(a), int(b), int(h)) for a, b, h in zip(rng.integers(1, 8, 60), rng.integers(8, 14, 60), rng.integers(0, 8, 60))]
    seq = seq + seq[::-1]
    for (m, n, h) in seq:
        got = N._cached_projection(m, n, h)
        want = np.array([comb(m, j) * comb(n - m, h - j) / comb(n, h) if 0 <= h - j <= n - m else 0.0 for j in range(m + 1)])
        chk.l3(('memo', 'projection'))
        if not np.allclose(got, want, rtol=1e-10, atol=1e-300):
            chk.fail('memo:_cached_projection', '_cached_projection(%d,%d,%d) after a call history differs from the hypergeometric weights' % (m, n, h), dict(m=m, n=n, h=h))

class EventChk:
    """Check stub used inside the crash-isolated child: emits one JSON event per line.  `begin` announces the call about to be
    made (so that a hard crash - heap corruption in the C kernels - is attributed to it) and skips cases already done."""
    def __init__(self, skip):
        self.n = 0; self.skip = skip
    def emit(self, **kw):
        import json
        sys.stdout.write(json.dumps(common.jsonable(kw)) + '\n'); sys.stdout.flush()
    def begin(self, key, inp):
        self.n += 1
        if self.n <= self.skip: return False
        self.emit(ev='start', n=self.n, key=key, input=inp)
        return True
    def l3(self, key): self.emit(ev='l3', key=key)
    def fail(self, key, what, inp): self.emit(ev='fail', key=key, what=what, input=inp)

def worker_main():
    path, seed, tier, skip = sys.argv[2], int(sys.argv[3]), sys.argv[4], int(sys.argv[5])
    sys.path.insert(0, path)
    import warnings, logging
    warnings.filterwarnings('ignore'); logging.disable(logging.WARNING)
    np.seterr(all='ignore')
    import dadi
    assert os.path.realpath(dadi.__file__).startswith(os.path.realpath(path))
    chk = EventChk(skip)
    l3_layout_and_effects(chk, dict(dadi=dadi), common.Rng(seed, 'C20-layout'), tier)
    chk.emit(ev='done')

def layout_isolated(chk, ctx, tier):
    """run l3_layout_and_effects in a child process; restart after a hard crash, attributing it to the announced call"""
    import json
    path = ctx['scratch'] or ctx['repo']
    skip = 0; crashes = 0
    while True:
        env = dict(os.environ); env['PYTHONPATH'] = common.VERIF
        p = subprocess.run([sys.executable, '-m', 'harness.c20', 'worker', path, str(ctx['seed']), tier, str(skip)], cwd=common.VERIF,
                           stdout=subprocess.PIPE, stderr=subprocess.PIPE, env=env, timeout=3000)
        last = None; done = False
        for line in p.stdout.decode(errors='replace').splitlines():
            try: ev = json.loads(line)
            except Exception: continue
            if ev['ev'] == 'start': last = ev
            elif ev['ev'] == 'l3': chk.l3(tuple(ev['key']) if isinstance(ev['key'], list) else ev['key'])
            elif ev['ev'] == 'fail': chk.fail(ev['key'], ev['what'], ev['input'])
            elif ev['ev'] == 'done': done = True
        if done: break
        if last is None:
            raise common.Infra('C20 layout worker died before its first case: ' + p.stderr.decode(errors='replace')[-1500:])
        crashes += 1
        chk.fail(last['key'] + ':crash', 'the interpreter crashed (exit %s: %s) during %s' % (p.returncode, p.stderr.decode(errors='replace').strip().splitlines()[-1:] , last['key']), last['input'])
        skip = last['n']
        if crashes > 60:
            break
    chk.stats['layout_worker_crashes'] = crashes

def run(chk, ctx):
    tier = ctx['tier']; rng = common.Rng(ctx['seed'], 'C20')
    chk.rule = ('(i) random interleavings (length 2-40, repeated calls) of 30 kinds of API calls vs each call in a fresh interpreter, results hashed bit-for-bit; '
                '(ii) same sequence under several PYTHONHASHSEED values; (iii) C/F/strided/negatively-strided/transposed layouts of phi and of the grid for every integrator '
                '(constant and time-dependent drivers, zero and positive duration), from_phi and Spectrum methods; (iv) byte comparison of every array/list argument before/after '
                'and np.shares_memory(result, argument). non-trivial = distinct (clause, function, layout) keys')
    chk.unproved = ['hash-seed independence, memory-layout independence, object identity and aliasing are runtime facts: monitored (L3), not provable in a pure model',
                    'the effect table is a conservative syntactic analysis (tools/gen_Effects.py), not a semantic proof; dynamic dispatch and C-level writes are covered by the byte comparisons only']
    chk.assumptions.append('fresh-interpreter reference runs use the same scratch build of dadi')
    layout_isolated(chk, ctx, tier)
    k_memo(chk, ctx, rng)
    history(chk, ctx, rng, tier)

def replay(chk, ctx, data):
    run(chk, ctx)

if __name__ == '__main__' and len(sys.argv) > 1 and sys.argv[1] == 'worker':
    worker_main()
