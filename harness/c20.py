"""C20 — results independent of call history, hash seed and memory layout; inputs never modified in place.
Proved (Props/C20.lean): memo transparency given key sufficiency; key-sufficiency table and effect table regenerated
from the source.  Here (runtime clauses no model can exhibit):
  (i)   interleavings of API calls in one process vs each call in a fresh interpreter, bit-for-bit;
  (ii)  the same under different PYTHONHASHSEED values;
  (iii) C-/Fortran-ordered, transposed, sliced, negatively strided array arguments give equal results — the density and the grid of
        every integrator, sampler and phi manipulation, and BOTH arrays of a spectrum: data x mask layouts (explicit masks in C / Fortran /
        transposed / strided / reversed / broadcast layout, list, integer array, absent; spectra that are transposed / reversed / sliced
        views) x corner entries masked or not, for every Spectrum method, statistic, likelihood: same result, same mask and flags afterwards;
  (iv)  arguments are bit-for-bit unchanged and integrators return a fresh array (incl. demes calls on ancient-sample routes).
K: the Lean memo model vs the real caches (hit/miss sequences); the Lean alias-flow model vs the observed effects of the demes front end;
   the Lean strided-array model executing the generated in-place stores of mask_corners / unmask_all vs the memory block of real masks."""
import os, sys, subprocess, itertools, copy
import numpy as np
from . import common, gen
from .integ_common import kwargs_for, integrate, NAMES

PROP = 'C20'
GENERATED = ['Effects']
NEEDS_BUILD = True
NEEDS_DRIVER = True
DRIVER_MODULES = ['Memo']

OPS = os.path.join(os.path.dirname(os.path.abspath(__file__)), 'c20_ops.py')

def run_ops(path, seed, idx, hashseed=None, fresh_each=False, occurrences=False):
    env = dict(os.environ); env.pop('PYTHONPATH', None)
    env.setdefault('OMP_NUM_THREADS', '1'); env.setdefault('OPENBLAS_NUM_THREADS', '1')
    if hashseed is not None: env['PYTHONHASHSEED'] = str(hashseed)
    p = subprocess.run([sys.executable, OPS, path, str(seed), ','.join(str(i) for i in idx)] + (['--fresh-each'] if fresh_each else []), stdout=subprocess.PIPE,
                       stderr=subprocess.PIPE, env=env, timeout=1200)
    out = {}; occ = []
    for line in p.stdout.decode().splitlines():
        parts = line.split(' ', 1)
        if len(parts) == 2 and parts[0].isdigit():
            out[int(parts[0])] = parts[1]; occ.append((int(parts[0]), parts[1]))
        elif len(parts) == 2 and parts[0].startswith('m:'):
            out[parts[0]] = parts[1]; occ.append((parts[0], parts[1]))
        elif len(parts) == 2 and parts[0] == 'CACHE':
            out['cache'] = parts[1]
    if p.returncode != 0 and not out:
        raise common.Infra('c20_ops failed: ' + p.stderr.decode()[-1500:])
    if occurrences:
        return occ, out.get('cache', 'ok')
    return out

def memo_histories(chk, ctx, rng, tier):
    """(i') for every memo table, two otherwise identical calls that differ in exactly ONE input of the cached computation, in both
    orders and repeated, each compared with the same call in a fresh interpreter"""
    from concurrent.futures import ThreadPoolExecutor
    from .c20_ops import MEMO_INPUTS
    path = ctx['scratch'] or ctx['repo']
    nrep = 1 if tier == 'quick' else 3
    for rep in range(nrep):
        seed = ctx['seed'] * 100 + 50 + rep
        jobs = []
        for t in sorted(MEMO_INPUTS):
            seq = []
            for k in range(len(MEMO_INPUTS[t])):
                a, b = 'm:%s:%d:0' % (t, k), 'm:%s:%d:1' % (t, k)
                seq += [a, b, a, b] if rng.random() < 0.5 else [b, a, b, a]
            jobs.append((t, seq))
        # group the tables into a few processes (tables of one group share a process: more history, not less)
        ngroups = 8
        groups = [[j for i, j in enumerate(jobs) if i % ngroups == g] for g in range(ngroups)]
        groups = [g for g in groups if g]
        def together(g):
            return run_ops(path, seed, [tok for _, seq in g for tok in seq], occurrences=True)
        def alone(g):
            return run_ops(path, seed, sorted(set(tok for _, seq in g for tok in seq)), fresh_each=True)
        with ThreadPoolExecutor(max_workers=8) as ex:
            tog = list(ex.map(together, groups)); alo = list(ex.map(alone, groups))
        for g, (occ, cache), fresh in zip(groups, tog, alo):
            chk.l3(('memo-cache-soundness', tuple(t for t, _ in g)))
            if cache != 'ok':
                chk.fail('memo-history:cache-corrupted', 'after histories over %s a memo table holds an entry that differs from a fresh recomputation from its key: %s' % ([t for t, _ in g], cache), dict(seed=seed, tables=[t for t, _ in g]))
            want = [tok for _, seq in g for tok in seq]
            if [o[0] for o in occ] != want:
                chk.fail('memo-history:missing', 'the history process produced %d of %d results' % (len(occ), len(want)), dict(seed=seed, tables=[t for t, _ in g])); continue
            for pos, (tok, dig) in enumerate(occ):
                parts = tok.split(':'); t = ':'.join(parts[1:-2]); k = int(parts[-2]); v = int(parts[-1])
                chk.l3(('memo-history', t, MEMO_INPUTS[t][k]))
                ref = fresh.get(tok)
                if ref is None:
                    chk.fail('memo-history:missing:%s' % t, 'no fresh-interpreter result for %s' % tok, dict(seed=seed, token=tok)); continue
                if dig.startswith('EXC:') and ref.startswith('EXC:'):
                    chk.stat('memo_history_raises'); continue
                if dig != ref:
                    before = [o[0] for o in occ[:pos]]
                    chk.fail('memo-history:%s:%s' % (t.split(':')[0], MEMO_INPUTS[t][k]),
                             '%s: the call with %s input %r gives a different result after %d earlier calls (the previous one identical except for %r) than in a fresh interpreter (%s vs %s)' % (
                                 t, 'the varied' if v else 'the base', MEMO_INPUTS[t][k], len(before), MEMO_INPUTS[t][k], dig[:16], ref[:16]),
                             dict(seed=seed, table=t, varied_input=MEMO_INPUTS[t][k], token=tok, history=before[-8:]))
                # the two members of a pair must differ (otherwise the varied input was not an input at all: generator sanity)
            vals = {}
            for tok, dig in fresh.items():
                if isinstance(tok, str) and tok.startswith('m:'): vals.setdefault(tok.rsplit(':', 1)[0], set()).add(dig)
            for pair, ds in vals.items():
                chk.stat('memo_pairs'); 
                if len(ds) < 2: chk.stat('memo_pairs_with_equal_values')
        chk.sample(dict(clause='memo-history', tables=len(jobs), inputs=sum(len(v) for v in MEMO_INPUTS.values())))

def history(chk, ctx, rng, tier):
    from concurrent.futures import ThreadPoolExecutor
    path = ctx['scratch'] or ctx['repo']
    from .c20_ops import N_OPS as nops
    n_seq = 2 if tier == 'quick' else 8
    for s in range(n_seq):
        L = int(rng.integers(2, 41)) if tier == 'thorough' else int(rng.integers(8, 25))
        idx = [int(rng.integers(0, 400)) for _ in range(L)]
        # repeat some calls inside the sequence (cache hits) and include every op kind at least once over the run
        idx += [idx[int(rng.integers(len(idx)))] for _ in range(3)]
        if s == 0:
            idx += list(range(nops))
            # many instances of the same-length/different-grid integrations in one process (the last op of the table), in random places
            alt = nops - 1
            for j in range(1, 17):
                idx.insert(int(rng.integers(len(idx) + 1)), alt + nops * int(rng.integers(1, 400)))
        seed = ctx['seed'] * 100 + s
        together = run_ops(path, seed, idx)
        chk.l3(('cache-soundness', s))
        if together.get('cache', 'ok') != 'ok':
            chk.fail('history:cache-corrupted', 'after the call sequence a memo table holds an entry that differs from a fresh recomputation from its key: %s' % together['cache'], dict(seed=seed, sequence=idx))
        uniq = sorted(set(idx))
        with ThreadPoolExecutor(max_workers=14) as ex:
            alone = list(ex.map(lambda i: run_ops(path, seed, [i]), uniq))
        alone = {i: d.get(i) for i, d in zip(uniq, alone)}
        for i in idx:
            chk.l3(('history', i % nops))
            a = together.get(i); b = alone.get(i)
            if a is None or b is None:
                chk.fail('history:missing:op%d' % (i % nops), 'operation %d produced no result (%r / %r)' % (i % nops, a, b), dict(seed=seed, sequence=idx, op=i)); continue
            if a != b:
                chk.fail('history:op%d' % (i % nops), 'operation #%d (kind %d) gives a different result after the call history %s than in a fresh interpreter (%s vs %s)' % (i, i % nops, idx[:idx.index(i)], a[:16], b[:16]),
                         dict(seed=seed, sequence=idx, op=i))
        # (ii) hash seeds
        for hs in ([0, 1] if tier == 'quick' else [0, 1, 2, 12345]):
            chk.l3(('hashseed', hs))
            other = run_ops(path, seed, idx, hashseed=hs)
            bad = [i for i in idx if other.get(i) != together.get(i)]
            if bad:
                chk.fail('hashseed:op%d' % (bad[0] % nops), 'results depend on PYTHONHASHSEED=%d for operations %s' % (hs, sorted(set(b % nops for b in bad))), dict(seed=seed, sequence=idx, hashseed=hs))
        chk.sample(dict(clause='history', length=len(idx), kinds=sorted(set(i % nops for i in idx))))

# ---------------------------------------------------------------- (iii) layouts, (iv) no mutation / no aliasing
def layouts(a):
    """the same values in different memory layouts"""
    out = [('C', np.ascontiguousarray(a))]
    out.append(('F', np.asfortranarray(a)))
    big = np.zeros([2 * s + 1 for s in a.shape]); sl = tuple(slice(1, 2 * s + 1, 2) for s in a.shape)
    big[sl] = a; out.append(('strided', big[sl]))
    rev = np.ascontiguousarray(a[tuple(slice(None, None, -1) for _ in a.shape)])
    out.append(('negative', rev[tuple(slice(None, None, -1) for _ in a.shape)]))
    if a.ndim >= 2:
        t = np.ascontiguousarray(np.transpose(a)); out.append(('transposed', np.transpose(t)))
    return out

def bytes_of(x):
    if isinstance(x, np.ndarray):
        m = np.ma.getmaskarray(x).tobytes() if isinstance(x, np.ma.MaskedArray) else b''
        return np.ascontiguousarray(np.ma.getdata(x)).tobytes() + m
    return repr(x).encode()

def check_call(chk, key, f, args, kwargs, array_args, inp, is_integrator=False, rtol=1e-12):
    """call f(*args, **kwargs); `array_args` = indices/keys of array or list arguments to watch"""
    if not chk.begin(key, inp): return None
    before = {}
    for k in array_args:
        v = args[k] if isinstance(k, int) else kwargs[k]
        before[k] = (bytes_of(v) if isinstance(v, np.ndarray) else repr(v).encode())
    chk.l3((key,))
    try:
        res = f(*args, **kwargs)
    except Exception as e:
        chk.fail(key + ':raises:' + type(e).__name__, '%s raises %r' % (key, e), inp); return None
    for k in array_args:
        v = args[k] if isinstance(k, int) else kwargs[k]
        after = (bytes_of(v) if isinstance(v, np.ndarray) else repr(v).encode())
        if after != before[k]:
            chk.fail(key + ':mutates:%s' % k, '%s modified its argument %r in place' % (key, k), inp)
        if is_integrator and isinstance(v, np.ndarray) and isinstance(res, np.ndarray) and np.shares_memory(res, v):
            chk.fail(key + ':alias:%s' % k, '%s returned an array sharing memory with its argument %r' % (key, k), inp)
    return res

def l3_layout_and_effects(chk, ctx, rng, tier):
    dadi = ctx['dadi']; I = dadi.Integration
    reps = 1 if tier == 'quick' else 4
    for rep in range(reps):
        for d in range(1, 6):
            pts = {1: 14, 2: 9, 3: 7, 4: 5, 5: 4}[d]
            xx = dadi.Numerics.default_grid(pts)
            phi = gen.density(rng, [pts] * d)
            nus = [gen.loguniform(rng, 0.3, 3) for _ in range(d)]
            ms = {(i, j): float(rng.uniform(0, 2)) for i in range(d) for j in range(d) if i != j}
            gam = [float(rng.uniform(-2, 2)) for _ in range(d)]; hs = [0.5] * d
            for varying in (False, True):
                kw = kwargs_for(d, nus, ms, gam, hs, 1.0)
                if varying:
                    kw['theta0'] = (lambda t: 1.0)
                T = 0.01
                f = getattr(I, NAMES[d])
                ref = None
                for zero_T in (False, True):
                    TT = 0.0 if zero_T else T
                    for lname, arr in layouts(phi):
                        for xname, xarr in layouts(xx)[:4]:
                            if lname != 'C' and xname != 'C' and rng.random() < 0.6:
                                continue
                            key = '%s:varying=%s:T0=%s:phi=%s:xx=%s' % (NAMES[d], varying, zero_T, lname, xname)
                            inp = dict(d=d, pts=pts, varying=varying, T=TT, phi_layout=lname, xx_layout=xname, nus=nus, gammas=gam)
                            a = arr.copy(order='K') if lname in ('C', 'F') else arr
                            res = check_call(chk, key, f, [a, xarr, TT], dict(kw), [0, 1], inp, is_integrator=True)
                            if res is None: continue
                            if zero_T:
                                if not np.array_equal(np.asarray(res), phi):
                                    chk.fail(key + ':value', '%s with zero duration does not return the input values' % NAMES[d], inp)
                                continue
                            if ref is None and lname == 'C' and xname == 'C':
                                ref = np.array(res)
                            elif ref is not None:
                                ok = np.all(np.isfinite(res)) and np.allclose(res, ref, rtol=1e-10, atol=1e-12 * np.max(np.abs(ref)))
                                if not ok:
                                    err = float(np.nanmax(np.abs(np.asarray(res) - ref))) if np.any(np.isfinite(res)) else float('nan')
                                    chk.fail(key + ':layout', '%s gives a different result (max diff %.3g, finite=%s) for phi layout %s / grid layout %s than for contiguous arrays' % (NAMES[d], err, bool(np.all(np.isfinite(res))), lname, xname), inp)
    # other public computations: spectrum methods, likelihoods, sampling, optimiser helpers
    S = dadi.Spectrum
    for rep in range(reps * 2):
        shape = (int(rng.integers(5, 9)), int(rng.integers(5, 9)))
        base = rng.uniform(0.1, 5, shape)
        ref = {}
        for lname, arr in layouts(base) + [('C-unmasked-corners', base.copy()), ('C-random-mask', base.copy())]:
            if lname == 'C-unmasked-corners':
                fs = S(arr, mask_corners=False)
            elif lname == 'C-random-mask':
                fs = S(arr, mask_corners=False); fs.mask = rng.random(shape) < 0.2
            else:
                fs = S(arr)
            data = S(rng.poisson(3, shape).astype(float))
            calls = [('fold', lambda fs=fs: fs.fold()), ('project', lambda fs=fs: fs.project([3, 4])), ('marginalize', lambda fs=fs: fs.marginalize([0])),
                     ('S', lambda fs=fs: np.array([fs.S()])), ('pi', lambda fs=fs: np.array([fs.marginalize([1]).pi()])),
                     ('Watterson_theta', lambda fs=fs: np.array([fs.marginalize([1], mask_corners=False).Watterson_theta()])),
                     ('S_1d', lambda fs=fs: np.array([fs.marginalize([0], mask_corners=False).S()])),
                     ('Fst', lambda fs=fs: np.array([fs.Fst()])), ('ll_multinom', lambda fs=fs, data=data: np.array([dadi.Inference.ll_multinom(fs, data)])),
                     ('scale', lambda fs=fs: fs * 2.0), ('sample-free', lambda fs=fs: fs.combine_pops([1, 2]))]
            for name, g in calls:
                key = 'Spectrum.%s:layout=%s' % (name, lname)
                b0 = bytes_of(fs); d0 = bytes_of(data)
                if not chk.begin(key, dict(shape=shape, layout=lname)): continue
                chk.l3((key,))
                try:
                    r = g()
                except Exception as e:
                    chk.fail(key + ':raises:' + type(e).__name__, '%s raises %r' % (key, e), dict(shape=shape, layout=lname)); continue
                if bytes_of(fs) != b0 or bytes_of(data) != d0:
                    chk.fail('Spectrum.%s:mutates' % name, 'Spectrum.%s modified its spectrum argument in place' % name, dict(shape=shape, layout=lname))
                val = np.ma.filled(np.ma.asarray(r), 0.0)
                if name == 'll_multinom' or lname.startswith('C-'):
                    continue      # data / mask differ for these iterations: only the no-mutation clause applies
                if name not in ref: ref[name] = val
                elif not np.allclose(val, ref[name], rtol=1e-11, atol=0):
                    chk.fail('Spectrum.%s:layout' % name, 'Spectrum.%s depends on the memory layout (%s)' % (name, lname), dict(shape=shape, layout=lname))
    # from_phi layouts
    for d in (1, 2, 3):
        pts = {1: 16, 2: 10, 3: 7}[d]
        xx = dadi.Numerics.default_grid(pts); phi = gen.density(rng, [pts] * d)
        ns = tuple(int(rng.integers(2, 6)) for _ in range(d))
        ref = None
        for lname, arr in layouts(phi):
            for xname, xarr in layouts(xx)[:4]:
                key = 'from_phi:%dD:phi=%s:xx=%s' % (d, lname, xname)
                res = check_call(chk, key, S.from_phi, [arr, ns, tuple([xarr] * d)], {}, [0], dict(d=d, ns=ns, phi_layout=lname, xx_layout=xname))
                if res is None: continue
                v = np.ma.filled(res, 0.0)
                if ref is None: ref = v
                elif not np.allclose(v, ref, rtol=1e-10, atol=1e-13 * np.max(np.abs(ref))):
                    chk.fail(key + ':layout', 'from_phi depends on memory layout (phi %s, grid %s)' % (lname, xname), dict(d=d, ns=ns))
    # optimiser helpers: list arguments must not be rewritten
    for rep in range(3):
        p = [1.0, 2.0, 0.5]; lb = [0.1, None, 0.01]; ub = [10, None, 5]
        lb0, ub0, p0 = copy.deepcopy(lb), copy.deepcopy(ub), list(p)
        if not chk.begin('perturb_params', dict(lb=lb0, ub=ub0)): continue
        chk.l3(('perturb_params',))
        np.random.seed(rep)
        try:
            dadi.Misc.perturb_params(p, fold=1, lower_bound=lb, upper_bound=ub)
        except Exception as e:
            chk.fail('perturb_params:raises:' + type(e).__name__, 'perturb_params raises %r' % (e,), dict(lb=lb0, ub=ub0)); continue
        if lb != lb0 or ub != ub0 or p != p0:
            chk.fail('perturb_params:mutates:bounds', 'Misc.perturb_params rewrote its list arguments: lower_bound %r -> %r, upper_bound %r -> %r' % (lb0, lb, ub0, ub), dict(lb=lb0, ub=ub0))
        fixed = [None, 2.0, None]; pin = [1.0, 0.5]
        f0, pin0 = list(fixed), list(pin)
        chk.l3(('project_params',))
        up = dadi.Inference._project_params_up(pin, fixed); dadi.Inference._project_params_down(list(up), fixed)
        if fixed != f0 or pin != pin0:
            chk.fail('_project_params:mutates', '_project_params_up/down modified their arguments', dict(fixed=f0, pin=pin0))

# ---------------------------------------------------------------- (iii') spectra in every layout of data AND mask
# Class: a spectrum carries two arrays — data and mask.  The same logical spectrum (same values, same mask, same flags), whatever
# the memory layout of EITHER array, must give the same results from every method / statistic / likelihood, and the same mask and
# flags afterwards — also for the methods that write into the mask (mask_corners, unmask_all, S with its temporary re-masking).
# Layout sources: (a) the constructor given data in C / Fortran / strided / negatively strided / transposed layout and an explicit
# mask in C / Fortran / transposed / strided / negatively strided / broadcast (read-only, zero strides) layout, as nested list or
# integer array, or no mask; (b) views of a spectrum: transpose, swapaxes, reversal, slicing out of a larger spectrum.
# Crossed with: corner entries masked in the input or not, mask_corners=True / False (for views: mask_corners() called on the
# view), masks with / without interior entries, unfolded / folded spectra.
def spectrum_canon(x):
    """layout-free description of a result: values in logical order, mask, flags"""
    if x is None: return ('none',)
    if isinstance(x, (tuple, list)): return ('seq',) + tuple(spectrum_canon(e) for e in x)
    if isinstance(x, np.ma.MaskedArray):
        m = np.array(np.ma.getmaskarray(x), dtype=bool)
        d = np.array(np.ma.getdata(x), dtype=float)
        d = np.where(m, 0.0, d)
        return ('ma', tuple(x.shape), d, m, repr(getattr(x, 'folded', None)), repr(getattr(x, 'pop_ids', None)))
    a = np.array(x, dtype=float)
    return ('nd', tuple(a.shape), a)

def canon_diff(a, b, rtol=1e-12):
    """None if equal; else (kind, text).  Masks, shapes and flags exactly; values to a few ulps (numpy's reductions follow the memory
    order, so the last bits of a sum of non-integers may differ between layouts)"""
    if a[0] != b[0]: return ('type', '%s vs %s' % (a[0], b[0]))
    if a[0] == 'none': return None
    if a[0] == 'seq':
        if len(a) != len(b): return ('length', '%d vs %d' % (len(a) - 1, len(b) - 1))
        for x, y in zip(a[1:], b[1:]):
            d = canon_diff(x, y, rtol)
            if d: return d
        return None
    if a[1] != b[1]: return ('shape', '%s vs %s' % (a[1], b[1]))
    if a[0] == 'ma':
        if not np.array_equal(a[3], b[3]):
            return ('mask', 'masked entries %s vs %s' % (np.argwhere(a[3]).tolist()[:6], np.argwhere(b[3]).tolist()[:6]))
        if a[4:] != b[4:]: return ('flags', '%s vs %s' % (a[4:], b[4:]))
    x, y = a[2], b[2]
    scale = float(np.max(np.abs(y[np.isfinite(y)]))) if np.any(np.isfinite(y)) else 0.0
    if not np.allclose(x, y, rtol=rtol, atol=1e-13 * scale, equal_nan=True):
        return ('value', '%s vs %s' % (np.ravel(x)[:4], np.ravel(y)[:4]))
    return None

def array_layouts(a, rng=None):
    """(name, array with the same logical content) — for data and masks alike"""
    nd = a.ndim
    out = [('C', np.ascontiguousarray(a).copy())]
    if nd >= 2:
        out.append(('F', np.asfortranarray(a).copy(order='F')))
        out.append(('transposed', np.ascontiguousarray(np.transpose(a)).T))
    if nd >= 3:
        out.append(('swapaxes', np.ascontiguousarray(a.swapaxes(0, nd - 1)).swapaxes(0, nd - 1)))
    big = np.zeros([2 * s_ + 1 for s_ in a.shape], dtype=a.dtype); sl = tuple(slice(1, 2 * s_ + 1, 2) for s_ in a.shape)
    big[sl] = a; out.append(('strided', big[sl]))
    rv = tuple(slice(None, None, -1) for _ in a.shape)
    out.append(('negative', np.ascontiguousarray(a[rv])[rv]))
    return out

def mask_layouts(M):
    out = array_layouts(M)
    out.append(('list', M.tolist()))
    out.append(('int', M.astype(int)))
    # broadcast (zero strides, read-only) when the mask is constant along an axis
    if not M.any():
        out.append(('broadcast', np.broadcast_to(np.array(False), M.shape)))
        out.append(('absent', None))
    elif M.ndim >= 2 and all(np.array_equal(M[0], M[i]) for i in range(M.shape[0])):
        out.append(('broadcast', np.broadcast_to(M[0].copy(), M.shape)))
    return out

def spectrum_variants(S, vals, M, mc, folded, pop_ids, quick, rng):
    """the reference (everything C-ordered and private) and the same logical spectrum built along other routes"""
    kw = dict(data_folded=True) if folded else {}
    def ctor(d, m):
        def build():
            d_ = d.copy(order='K') if isinstance(d, np.ndarray) and d.flags.owndata else d
            args = dict(kw, mask_corners=mc, pop_ids=(list(pop_ids) if pop_ids else None))
            if m is not None: args['mask'] = m.copy(order='K') if isinstance(m, np.ndarray) and m.flags.owndata and m.flags.writeable else m
            return S(d_, **args)
        return build
    ref = ctor(np.ascontiguousarray(vals).copy(), np.ascontiguousarray(M).copy())
    dls = array_layouts(vals); mls = mask_layouts(M)
    pairs = [(a, b) for a in range(len(dls)) for b in range(len(mls))]
    if quick:
        # every mask layout with C data, every data layout with C mask, every mask layout with one random non-C data layout
        keep = {(0, b) for b in range(len(mls))} | {(a, 0) for a in range(len(dls))} | {(1 + int(rng.integers(len(dls) - 1)), b) for b in range(1, len(mls))}
        pairs = [p_ for p_ in pairs if p_ in keep]
    out = []
    for a, b in pairs:
        if a == 0 and b == 0: continue
        out.append(('ctor:data=%s:mask=%s' % (dls[a][0], mls[b][0]), ctor(dls[a][1], mls[b][1])))
    # views of a spectrum (no pop_ids: a transposition does not permute labels)
    if not pop_ids:
        nd = vals.ndim
        def view(perm_in, perm_out):
            def build():
                base = S(np.ascontiguousarray(perm_in(vals)).copy(), mask=np.ascontiguousarray(perm_in(M)).copy(), mask_corners=False, **kw)
                v = perm_out(base)
                if mc: v.mask_corners()
                return v
            return build
        rv = tuple(slice(None, None, -1) for _ in vals.shape)
        out.append(('view:reversed', view(lambda x: x[rv], lambda f: f[rv])))
        if nd >= 2:
            out.append(('view:transpose', view(lambda x: np.transpose(x), lambda f: f.transpose())))
            out.append(('view:T', view(lambda x: x.T, lambda f: f.T)))
        if nd >= 3:
            out.append(('view:swapaxes', view(lambda x: x.swapaxes(0, 1), lambda f: f.swapaxes(0, 1))))
        def sliced():
            sl = tuple(slice(1, 2 * s_ + 1, 2) for s_ in vals.shape)
            big = np.ones([2 * s_ + 1 for s_ in vals.shape]); bm = np.zeros(big.shape, dtype=bool)
            big[sl] = vals; bm[sl] = M
            v = S(big, mask=bm, mask_corners=False, **kw)[sl]
            if mc: v.mask_corners()
            return v
        out.append(('view:sliced', sliced))
    return ref, out

def spectrum_methods(dadi, rng, shape, folded, other_model, other_data, heavy, godambe=False):
    """(name, callable(fs) -> result); every callable is deterministic given the logical content of fs"""
    import pickle, tempfile
    nd = len(shape); Inf = dadi.Inference
    def quiet(g):
        # (ll_per_bin prints when model and data masks differ; stdout is the worker's event channel)
        def h(fs):
            import io, contextlib
            with contextlib.redirect_stdout(io.StringIO()):
                return g(fs)
        return h
    ms = [('construct', lambda fs: fs), ('mask_corners', lambda fs: fs.mask_corners()), ('unmask_all', lambda fs: fs.unmask_all()),
          ('S', lambda fs: fs.S()), ('sum', lambda fs: fs.sum()), ('log', lambda fs: fs.log()),
          ('mul', lambda fs: fs * 2.0), ('add', lambda fs: fs + other_model()), ('imul', lambda fs: fs.__imul__(2.0)),
          ('copy', lambda fs: fs.copy()), ('deepcopy', lambda fs: copy.deepcopy(fs)), ('pickle', lambda fs: pickle.loads(pickle.dumps(fs)))]
    ms += [('Numerics.apply_anc_state_misid', lambda fs: dadi.Numerics.apply_anc_state_misid(fs, 0.125)), ('Numerics.reverse_array', lambda fs: dadi.Numerics.reverse_array(fs)),
           ('Numerics.intersect_masks', lambda fs: list(dadi.Numerics.intersect_masks(fs.mask, other_data().mask)))]
    seed = int(rng.integers(1 << 30))
    def seeded(f):
        def g(fs):
            np.random.seed(seed); return f(fs)
        return g
    ms += [('sample', seeded(lambda fs: fs.sample())), ('fixed_size_sample', seeded(lambda fs: fs.fixed_size_sample(50))),
           ('fixed_size_sample:only_nonmasked', seeded(lambda fs: fs.fixed_size_sample(50, only_nonmasked=True)))]
    def roundtrip(fs):
        fd, path = tempfile.mkstemp(suffix='.fs', prefix='c20_'); os.close(fd)
        try:
            fs.to_file(path); return dadi.Spectrum.from_file(path, mask_corners=False)
        finally:
            os.unlink(path)
    ms.append(('to_file', roundtrip))
    if not folded:
        ms += [('fold', lambda fs: fs.fold()), ('fold.unfold', lambda fs: fs.fold().unfold())]
        to = [int(rng.integers(2, s_ - 1)) if s_ > 3 else s_ - 1 for s_ in shape]
        ms.append(('project', lambda fs: fs.project(to)))
    else:
        ms.append(('unfold', lambda fs: fs.unfold()))
    if nd == 1 and godambe:
        # an uncertainty call with the spectrum as its data (thorough tier): the model is a fixed one-population model
        def model(params, ns, pts):
            xx = dadi.Numerics.default_grid(pts)
            phi = dadi.Integration.one_pop(dadi.PhiManip.phi_1D(xx), xx, params[1], params[0])
            return dadi.Spectrum.from_phi(phi, ns, (xx,))
        ex = dadi.Numerics.make_extrap_func(model)
        ms.append(('Godambe.FIM_uncert:data', quiet(lambda fs: dadi.Godambe.FIM_uncert(ex, [12, 14, 16], [1.5, 0.3], fs, multinom=True, eps=0.01, return_FIM=True))))
    if nd == 1:
        ms += [('pi', lambda fs: fs.pi()), ('Watterson_theta', lambda fs: fs.Watterson_theta()), ('theta_L', lambda fs: fs.theta_L()),
               ('Zengs_E', lambda fs: fs.Zengs_E()), ('Tajima_D', lambda fs: fs.Tajima_D())]
    else:
        ms.append(('Fst', lambda fs: fs.Fst()))
        for ax in range(nd):
            for mcorn in (True, False):
                if folded and heavy is False and mcorn is False: continue
                ms.append(('marginalize:%d:mask_corners=%s' % (ax, mcorn), lambda fs, ax=ax, mcorn=mcorn: fs.marginalize([ax], mask_corners=mcorn)))
        keep = sorted(int(x) + 1 for x in rng.choice(np.arange(nd), nd - 1, replace=False))
        ms.append(('filter_pops', lambda fs: fs.filter_pops(keep)))
        if not folded:
            comb = sorted(int(x) + 1 for x in rng.choice(np.arange(nd), 2, replace=False))
            ms.append(('combine_pops', lambda fs: fs.combine_pops(comb)))
            order = [int(x) + 1 for x in rng.permutation(nd)]
            ms.append(('reorder_pops', lambda fs: fs.reorder_pops(order)))
            if heavy: ms.append(('scramble_pop_ids', seeded(lambda fs: fs.scramble_pop_ids())))
    for fn in ('ll', 'll_multinom', 'll_per_bin', 'll_multinom_per_bin', 'optimal_sfs_scaling', 'optimally_scaled_sfs', 'minus_ll', 'minus_ll_multinom',
               'linear_Poisson_residual', 'Anscombe_Poisson_residual'):
        f = getattr(Inf, fn)
        ms.append(('Inference.%s:model' % fn, quiet(lambda fs, f=f: f(fs, other_data()))))
        ms.append(('Inference.%s:data' % fn, quiet(lambda fs, f=f: f(other_model(), fs))))
        if fn.endswith('residual'):
            ms.append(('Inference.%s:data:mask=0.5' % fn, quiet(lambda fs, f=f: f(other_model(), fs, mask=0.5))))
    return ms

def l3_spectrum_layouts(chk, ctx, rng, tier):
    dadi = ctx['dadi']; S = dadi.Spectrum
    quick = (tier == 'quick')
    pre = lambda short: short if short.startswith(('Inference.', 'Numerics.', 'Godambe.')) else 'Spectrum.' + short
    tier_quick = quick
    for rep in range(1 if quick else 2):
        # thorough tier: the first round crosses every data layout with every mask layout and runs every method on every variant;
        # the second round (other shapes, values, masks) samples the layout pairs and the methods the way the quick tier does
        quick = tier_quick or rep >= 1
        for nd in (1, 2, 3):
            if nd == 1: shape = (int(rng.integers(7, 11)),)
            elif nd == 2: shape = (int(rng.integers(5, 8)), int(rng.integers(5, 8)))
            else: shape = (int(rng.integers(3, 5)), int(rng.integers(4, 6)), int(rng.integers(3, 5)))
            if nd == 2 and rep % 2 == 0 and shape[0] == shape[1]: shape = (shape[0], shape[1] + 1)      # a non-square one always
            vals = rng.integers(1, 40, shape) / 4.0                      # dyadic: sums are exact in any order
            dvals = rng.poisson(3, shape).astype(float)
            other_model = lambda: S(rng_free_vals[0].copy())
            rng_free_vals = [rng.integers(1, 40, shape) / 8.0]
            other_data = lambda: S(dvals.copy())
            for folded in ((False, True) if nd <= 2 else (False,)):
                for pattern in ('none', 'interior'):
                    M0 = np.zeros(shape, dtype=bool)
                    if pattern == 'interior':
                        for _ in range(2): M0[tuple(int(rng.integers(0, s_)) for s_ in shape)] = True
                    base_vals = vals
                    if folded:
                        f0 = S(vals.copy()).fold()
                        base_vals = np.array(np.ma.getdata(f0)); M0 = M0 | np.array(np.ma.getmaskarray(f0))
                    for corners in (False, True):
                        M = M0.copy(); M.flat[0] = M.flat[-1] = corners
                        for mc in (False, True):
                            if quick and corners and mc and pattern == 'interior': continue
                            for with_ids in ((False, True) if (not quick or (pattern == 'none' and not folded)) else (False,)):
                                pop_ids = ['q%d' % i for i in range(nd)] if with_ids else None
                                if with_ids and (corners or not mc) and quick: continue
                                ref_build, variants = spectrum_variants(S, base_vals, M, mc, folded, pop_ids, quick, rng)
                                heavy = (not quick) or (pattern == 'none' and not corners and not folded)
                                methods = spectrum_methods(dadi, rng, shape, folded, other_model, other_data, heavy, godambe=(not quick and pattern == 'none' and not corners and not folded))
                                if quick and not heavy:
                                    # quick tier: everything that touches the mask or depends on the corners always; a sample of the others
                                    must = ('construct', 'mask_corners', 'unmask_all', 'S', 'sum', 'Tajima_D', 'Watterson_theta', 'Inference.ll:data', 'Inference.ll_multinom:model')
                                    rest = [m_ for m_ in methods if m_[0] not in must]
                                    pick = set(int(i) for i in rng.choice(len(rest), min(6, len(rest)), replace=False))
                                    methods = [m_ for m_ in methods if m_[0] in must] + [m_ for i, m_ in enumerate(rest) if i in pick]
                                desc = dict(shape=list(shape), folded=folded, mask_pattern=pattern, corners_masked_in_input=corners, mask_corners=mc, pop_ids=pop_ids,
                                            values=base_vals.tolist(), mask=M.astype(int).tolist())
                                # the reference results
                                refs = {}
                                assert methods[0][0] == 'construct'
                                for mname, f in methods:
                                    try:
                                        fs = ref_build()
                                        r = f(fs)
                                        refs[mname] = ('ok', spectrum_canon(r), spectrum_canon(fs))
                                    except Exception as e:
                                        refs[mname] = ('exc', type(e).__name__, None)
                                # what the two documented in-place methods must do to the logical mask (from their docstrings), on the reference;
                                # every variant is then compared with the reference
                                start = M.copy()
                                if mc: start.flat[0] = start.flat[-1] = True
                                for mname, want_mask in (('construct', start), ('mask_corners', None), ('unmask_all', np.zeros(shape, dtype=bool))):
                                    if want_mask is None:
                                        want_mask = start.copy(); want_mask.flat[0] = want_mask.flat[-1] = True
                                    chk.l3(('spectrum-mask-semantics', mname, nd, corners, mc, folded))
                                    if refs[mname][0] != 'ok' or not np.array_equal(refs[mname][2][3], want_mask):
                                        chk.fail('Spectrum.%s:mask' % mname, 'after %s (C-ordered spectrum, corner entries %s in the input, mask_corners=%s) the mask is %s, expected %s' % (
                                            mname, 'masked' if corners else 'not masked', mc, 'unavailable (%s)' % refs[mname][1] if refs[mname][0] != 'ok' else np.argwhere(refs[mname][2][3]).tolist()[:8],
                                            np.argwhere(want_mask).tolist()[:8]), dict(desc, method=mname, layout='C'))
                                for vname, build in variants:
                                    # the variant must BE the reference spectrum (values, mask, flags) before any method is compared on it
                                    same = True
                                    for mname, f in methods:
                                        if not same: break
                                        key = 'Spectrum.%s:%s:corners=%s:mask_corners=%s:%s%s' % (mname, vname, corners, mc, pattern, ':folded' if folded else '')
                                        inp = dict(desc, method=mname, layout=vname)
                                        if not chk.begin(key, inp): continue
                                        chk.l3(('spectrum-layout', mname.split(':')[0], vname, nd, corners, mc, folded))
                                        try:
                                            fs = build()
                                        except Exception as e:
                                            if mname == 'construct':
                                                ok = refs[mname][0] == 'exc' and refs[mname][1] == type(e).__name__
                                                if not ok and vname.endswith('mask=broadcast') and isinstance(e, ValueError) and 'read-only' in str(e):
                                                    chk.l3(('spectrum-layout', 'read-only-mask-refused'))     # an explicit refusal is not a silent layout dependence
                                                elif not ok:
                                                    chk.fail('Spectrum.construct:layout:raises:%s' % type(e).__name__, 'constructing the spectrum %s raises %r; with C-ordered private copies of the same values and mask it does not' % (vname, e), inp)
                                            continue
                                        before = spectrum_canon(fs)
                                        try:
                                            r = f(fs)
                                            got = ('ok', spectrum_canon(r), spectrum_canon(fs))
                                        except Exception as e:
                                            got = ('exc', type(e).__name__, None)
                                        want = refs[mname]
                                        short = mname.split(':')[0]
                                        if mname == 'construct' and got[0] == 'ok' and want[0] == 'ok' and canon_diff(got[1], want[1]):
                                            same = False
                                            if vname.startswith('view:') and mc: short = 'mask_corners'      # the view was built correctly; mask_corners() on it was the last step
                                        if got[0] != want[0] or (got[0] == 'exc' and got[1] != want[1]):
                                            chk.fail('%s:layout:raises' % pre(short), '%s on the spectrum %s %s, on the C-ordered spectrum with the same values and mask it %s' % (
                                                mname, vname, 'raises ' + got[1] if got[0] == 'exc' else 'returns', 'raises ' + want[1] if want[0] == 'exc' else 'returns'), inp)
                                            continue
                                        if got[0] == 'exc': continue
                                        d = canon_diff(got[1], want[1])
                                        if d:
                                            chk.fail('%s:layout%s' % (pre(short), ':mask' if d[0] == 'mask' else ''),
                                                     '%s depends on the memory layout of the spectrum (%s; corner entries %s in the input, mask_corners=%s): %s differs from the result for C-ordered data and mask: %s' % (
                                                         mname, vname, 'masked' if corners else 'not masked', mc, d[0], d[1]), inp)
                                        d = canon_diff(got[2], want[2]) if same else None
                                        if d:
                                            chk.fail('%s:layout:after%s' % (pre(short), ':mask' if d[0] == 'mask' else ''),
                                                     'after %s the spectrum (%s; corner entries %s in the input, mask_corners=%s) differs from the C-ordered spectrum after the same call: %s %s' % (
                                                         mname, vname, 'masked' if corners else 'not masked', mc, d[0], d[1]), inp)
                                        if mname not in ('mask_corners', 'unmask_all', 'imul') and canon_diff(got[2], before):
                                            chk.fail('%s:mutates' % pre(short), '%s modified the spectrum it was called on (%s)' % (mname, vname), inp)

# ---------------------------------------------------------------- (iii'') densities and grids in every layout: the phi manipulations and array helpers
def l3_phi_layouts(chk, ctx, rng, tier):
    """PhiManip (constructors, splits, admixture, pulses, remove / filter / reorder) and the array helpers of Numerics with the density in
    C / Fortran / strided / negatively strided / transposed layout and the grid contiguous / strided: values equal to the call on
    C-ordered private copies; for the functions documented as altering phi in place the argument afterwards equals the result; for
    the others the argument is unchanged."""
    dadi = ctx['dadi']; P = dadi.PhiManip; N = dadi.Numerics
    for rep in range(1 if tier == 'quick' else 3):
        cases = []
        for d in (1, 2, 3, 4):
            pts = {1: 12, 2: 8, 3: 6, 4: 5}[d]
            xx = N.default_grid(pts); phi = gen.density(rng, [pts] * d)
            f1, f2, f3 = [float(x) for x in rng.uniform(0.05, 0.3, 3)]
            g = lambda k: (lambda X: [X] * k)
            if d == 1:
                cases += [(d, 'phi_1D_to_2D', phi, xx, lambda ph, X: P.phi_1D_to_2D(X, ph), False)]
                cases += [(d, 'Numerics.trapz', phi, xx, lambda ph, X: N.trapz(ph, X), False), (d, 'Numerics.reverse_array', phi, xx, lambda ph, X: N.reverse_array(ph), False),
                          (d, 'Numerics.end_point_first_derivs', phi, xx, lambda ph, X: np.array(N.end_point_first_derivs(X)), False)]
                for nm in ('phi_1D', 'phi_1D_genic', 'phi_1D_snm', 'phi_1D_X'):
                    if hasattr(P, nm):
                        kw = {} if nm == 'phi_1D_snm' else dict(gamma=float(rng.uniform(-2, 2)))
                        cases.append((d, nm, phi, xx, lambda ph, X, nm=nm, kw=kw: getattr(P, nm)(X, nu=1.5, **kw), False))
            if d == 2:
                cases += [(d, 'phi_2D_to_3D_split_1', phi, xx, lambda ph, X: P.phi_2D_to_3D_split_1(X, ph), False),
                          (d, 'phi_2D_to_3D_split_2', phi, xx, lambda ph, X: P.phi_2D_to_3D_split_2(X, ph), False),
                          (d, 'phi_2D_to_3D_admix', phi, xx, lambda ph, X: P.phi_2D_to_3D_admix(ph, f1, X, X, X), False),
                          (d, 'phi_2D_admix_1_into_2', phi, xx, lambda ph, X: P.phi_2D_admix_1_into_2(ph, f1, X, X), True),
                          (d, 'phi_2D_admix_2_into_1', phi, xx, lambda ph, X: P.phi_2D_admix_2_into_1(ph, f1, X, X), True)]
            if d == 3:
                cases += [(d, 'phi_3D_to_4D', phi, xx, lambda ph, X: P.phi_3D_to_4D(ph, f1, f2, X, X, X, X), False)]
                for nm in ('phi_3D_admix_1_and_2_into_3', 'phi_3D_admix_1_and_3_into_2', 'phi_3D_admix_2_and_3_into_1'):
                    cases.append((d, nm, phi, xx, lambda ph, X, nm=nm: getattr(P, nm)(ph, f1, f2, X, X, X), True))
            if d == 4:
                cases += [(d, 'phi_4D_to_5D', phi, xx, lambda ph, X: P.phi_4D_to_5D(ph, f1, f2, f3, X, X, X, X, X), False)]
                for k in (1, 2, 3, 4):
                    cases.append((d, 'phi_4D_admix_into_%d' % k, phi, xx, lambda ph, X, k=k: getattr(P, 'phi_4D_admix_into_%d' % k)(ph, f1, f2, f3, X, X, X, X), True))
            if d >= 2:
                for k in range(1, d + 1):
                    cases.append((d, 'remove_pop', phi, xx, lambda ph, X, k=k: P.remove_pop(ph, X, k), False))
                order = [int(x) + 1 for x in rng.permutation(d)]
                cases.append((d, 'reorder_pops', phi, xx, lambda ph, X, order=order: P.reorder_pops(ph, order), False))
                keep = sorted(int(x) + 1 for x in rng.choice(np.arange(d), d - 1, replace=False))
                if hasattr(P, 'filter_pops'): cases.append((d, 'filter_pops', phi, xx, lambda ph, X, keep=keep: P.filter_pops(ph, X, keep), False))
                ax = int(rng.integers(d))
                cases.append((d, 'Numerics.trapz', phi, xx, lambda ph, X, ax=ax: N.trapz(ph, X, axis=ax), False))
                cases.append((d, 'Numerics.reverse_array', phi, xx, lambda ph, X: N.reverse_array(ph), False))
        for d, name, phi, xx, f, inplace in cases:
            full = name if name.startswith('Numerics.') else 'PhiManip.' + name
            try:
                ref = np.array(f(np.ascontiguousarray(phi).copy(), xx.copy()), dtype=float)
            except Exception as e:
                chk.l3((full, 'reference-raises', type(e).__name__)); continue
            for lname, _ in layouts(phi):
                for xname in ('C', 'strided'):
                    arr = dict(layouts(phi.copy()))[lname]; xarr = dict(layouts(xx.copy()))[xname]      # fresh arrays per call (some functions work in place)
                    key = '%s:%dD:phi=%s:xx=%s' % (full, d, lname, xname)
                    inp = dict(function=full, d=d, phi_layout=lname, xx_layout=xname, pts=len(xx))
                    if not chk.begin(key, inp): continue
                    chk.l3((full, d, lname, xname))
                    b0 = bytes_of(arr); x0 = bytes_of(xarr)
                    try:
                        res = f(arr, xarr)
                    except Exception as e:
                        chk.fail('%s:layout:raises:%s' % (full, type(e).__name__), '%s raises %r for phi layout %s / grid layout %s but not for contiguous arrays' % (full, e, lname, xname), inp); continue
                    if bytes_of(xarr) != x0:
                        chk.fail('%s:mutates:xx' % full, '%s modified its grid argument' % full, inp)
                    if not inplace and bytes_of(arr) != b0:
                        chk.fail('%s:mutates:phi' % full, '%s modified its density argument (layout %s)' % (full, lname), inp)
                    r = np.array(res, dtype=float)
                    sc = float(np.max(np.abs(ref))) if ref.size else 0.0
                    if r.shape != ref.shape or not np.allclose(r, ref, rtol=1e-10, atol=1e-13 * sc, equal_nan=True):
                        chk.fail('%s:layout' % full, '%s gives a different result for phi layout %s / grid layout %s than for contiguous arrays (max diff %.3g)' % (
                            full, lname, xname, float(np.nanmax(np.abs(r - ref))) if r.shape == ref.shape else float('nan')), inp)
                    if inplace and not np.allclose(np.asarray(arr, dtype=float), ref, rtol=1e-10, atol=1e-13 * sc, equal_nan=True):
                        chk.fail('%s:layout:inplace' % full, '%s is documented to alter phi in place: for phi layout %s the argument afterwards differs from the result for contiguous arrays' % (full, lname), inp)

# ---------------------------------------------------------------- (iv') every argument, every container type, every option
# Class: a function of one of the families named by the property (likelihoods, uncertainty calls, optimiser helpers, spectrum
# methods) leaves EVERY argument unchanged, whatever container the caller used for it (list, tuple, float64 array, strided view
# of one, integer array, list of numpy scalars) and whatever options are set, gives the same value again when called a second
# time with the very same objects, and gives the value it gives for private float-list copies of the same numbers.
def deep_snap(x):
    """structural byte snapshot of an argument (recursive; callables by identity)"""
    if isinstance(x, np.ndarray):
        extra = (bool(getattr(x, 'folded', False)), repr(getattr(x, 'pop_ids', None))) if hasattr(x, 'folded') else ()
        return ('nd', str(x.dtype), tuple(x.shape), bytes_of(x)) + extra
    if isinstance(x, (list, tuple)):
        return (type(x).__name__,) + tuple(deep_snap(e) for e in x)
    if isinstance(x, dict):
        return ('dict',) + tuple((repr(k), deep_snap(v)) for k, v in x.items())
    if callable(x):
        return ('callable', id(x))
    return ('obj', type(x).__name__, repr(x))

def flat_result(r):
    if isinstance(r, (tuple, list)):
        parts = [flat_result(e) for e in r]
        return np.concatenate(parts) if parts else np.zeros(0)
    return np.ravel(np.ma.filled(np.ma.asarray(r, dtype=float), np.nan)).astype(float)

def strided(a):
    big = np.zeros(2 * len(a) + 1, dtype=a.dtype); big[1::2] = a
    return big[1::2]

REAL_KINDS = ['list', 'tuple', 'f8', 'f8-strided', 'f8-list']
INT_KINDS = ['i8', 'int-list']                 # offered in addition when every value is integral
INDEX_KINDS = ['list', 'i8', 'i8-strided']
GRID_KINDS = ['list', 'tuple', 'i8']
COUNT_KINDS = ['list', 'tuple', 'i8', 'i8-strided']      # sample sizes
SEQ_KINDS = ['list', 'tuple']

def container(role, kind, values):
    if role in ('index', 'grid', 'count'):
        v = [int(x) for x in values]
        if kind == 'list': return list(v)
        if kind == 'tuple': return tuple(v)
        if kind == 'i8': return np.array(v, dtype=np.int64)
        if kind == 'i8-strided': return strided(np.array(v, dtype=np.int64))
    if role == 'seq':
        return list(values) if kind == 'list' else tuple(values)
    if role == 'bounds':           # may contain None
        if kind == 'list': return list(values)
        if kind == 'tuple': return tuple(values)
        if kind == 'f8': return np.array([np.nan if x is None else x for x in values], dtype=float)
    v = [float(x) for x in values]
    if kind == 'list': return list(v)
    if kind == 'tuple': return tuple(v)
    if kind == 'f8': return np.array(v)
    if kind == 'f8-strided': return strided(np.array(v))
    if kind == 'f8-list': return [np.float64(x) for x in v]
    if kind == 'i8': return np.array([int(x) for x in v], dtype=np.int64)
    if kind == 'int-list': return [int(x) for x in v]
    raise ValueError((role, kind))

def kinds_for(role, values):
    if role == 'index': return INDEX_KINDS
    if role == 'grid': return GRID_KINDS
    if role == 'count': return COUNT_KINDS
    if role == 'seq': return SEQ_KINDS
    if role == 'bounds':
        return ['list', 'tuple'] + ([] if any(x is None for x in values) else ['f8'])
    ks = list(REAL_KINDS)
    if all(float(x) == int(x) for x in values): ks += INT_KINDS
    return ks

LAYOUT_KINDS = {'f8-strided', 'i8-strided'}

def arg_case_impl(chk, rng, family, fname, opts, make, compare_value=True, pre=None, rtol=1e-9, primary=('p0', 'params', 'pin', 'x'), quick=False):
    """`make(C)` -> (callable, kwargs); `C(argname, role, values)` supplies the container of one sequence argument.
    One reference call with private list copies, then for every sequence argument every container kind in turn (the other
    sequence arguments get a random kind)."""
    rec = {}
    def Cref(name, role, values):
        rec[name] = (role, list(values))
        return container(role, 'list', values)
    optstr = ','.join('%s=%s' % kv for kv in sorted(opts.items()))
    base_key = '%s.%s' % (family, fname)
    kw = {}; before = {}
    try:
        f, kw = make(Cref)
        before = {k: deep_snap(v) for k, v in kw.items()}
        if pre: pre()
        ref = flat_result(f(**kw))
    except Exception as e:
        chk.l3((base_key, optstr, 'reference-raises', type(e).__name__))
        ref = None
    # the reference call itself (private float / int lists): arguments unchanged, whether it returned or raised
    for k in before:
        if deep_snap(kw[k]) != before[k]:
            chk.fail('%s:mutates:%s' % (base_key, k), '%s(%s) modified its argument %s in place (passed as list): %r -> %r' % (
                fname, optstr, k, rec.get(k, ('', None))[1], kw[k] if not isinstance(kw[k], np.ndarray) else kw[k].tolist()),
                dict(family=family, function=fname, options=opts, focus=k, kinds={n: 'list' for n in rec}, values={n: v[1] for n, v in rec.items()}))
    if ref is None: return
    for focus in sorted(rec):
        role, values = rec[focus]
        todo = kinds_for(role, values)
        if quick and focus not in primary:
            # quick tier: every container kind for the parameter vector; a layout kind and one other kind for the remaining arguments
            lay = [k for k in todo if k in LAYOUT_KINDS][:1]; rest = [k for k in todo if k not in lay and k != 'list']
            todo = lay + ([rest[int(rng.integers(len(rest)))]] if rest else [])
        for kind in todo:
            chosen = {}
            def C(name, r, vals):
                k = kind if name == focus else kinds_for(r, vals)[int(rng.integers(len(kinds_for(r, vals))))]
                chosen[name] = k
                return container(r, k, vals)
            f, kw = make(C)
            inp = dict(family=family, function=fname, options=opts, focus=focus, kinds=dict(chosen), values={k: v[1] for k, v in rec.items()},
                       other_arguments={k: (v if isinstance(v, (int, float, bool, str, type(None))) else np.ma.filled(v, np.nan).tolist() if isinstance(v, np.ndarray)
                                            else v.asdict() if hasattr(v, 'asdict') else v if isinstance(v, dict) else type(v).__name__)
                                        for k, v in kw.items() if k not in rec})
            if not chk.begin('%s:%s:%s=%s' % (base_key, optstr, focus, kind), inp): continue
            chk.l3((base_key, optstr, focus, kind))
            before = {k: deep_snap(v) for k, v in kw.items()}
            try:
                if pre: pre()
                r1 = flat_result(f(**kw))
            except Exception as e:
                r1 = None; first_exc = e
            bad = [k for k, v in kw.items() if deep_snap(v) != before[k]]
            for k in bad:
                chk.fail('%s:mutates:%s' % (base_key, k), '%s(%s) modified its argument %s in place (passed as %s): %r -> %r' % (
                    fname, optstr, k, chosen.get(k, type(kw[k]).__name__), rec.get(k, ('', None))[1], kw[k] if not isinstance(kw[k], np.ndarray) else kw[k].tolist()), inp)
            if r1 is None:
                # a container type the function does not accept is not a C20 matter; a memory layout is.  Was it the container of
                # `focus`, or the (random) container of another argument?  Again with everything else a plain list.
                f, kw = make(lambda name, r, vals: container(r, kind if name == focus else 'list', vals))
                for k in chosen: chosen[k] = kind if k == focus else 'list'
                inp = dict(inp, kinds=dict(chosen))
                before = {k: deep_snap(v) for k, v in kw.items()}
                try:
                    if pre: pre()
                    r1 = flat_result(f(**kw))
                except Exception as e:
                    if kind in LAYOUT_KINDS:
                        chk.fail('%s:raises:%s:%s' % (base_key, focus, kind), '%s(%s) raises %r when %s is a %s, but not for a list' % (fname, optstr, e, focus, kind), inp)
                    else:
                        chk.l3((base_key, 'unsupported-container', focus, kind))
            bad = [k for k, v in kw.items() if deep_snap(v) != before[k]]
            for k in bad:
                chk.fail('%s:mutates:%s' % (base_key, k), '%s(%s) modified its argument %s in place (passed as %s): %r -> %r' % (
                    fname, optstr, k, chosen.get(k, type(kw[k]).__name__), rec.get(k, ('', None))[1], kw[k] if not isinstance(kw[k], np.ndarray) else kw[k].tolist()), inp)
            if r1 is None: continue
            try:
                if pre: pre()
                r2 = flat_result(f(**kw))
            except Exception as e:
                chk.fail('%s:repeat-raises' % base_key, '%s(%s) raises %r when called a second time with the same objects' % (fname, optstr, e), inp); continue
            if r1.shape != r2.shape or not np.array_equal(r1, r2, equal_nan=True):
                chk.fail('%s:repeat' % base_key, '%s(%s) called twice with the same objects (%s as %s) gives %s then %s' % (fname, optstr, focus, kind, r1[:4], r2[:4]), inp)
            if compare_value and (r1.shape != ref.shape or not np.allclose(r1, ref, rtol=rtol, atol=0, equal_nan=True)):
                chk.fail('%s:container:%s' % (base_key, focus), '%s(%s) gives %s when %s is a %s but %s for a list of the same numbers' % (fname, optstr, r1[:4], focus, kind, ref[:4]), inp)

def l3_argument_effects(chk, ctx, rng, tier):
    dadi = ctx['dadi']; G = dadi.Godambe; Inf = dadi.Inference; S = dadi.Spectrum
    reps = 1 if tier == 'quick' else 4
    def arg_case(*a, **k):
        return arg_case_impl(*a, quick=(tier == 'quick'), **k)
    def model_theta(params, ns, pts):
        nu, T, theta = params
        xx = dadi.Numerics.default_grid(pts)
        phi = dadi.PhiManip.phi_1D(xx)
        phi = dadi.Integration.one_pop(phi, xx, T, nu)
        return theta * S.from_phi(phi, ns, (xx,))
    def model_multi(params, ns, pts):
        return model_theta(list(params) + [1.0], ns, pts)
    def fresh_func(multinom):
        ex = dadi.Numerics.make_extrap_func(model_multi if multinom else model_theta)
        return lambda p, ns, pts: ex(p, ns, [int(x) for x in pts])          # a new function object for every call
    def counts(fs):
        return S(rng.poisson(np.maximum(np.ma.filled(fs, 0.0), 1e-3)).astype(float))
    for rep in range(reps):
        for multinom in (False, True):
            flavours = ['generic', 'integral', 'boundary', 'tiny']
            if tier == 'quick' and multinom:      # with multinom=True the parameter vector is rebuilt as a list first: fewer flavours in the quick tier
                flavours = ['generic', flavours[1 + int(rng.integers(3))]]
            for flavour in flavours:
                n = int(rng.integers(6, 11)); ns = (n,)
                pts = sorted(int(x) for x in rng.choice(np.arange(8, 20), 3, replace=False))
                if flavour == 'integral':
                    p = [float(rng.integers(1, 4)), float(rng.integers(1, 3)), float(rng.integers(500, 2000))]
                else:
                    p = [float(rng.uniform(0.5, 3)), float(rng.uniform(0.1, 1.0)), float(rng.uniform(500, 2000))]
                    if flavour == 'boundary': p[1] = 0.0
                    if flavour == 'tiny': p[1] = 2e-5
                truth = [p[0] * 1.1, max(p[1], 0.05) * 1.2, p[2]]
                data = counts(fresh_func(False)(truth, ns, pts))
                boots = [counts(data) for _ in range(4)]
                p0 = p[:2] if multinom else p
                np_ = len(p0)
                logs = (False, True) if flavour in ('generic', 'integral') else (False,)
                eps = float(rng.choice([0.01, 0.02]))
                nested = sorted(int(x) for x in rng.choice(np.arange(np_), int(rng.integers(1, np_)), replace=False))
                if flavour == 'boundary': nested = [1]        # the size parameter has no effect at T = 0: only the duration can be tested there
                adjusts = [float(x) for x in rng.uniform(0.8, 1.2, len(boots))]
                tag = dict(multinom=multinom, p0=flavour)
                for log in logs:
                    def mk(C, log=log):
                        return G.FIM_uncert, dict(func_ex=fresh_func(multinom), grid_pts=C('grid_pts', 'grid', pts), p0=C('p0', 'real', p0), data=data.copy(), log=log, multinom=multinom, eps=eps, return_FIM=bool(log))
                    arg_case(chk, rng, 'Godambe', 'FIM_uncert', dict(tag, log=log), mk)
                    for use_adj in ((False, True) if not multinom else (False,)):
                        def mk(C, log=log, use_adj=use_adj):
                            kw = dict(func_ex=fresh_func(multinom), grid_pts=C('grid_pts', 'grid', pts), all_boot=C('all_boot', 'seq', [b.copy() for b in boots]), p0=C('p0', 'real', p0),
                                      data=data.copy(), log=log, multinom=multinom, eps=eps, return_GIM=not log)
                            if use_adj: kw['boot_theta_adjusts'] = C('boot_theta_adjusts', 'seq', adjusts)
                            return G.GIM_uncert, kw
                        arg_case(chk, rng, 'Godambe', 'GIM_uncert', dict(tag, log=log, boot_theta_adjusts=use_adj), mk)
                    if not multinom:
                        for just_hess in (False, True):
                            def mk(C, log=log, just_hess=just_hess):
                                return G.get_godambe, dict(func_ex=fresh_func(False), grid_pts=C('grid_pts', 'grid', pts), all_boot=C('all_boot', 'seq', [b.copy() for b in boots]),
                                                           p0=C('p0', 'real', p0), data=data.copy(), eps=eps, log=log, just_hess=just_hess)
                            arg_case(chk, rng, 'Godambe', 'get_godambe', dict(tag, log=log, just_hess=just_hess), mk)
                for use_adj in ((False, True) if not multinom else (False,)):
                    def mk(C, use_adj=use_adj):
                        kw = dict(func_ex=fresh_func(multinom), grid_pts=C('grid_pts', 'grid', pts), all_boot=C('all_boot', 'seq', [b.copy() for b in boots]), p0=C('p0', 'real', p0),
                                  data=data.copy(), nested_indices=C('nested_indices', 'index', nested), multinom=multinom, eps=eps)
                        if use_adj: kw['boot_theta_adjusts'] = C('boot_theta_adjusts', 'seq', adjusts)
                        return G.LRT_adjust, kw
                    arg_case(chk, rng, 'Godambe', 'LRT_adjust', dict(tag, nested=len(nested), boot_theta_adjusts=use_adj), mk)
                for adj_and_org in (False, True):
                    def mk(C, adj_and_org=adj_and_org):
                        return G.score_stat, dict(func_ex=fresh_func(multinom), grid_pts=C('grid_pts', 'grid', pts), all_boot=C('all_boot', 'seq', [b.copy() for b in boots]), p0=C('p0', 'real', p0),
                                                  data=data.copy(), nested_indices=C('nested_indices', 'index', nested), multinom=multinom, eps=eps, adj_and_org=adj_and_org)
                    arg_case(chk, rng, 'Godambe', 'score_stat', dict(tag, nested=len(nested), adj_and_org=adj_and_org), mk)
                    for full_len in ('all', 'nested'):
                        fullp = [x * 1.05 + 0.01 for x in p0] if full_len == 'all' else [p0[i] * 1.05 + 0.01 for i in nested]
                        def mk(C, adj_and_org=adj_and_org, fullp=fullp):
                            return G.Wald_stat, dict(func_ex=fresh_func(multinom), grid_pts=C('grid_pts', 'grid', pts), all_boot=C('all_boot', 'seq', [b.copy() for b in boots]), p0=C('p0', 'real', p0),
                                                     data=data.copy(), nested_indices=C('nested_indices', 'index', nested), full_params=C('full_params', 'real', fullp), multinom=multinom, eps=eps,
                                                     adj_and_org=adj_and_org)
                        arg_case(chk, rng, 'Godambe', 'Wald_stat', dict(tag, nested=len(nested), adj_and_org=adj_and_org, full_params=full_len), mk)
        # the finite-difference helpers themselves
        for flavour in ('generic', 'integral', 'boundary', 'tiny'):
            m = int(rng.integers(2, 5))
            c = rng.uniform(0.5, 2, m)
            q = [float(rng.integers(1, 5)) for _ in range(m)] if flavour == 'integral' else [float(x) for x in rng.uniform(0.5, 3, m)]
            if flavour == 'boundary': q[int(rng.integers(m))] = 0.0
            if flavour == 'tiny': q[int(rng.integers(m))] = 1e-6
            def quad(pp, cc, shift=0.0):
                pp = np.asarray(pp, dtype=float)
                return float(np.sum(cc * pp ** 2) + pp[0] * pp[-1] + np.sum(np.cos(pp)) + shift)
            for with_shift in (False, True):
                extra = [c.copy(), 0.25] if with_shift else [c.copy()]
                def mk(C, extra=extra):
                    return G.get_hess, dict(func=quad, p0=C('p0', 'real', q), eps=0.01, args=C('args', 'seq', [e.copy() if isinstance(e, np.ndarray) else e for e in extra]))
                arg_case(chk, rng, 'Godambe', 'get_hess', dict(p0=flavour, nargs=len(extra)), mk)
                def mk(C, extra=extra):
                    return G.get_grad, dict(func=quad, p0=C('p0', 'real', q), eps=0.01, args=C('args', 'seq', [e.copy() if isinstance(e, np.ndarray) else e for e in extra]))
                arg_case(chk, rng, 'Godambe', 'get_grad', dict(p0=flavour, nargs=len(extra)), mk)
            epsl = [0.01 * x if x != 0 else 0.01 for x in q]
            for (ii, jj) in [(0, 0), (0, m - 1), (m - 1, m - 1)]:
                for os_ in (None, [bool(x) for x in rng.integers(0, 2, m)]):
                    def mk(C, ii=ii, jj=jj, os_=os_):
                        kw = dict(func=quad, f0=quad(q, c), p0=C('p0', 'real', q), ii=ii, jj=jj, eps=C('eps', 'real', epsl), args=C('args', 'seq', [c.copy()]))
                        if os_ is not None: kw['one_sided'] = C('one_sided', 'seq', os_)
                        return G.hessian_elem, kw
                    arg_case(chk, rng, 'Godambe', 'hessian_elem', dict(p0=flavour, diag=(ii == jj), one_sided=os_ is not None), mk)
        for w in ([0.0, 1.0], [0.5, 0.5], [0.25, 0.5, 0.25]):
            xs = [float(x) for x in rng.uniform(0, 6, int(rng.integers(1, 5)))] + [0.0]
            def mk(C, w=w, xs=xs):
                return G.sum_chi2_ppf, dict(x=C('x', 'real', xs), weights=C('weights', 'real', w))
            arg_case(chk, rng, 'Godambe', 'sum_chi2_ppf', dict(nweights=len(w)), mk)
        # likelihoods and residuals: model / data as Spectrum, masked, folded, plain arrays, integer counts
        for dim in (1, 2):
            shape = tuple(int(x) for x in rng.integers(5, 9, dim))
            mvals = rng.uniform(0.1, 5, shape); dvals = rng.poisson(3, shape).astype(float)
            dvals.flat[int(rng.integers(1, dvals.size - 1))] = 0.0
            def spectra(kind):
                m = S(mvals.copy()); d = S(dvals.copy())
                if kind == 'folded': m, d = m.fold(), d.fold()
                if kind == 'data-folded': d = d.fold()
                if kind == 'masked': d.mask[tuple(int(rng.integers(1, s - 1)) for s in shape)] = True
                if kind == 'unmasked-corners': m = S(mvals.copy(), mask_corners=False); d = S(dvals.copy(), mask_corners=False)
                if kind == 'int-data': d = S(dvals.astype(int))
                if kind == 'strided':
                    bm = np.zeros([2 * s + 1 for s in shape]); sl = tuple(slice(1, 2 * s + 1, 2) for s in shape)
                    bm[sl] = mvals; bd = bm.copy(); bd[sl] = dvals
                    m = S(bm[sl], data_copy=False) if 'data_copy' in S.__new__.__code__.co_varnames else S(bm[sl]); d = S(bd[sl])
                return m, d
            for kind in ('plain', 'folded', 'data-folded', 'masked', 'unmasked-corners', 'int-data', 'strided'):
                for fn in ('ll', 'll_multinom', 'll_per_bin', 'll_multinom_per_bin', 'optimal_sfs_scaling', 'optimally_scaled_sfs', 'minus_ll', 'minus_ll_multinom',
                           'linear_Poisson_residual', 'Anscombe_Poisson_residual'):
                    for mask in ((None, 0.5) if fn.endswith('residual') else (None,)):
                        m, d = spectra(kind)
                        kw = dict(model=m, data=d)
                        if mask is not None: kw['mask'] = mask
                        inp = dict(function=fn, kind=kind, shape=shape, mask=mask)
                        key = 'Inference.%s:%s:%s' % (fn, kind, mask)
                        if not chk.begin(key, inp): continue
                        chk.l3((key, dim))
                        before = {k: deep_snap(v) for k, v in kw.items()}
                        try:
                            r1 = flat_result(getattr(Inf, fn)(**kw))
                        except Exception as e:
                            chk.fail('Inference.%s:raises:%s' % (fn, type(e).__name__), 'Inference.%s raises %r for %s spectra' % (fn, e, kind), inp); continue
                        for k in kw:
                            if deep_snap(kw[k]) != before[k]:
                                chk.fail('Inference.%s:mutates:%s' % (fn, k), 'Inference.%s modified its %s argument (%s spectra, mask=%s): data or mask bytes differ after the call' % (fn, k, kind, mask), inp)
                        r2 = flat_result(getattr(Inf, fn)(**kw))
                        if not np.array_equal(r1, r2, equal_nan=True):
                            chk.fail('Inference.%s:repeat' % fn, 'Inference.%s gives a different value when called again with the same objects (%s)' % (fn, kind), inp)
        # objective function and optimiser helpers
        n = int(rng.integers(6, 10)); ns = (n,); pts = [10, 12, 14]
        ex = dadi.Numerics.make_extrap_func(lambda params, ns, scale, pts: model_theta([params[0], params[1], scale], ns, pts))
        data = counts(ex([1.7, 0.4], ns, 1000.0, pts))
        pfree = [float(rng.uniform(0.8, 2.5)), float(rng.uniform(0.2, 0.8))]
        for multinom in (True, False):
            for fixed in (None, [None, 0.4]):
                for bounds in (False, True):
                    for store in (False, True):
                        pin = pfree if fixed is None else pfree[:1]
                        lb = [0.01, None]; ub = [None, 5.0]; lbf = [0.01, 0.01]; ubf = [50.0, 5.0]
                        for fname in ('_object_func', '_object_func_log'):
                            def mk(C, fname=fname):
                                vals = pin if fname == '_object_func' else [float(np.log(x)) for x in pin]
                                kw = dict(data=data.copy(), model_func=ex, pts=C('pts', 'grid', pts), multinom=multinom, func_args=C('func_args', 'seq', [1000.0 if not multinom else 1.0]),
                                          func_kwargs={}, store_thetas=store)
                                kw['params' if fname == '_object_func' else 'log_params'] = C('params', 'real', vals)
                                if fixed is not None: kw['fixed_params'] = C('fixed_params', 'bounds', fixed)
                                if bounds:
                                    kw['lower_bound'] = C('lower_bound', 'bounds', lb if rng.random() < 0.5 else lbf); kw['upper_bound'] = C('upper_bound', 'bounds', ub if rng.random() < 0.5 else ubf)
                                return getattr(Inf, fname), kw
                            arg_case(chk, rng, 'Inference', fname, dict(multinom=multinom, fixed=fixed is not None, bounds=bounds, store_thetas=store), mk)
        for fixed in ([None, 2.0, None], [None, None, None], [1.0, None, 3.0]):
            nfree = sum(1 for x in fixed if x is None)
            vals = [float(x) for x in rng.uniform(0.5, 3, nfree)]
            def mk(C):
                return Inf._project_params_up, dict(pin=C('pin', 'real', vals), fixed_params=C('fixed_params', 'bounds', fixed))
            arg_case(chk, rng, 'Inference', '_project_params_up', dict(nfree=nfree), mk)
            full = [float(x) for x in rng.uniform(0.5, 3, len(fixed))]
            def mk(C):
                return Inf._project_params_down, dict(pin=C('pin', 'real', full), fixed_params=C('fixed_params', 'bounds', fixed))
            arg_case(chk, rng, 'Inference', '_project_params_down', dict(nfree=nfree), mk)
        for with_none in (False, True):
            for fold in (1, 2):
                pv = [float(x) for x in rng.uniform(0.1, 5, 3)]
                lb = [0.05, None, 0.01] if with_none else [0.05, 0.05, 0.01]; ub = [None, 8.0, 6.0] if with_none else [10.0, 8.0, 6.0]
                sd = int(rng.integers(1 << 30))
                def mk(C):
                    return dadi.Misc.perturb_params, dict(params=C('params', 'real', pv), fold=fold, lower_bound=C('lower_bound', 'bounds', lb), upper_bound=C('upper_bound', 'bounds', ub))
                arg_case(chk, rng, 'Misc', 'perturb_params', dict(none_bounds=with_none, fold=fold), mk, pre=lambda sd=sd: np.random.seed(sd))
        # optimisers (two iterations): start point, bounds and fixed parameters must survive
        opt_names = ['optimize_log', 'optimize', 'optimize_lbfgsb', 'optimize_log_lbfgsb', 'optimize_log_fmin', 'optimize_log_powell']
        for oname in opt_names:
            if not hasattr(Inf, oname): continue
            for fixed in (None, [None, 0.4]):
                def mk(C, oname=oname, fixed=fixed):
                    kw = dict(p0=C('p0', 'real', pfree), data=data.copy(), model_func=ex, pts=C('pts', 'grid', pts), lower_bound=C('lower_bound', 'bounds', [0.01, 0.01]),
                              upper_bound=C('upper_bound', 'bounds', [50.0, 5.0]), maxiter=2, verbose=0, multinom=True, func_args=C('func_args', 'seq', [1.0]))
                    if fixed is not None: kw['fixed_params'] = C('fixed_params', 'bounds', fixed)
                    return getattr(Inf, oname), kw
                arg_case(chk, rng, 'Inference', oname, dict(fixed=fixed is not None), mk, compare_value=False)
        # spectrum methods with list-like arguments
        for dim in (2, 3):
            shape = tuple(int(x) for x in rng.integers(5, 8, dim))
            vals = rng.uniform(0.1, 5, shape)
            ids = ['p%d' % i for i in range(dim)]
            to = [int(rng.integers(2, s - 1)) for s in shape]
            def mk(C):
                fs = S(vals.copy(), pop_ids=list(ids)); return fs.project, dict(ns=C('ns', 'index', to))
            arg_case(chk, rng, 'Spectrum', 'project', dict(dim=dim), mk)
            over = sorted(int(x) for x in rng.choice(np.arange(dim), dim - 1, replace=False))
            def mk(C):
                fs = S(vals.copy(), pop_ids=list(ids)); return fs.marginalize, dict(over=C('over', 'index', over))
            arg_case(chk, rng, 'Spectrum', 'marginalize', dict(dim=dim), mk)
            keep = sorted(int(x) + 1 for x in rng.choice(np.arange(dim), dim - 1, replace=False))
            if hasattr(S, 'filter_pops'):
                def mk(C):
                    fs = S(vals.copy(), pop_ids=list(ids)); return fs.filter_pops, dict(tokeep=C('tokeep', 'index', keep))
                arg_case(chk, rng, 'Spectrum', 'filter_pops', dict(dim=dim), mk)
            order = [int(x) + 1 for x in rng.permutation(dim)]
            if hasattr(S, 'reorder_pops'):
                def mk(C):
                    fs = S(vals.copy(), pop_ids=list(ids)); return fs.reorder_pops, dict(neworder=C('neworder', 'index', order))
                arg_case(chk, rng, 'Spectrum', 'reorder_pops', dict(dim=dim), mk)
            comb = sorted(int(x) + 1 for x in rng.choice(np.arange(dim), 2, replace=False))
            def mk(C):
                fs = S(vals.copy(), pop_ids=list(ids)); return fs.combine_pops, dict(tocombine=C('tocombine', 'index', comb))
            arg_case(chk, rng, 'Spectrum', 'combine_pops', dict(dim=dim), mk)
            pts_ = 8; xx = dadi.Numerics.default_grid(pts_); phi = gen.density(rng, [pts_] * dim)
            nsf = [int(rng.integers(2, 5)) for _ in range(dim)]
            def mk(C):
                return S.from_phi, dict(phi=phi.copy(), ns=C('ns', 'index', nsf), xxs=C('xxs', 'seq', [xx.copy() for _ in range(dim)]), pop_ids=C('pop_ids', 'seq', ids))
            arg_case(chk, rng, 'Spectrum', 'from_phi', dict(dim=dim), mk)
            # inbreeding: the coefficients include the special values 0 and 1 (complete selfing: the library caps F just below 1 —
            # in a private array, never in the caller's), every container kind incl. float64 arrays and strided views of them
            for special in ((1.0,), (0.0, 1.0)):
                Fs_ = [float(rng.uniform(0.05, 0.9)) for _ in range(dim)]
                for v_, j_ in zip(special, rng.permutation(dim)): Fs_[int(j_)] = v_
                nsi = [2 * int(rng.integers(1, 3)) for _ in range(dim)]
                def mk(C):
                    return S.from_phi_inbreeding, dict(phi=phi.copy(), ns=C('ns', 'index', nsi), xxs=C('xxs', 'seq', [xx.copy() for _ in range(dim)]),
                                                       Fs=C('Fs', 'real', Fs_), ploidys=C('ploidys', 'index', [2] * dim))
                arg_case(chk, rng, 'Spectrum', 'from_phi_inbreeding', dict(dim=dim, F='+'.join('%g' % v_ for v_ in special)), mk, primary=('Fs',))

# ---------------------------------------------------------------- (iv'') demes calls
# Class: the demes front end (`Demes.SFS`, `Spectrum.from_demes`), the graph utilities and the exporter `Demes.output` leave
# every list / dict / graph argument unchanged on every route through the ancient-sample machinery — whether the route is selected
# by an argument (`sample_times` given) or by the RESOLVED sampling times (`sample_times=None` and a sampled deme that ends before
# the present), with or without unit conversion (graphs in years), slicing (all samples ancient), pulses, admixture, mergers —
# and give the same value when called again with the very same objects (what an optimiser, or `from_demes` with several grids, does).
def ids_code(ids):
    return np.array([float(ord(c)) for c in '|'.join(str(x) for x in (ids or []))] + [-1.0])

def graph_code(g):
    import json
    return np.array([float(ord(c)) for c in json.dumps(g.asdict(), sort_keys=True)])

def demes_variants(rng, tier):
    """demes graphs x sampled demes x sampling times; `cls` names the route through SFS the variant takes"""
    import demes
    out = []
    def add(cls, g, sd, times):
        out.append(dict(cls=cls, g=g, demes=list(sd), sizes=[int(rng.integers(2, 5)) for _ in sd], times=times))
    def two(units='generations', gt=None, bend=0.0, mig=True, growth=False, third=None):
        sc = float(gt or 1.0)
        T0 = float(rng.integers(200, 400))
        kw = dict(time_units=units)
        if gt: kw['generation_time'] = gt
        b = demes.Builder(**kw)
        b.add_deme('anc', epochs=[dict(start_size=float(rng.integers(800, 1500)), end_time=T0 * sc)])
        eA = dict(start_size=float(rng.integers(800, 2500)), end_time=0)
        if growth: eA['end_size'] = eA['start_size'] * float(rng.uniform(1.5, 3))
        b.add_deme('A', ancestors=['anc'], epochs=[eA])
        if third is None:
            b.add_deme('B', ancestors=['anc'], epochs=[dict(start_size=float(rng.integers(300, 900)), end_time=bend * sc)])
        else:                  # two successive splits (the front end applies two-way splits only)
            b.add_deme('BC', ancestors=['anc'], epochs=[dict(start_size=float(rng.integers(300, 900)), end_time=0.5 * T0 * sc)])
            b.add_deme('B', ancestors=['BC'], epochs=[dict(start_size=float(rng.integers(300, 900)), end_time=bend * sc)])
            b.add_deme('C', ancestors=['BC'], epochs=[dict(start_size=float(rng.integers(300, 900)), end_time=third * sc)])
        if mig: b.add_migration(demes=['A', 'B'], rate=float(rng.choice([5e-4, 1e-3])) / sc)
        return b.resolve(), sc
    tt = lambda lo, hi: float(rng.integers(lo, hi)) + float(rng.choice([0.0, 0.5]))
    g, sc = two(growth=bool(rng.integers(2)))
    add('present:times=None', g, ['A', 'B'], None)
    add('present:times=zeros', g, ['B', 'A'], [0, 0])
    add('ancient:times-given', g, ['A', 'B'], [0.0, tt(4, 30)])
    add('ancient:same-deme-twice', g, ['A', 'A'], [0.0, tt(4, 30)])
    add('all-ancient:sliced', g, ['A', 'B'], [tt(4, 12), tt(14, 30)])
    te = tt(4, 30)
    g, sc = two(bend=te, mig=bool(rng.integers(2)))
    add('extinct:times=None', g, ['A', 'B'], None)
    add('extinct:times=None:reordered', g, ['B', 'A'], None)
    add('extinct:times-given', g, ['A', 'B'], [0.0, te])
    g, sc = two(third=te, mig=False)
    add('extinct:one-of-three:times=None', g, ['C', 'A', 'B'], None)
    gt = float(rng.choice([2.0, 25.0]))
    g, sc = two('years', gt)
    add('years:times=None', g, ['A', 'B'], None)
    add('years:times=zeros', g, ['A', 'B'], [0, 0])
    add('years:ancient', g, ['A', 'B'], [0.0, tt(4, 30) * sc])
    g, sc = two('years', gt, bend=te, mig=False)
    add('years:extinct:times=None', g, ['A', 'B'], None)
    # pulse
    b = demes.Builder(time_units='generations')
    b.add_deme('anc', epochs=[dict(start_size=1000.0, end_time=300)])
    b.add_deme('A', ancestors=['anc'], epochs=[dict(start_size=float(rng.integers(800, 2500)), end_time=0)])
    b.add_deme('B', ancestors=['anc'], epochs=[dict(start_size=float(rng.integers(300, 900)), end_time=0)])
    b.add_pulse(sources=['A'], dest='B', proportions=[float(rng.uniform(0.05, 0.4))], time=20)
    g = b.resolve()
    add('pulse:times=None', g, ['A', 'B'], None)
    add('pulse:ancient-before-pulse', g, ['B', 'A'], [tt(22, 40), 0.0])
    add('pulse:ancient-after-pulse', g, ['A', 'B'], [0.0, tt(4, 18)])
    # admixture (parents continue) and merger (parents end)
    for merge in (False, True):
        b = demes.Builder(time_units='generations')
        b.add_deme('anc', epochs=[dict(start_size=1000.0, end_time=300)])
        endp = 40 if merge else 0
        b.add_deme('A', ancestors=['anc'], epochs=[dict(start_size=float(rng.integers(800, 2500)), end_time=endp)])
        b.add_deme('B', ancestors=['anc'], epochs=[dict(start_size=float(rng.integers(300, 900)), end_time=endp)])
        f = float(rng.uniform(0.2, 0.8))
        b.add_deme('C', ancestors=['A', 'B'], proportions=[f, 1 - f], start_time=40, epochs=[dict(start_size=float(rng.integers(300, 900)), end_time=0)])
        g = b.resolve()
        if merge:
            add('merge:times=None', g, ['C'], None)
            add('merge:all-ancient', g, ['C'], [tt(4, 30)])
        else:
            add('admix:times=None', g, ['C', 'A', 'B'], None)
            add('admix:ancient', g, ['A', 'C'], [0.0, tt(4, 30)])
    if tier != 'quick':
        return out
    # quick tier: the routes selected by resolved times / by the argument / through the unit conversion always, a few of the others
    must = ('extinct:times=None', 'ancient:times-given', 'years:times=zeros', 'years:extinct:times=None')
    rest = [v for v in out if v['cls'] not in must]
    pick = [rest[int(i)] for i in rng.choice(len(rest), 7, replace=False)]
    return [v for v in out if v['cls'] in must] + pick

def plain_case(chk, key, f, kw, inp):
    """a call without sequence arguments: arguments unchanged, second call with the same objects bit-identical"""
    if not chk.begin(key, inp): return
    chk.l3((key,))
    before = {k: deep_snap(v) for k, v in kw.items()}
    try:
        r1 = flat_result(f(**kw))
    except Exception as e:
        chk.l3((key, 'raises', type(e).__name__)); return
    for k in kw:
        if deep_snap(kw[k]) != before[k]:
            chk.fail('%s:mutates:%s' % (key.split(':')[0], k), '%s modified its argument %s in place' % (key, k), inp)
    try:
        r2 = flat_result(f(**kw))
    except Exception as e:
        chk.fail('%s:repeat-raises' % key.split(':')[0], '%s raises %r when called a second time with the same objects' % (key, e), inp); return
    if r1.shape != r2.shape or not np.array_equal(r1, r2, equal_nan=True):
        chk.fail('%s:repeat' % key.split(':')[0], '%s called twice with the same objects gives different results' % key, inp)

def l3_demes_effects(chk, ctx, rng, tier):
    dadi = ctx['dadi']
    try:
        import demes
    except ImportError:
        chk.l3(('demes', 'not-installed')); return
    quick = (tier == 'quick')
    def arg_case(*a, **k):
        return arg_case_impl(*a, quick=quick, primary=('sampled_demes', 'ids2'), **k)
    def sfs(**kw):
        fs = dadi.Demes.SFS(**kw); return [fs, ids_code(fs.pop_ids)]
    def from_demes(**kw):
        fs = dadi.Spectrum.from_demes(**kw); return [fs, ids_code(fs.pop_ids)]
    for rep in range(1 if quick else 2):
        variants = demes_variants(rng, tier)
        nfd = 0
        for vi, v in enumerate(variants):
            root = v['g'][v['g'].demes[0].name].epochs[0].start_size
            for fname in ('SFS', 'from_demes'):
                if quick and fname == 'from_demes' and not (v['cls'] == 'extinct:times=None' or (nfd < 4 and rng.random() < 0.4)):
                    continue
                if fname == 'from_demes': nfd += 1
                extra = {}
                o = int(rng.integers(3))
                heavy = v['cls'].startswith('admix')             # four demes alive at once with an ancient sample: python-level 4D integration
                if o == 1: extra['Ne'] = float(root * rng.choice([0.5, 1.25]))
                if o == 2 and fname == 'SFS' and not heavy: extra = dict(gamma=float(rng.uniform(-2, 1)), h=float(rng.uniform(0.2, 0.8)), theta=float(rng.choice([1.0, 3.5])))
                scalar_pts = (fname == 'SFS') or rng.random() < 0.25
                base = 6 if heavy else int(rng.integers(8, 12))
                ptsl = [base, base + 2, base + 4]
                def mk(C, v=v, fname=fname, extra=extra, scalar_pts=scalar_pts, ptsl=ptsl):
                    kw = dict(g=v['g'], sampled_demes=C('sampled_demes', 'seq', v['demes']), sample_sizes=C('sample_sizes', 'count', v['sizes']))
                    kw['pts'] = ptsl[1] if scalar_pts else C('pts', 'grid', ptsl)
                    if v['times'] is not None: kw['sample_times'] = C('sample_times', 'real', v['times'])
                    elif rng.random() < 0.5: kw['sample_times'] = None
                    kw.update(extra)
                    return (sfs if fname == 'SFS' else from_demes), kw
                arg_case(chk, rng, 'Demes' if fname == 'SFS' else 'Spectrum', fname,
                         dict(route=v['cls'], options='+'.join(sorted(extra)) or 'default', pts='scalar' if scalar_pts else 'list'), mk)
        # the graph utilities on the same graphs
        for v in variants[:: (3 if quick else 1)]:
            for uname in ('slice', 'swipe'):
                t = float(rng.integers(2, 60)) * (v['g'].generation_time or 1.0)
                f = getattr(dadi.Demes.DemesUtil, uname)
                plain_case(chk, 'DemesUtil.%s:%s' % (uname, v['cls']), lambda g, t, f=f: graph_code(f(g, t)), dict(g=v['g'], t=t), dict(function=uname, route=v['cls'], t=t))
        # the exporter: a native program run with `deme_ids` lists, exported with / without a name mapping and units
        xx = dadi.Numerics.default_grid(10)
        nu1, nu2, T1, T2, fr = [float(x) for x in (rng.uniform(0.5, 2), rng.uniform(0.5, 2), rng.uniform(0.05, 0.2), rng.uniform(0.05, 0.2), rng.uniform(0.05, 0.4))]
        def program(ids1, ids2, pulse):
            phi = dadi.PhiManip.phi_1D(xx, deme_ids=ids1)
            phi = dadi.Integration.one_pop(phi, xx, T1, nu1, deme_ids=ids1)
            phi = dadi.PhiManip.phi_1D_to_2D(xx, phi, deme_ids=ids2)
            phi = dadi.Integration.two_pops(phi, xx, T2, nu1, nu2, m12=1.0, m21=0.5, deme_ids=ids2)
            if pulse:
                phi = dadi.PhiManip.phi_2D_admix_1_into_2(phi, fr, xx, xx)
                phi = dadi.Integration.two_pops(phi, xx, T2, nu1, nu2, deme_ids=ids2)
        for pulse in (False, True):
            for units in (dict(), dict(Nref=100.0), dict(Nref=100.0, generation_time=2.0)):
                for mapping in (None, {'west': ['popA'], 'east': ['popB']}, {'root': ['anc', 'popA']}):
                    if quick and rng.random() < 0.5: continue
                    def export(ids1, ids2, deme_mapping, pulse=pulse, units=units):
                        program(ids1, ids2, pulse)
                        return graph_code(dadi.Demes.output(deme_mapping=deme_mapping, **units))
                    def mk(C, mapping=mapping, export=export):
                        return export, dict(ids1=C('ids1', 'seq', ['anc']), ids2=C('ids2', 'seq', ['popA', 'popB']), deme_mapping=copy.deepcopy(mapping))
                    arg_case(chk, rng, 'Demes', 'output', dict(pulse=pulse, units='+'.join(sorted(units)) or 'scaled', mapping=sorted(mapping) if mapping else None), mk)
        # the exported graph is a function of the recorded program and of the arguments of THIS call: an earlier export of the
        # same record (other names, other units) must not show in it
        for pulse in (False, True):
            for ids in (None, (['anc'], ['popA', 'popB'])):
                names = ['d1_1', 'd2_1', 'd2_2'] if ids is None else ['anc', 'popA', 'popB']
                calls = [dict(), dict(Nref=100.0), dict(Nref=50.0, generation_time=2.0), dict(deme_mapping={'X': [names[1]]}), dict(Nref=100.0, deme_mapping={'Y': [names[0], names[2]]})]
                for a in range(len(calls)):
                    for b_ in range(len(calls)):
                        if a == b_ or (quick and rng.random() < 0.6): continue
                        first, second = calls[a], calls[b_]
                        key = 'Demes.output:history'
                        inp = dict(pulse=pulse, deme_ids=ids, first_call=first, second_call=second)
                        if not chk.begin('%s:%s:%s:%d:%d' % (key, pulse, ids is not None, a, b_), inp): continue
                        chk.l3((key, pulse, ids is not None, 'deme_mapping' in first, 'deme_mapping' in second, 'Nref' in first))
                        try:
                            program(*( (None, None) if ids is None else copy.deepcopy(ids)), pulse)
                            alone = graph_code(dadi.Demes.output(**copy.deepcopy(second)))
                            program(*( (None, None) if ids is None else copy.deepcopy(ids)), pulse)
                            dadi.Demes.output(**copy.deepcopy(first))
                            after = graph_code(dadi.Demes.output(**copy.deepcopy(second)))
                        except Exception as e:
                            chk.l3((key, 'raises', type(e).__name__)); continue
                        if alone.shape != after.shape or not np.array_equal(alone, after):
                            what = 'deme_mapping' if 'deme_mapping' in first else 'units'
                            chk.fail('%s:%s' % (key, what), 'Demes.output(%s) of a recorded program returns a different graph after an earlier Demes.output(%s) of the same record than without it' % (
                                ', '.join('%s=%r' % kv for kv in second.items()), ', '.join('%s=%r' % kv for kv in first.items())), inp)

def k_memo(chk, ctx, rng):
    """the real caches behave as the memo model: hit/miss sequences return the function of the key (cache cleared first)"""
    dadi = ctx['dadi']; N = dadi.Numerics
    from math import comb
    N._projection_cache.clear()
    seq = [(int(a), int(b), int(h)) for a, b, h in zip(rng.integers(1, 8, 60), rng.integers(8, 14, 60), rng.integers(0, 8, 60))]
    seq = seq + seq[::-1]
    for (m, n, h) in seq:
        got = N._cached_projection(m, n, h)
        want = np.array([comb(m, j) * comb(n - m, h - j) / comb(n, h) if 0 <= h - j <= n - m else 0.0 for j in range(m + 1)])
        chk.l3(('memo', 'projection'))
        if not np.allclose(got, want, rtol=1e-10, atol=1e-300):
            chk.fail('memo:_cached_projection', '_cached_projection(%d,%d,%d) after a call history differs from the hypergeometric weights' % (m, n, h), dict(m=m, n=n, h=h))

# ---------------------------------------------------------------- K: every memo table vs the Lean table model
def memo_adapters(dadi, rng):
    """per memo table: inputs (names as in the generated table) -> pools of concrete values, the real cached call, and a reference
    that computes the value without the cache"""
    from math import comb, lgamma
    from scipy.special import betaln, betainc
    N = dadi.Numerics; G = dadi.Godambe; S = dadi.Spectrum
    ad = {}
    tuplesN = [tuple(int(x) for x in rng.integers(0, 9, 3)) for _ in range(3)] + [tuple(int(x) for x in rng.integers(0, 9, 4))]
    ad['_multinomln_cache'] = dict(mod=N, pools=dict(N=tuplesN), call=lambda a: N.multinomln(list(a['N'])),
                                   ref=lambda a: lgamma(sum(a['N']) + 1) - sum(lgamma(x + 1) for x in a['N']))
    lnc = lambda n, k: lgamma(n + 1) - lgamma(k + 1) - lgamma(n - k + 1)
    ad['_BetaBinomln_cache'] = dict(mod=N, pools=dict(a=[0.5, 1.5, 2.25], b=[0.75, 2.0, 3.5], i=[0, 1, 2], n=[2, 4, 5]),
                                    call=lambda a: N.BetaBinomln(a['i'], a['n'], a['a'], a['b']),
                                    ref=lambda a: lnc(a['n'], a['i']) + betaln(a['i'] + a['a'], a['n'] - a['i'] + a['b']) - betaln(a['a'], a['b']))
    part_pools = dict(maxval=[2, 3, 4], minval=[0, 1], n=[2, 3, 4], x=[3, 4, 5, 6])
    ad['_part_cache'] = dict(mod=N, pools=part_pools, call=lambda a: [list(p) for p in N.cached_part(a['x'], a['n'], a['minval'], a['maxval'])],
                             ref=lambda a: [list(p) for p in N.part(a['x'], a['n'], a['minval'], a['maxval'])])
    def precalc_ref(a):
        counts, multi = [], []
        for prt in N.part(a['x'], a['n'], a['minval'], a['maxval']):
            counts.append([prt.count(v) for v in range(a['minval'], a['maxval'] + 1)])
            multi.append(lgamma(sum(counts[-1]) + 1) - sum(lgamma(c + 1) for c in counts[-1]))
        return [counts, multi]
    ad['_part_precalc_cache'] = dict(mod=N, pools=part_pools, call=lambda a: [list(x) for x in N.cached_part_precalc(a['x'], a['n'], a['minval'], a['maxval'])], ref=precalc_ref)
    def proj_ref(a):
        m, n, h = a['proj_to'], a['proj_from'], a['hits']
        return [comb(m, j) * comb(n - m, h - j) / comb(n, h) if 0 <= h - j <= n - m else 0.0 for j in range(m + 1)]
    ad['_projection_cache'] = dict(mod=N, pools=dict(hits=[0, 2, 3, 5], proj_from=[9, 10, 12], proj_to=[3, 4, 6]),
                                   call=lambda a: list(N._cached_projection(a['proj_to'], a['proj_from'], a['hits'])), ref=proj_ref)
    grids = [N.default_grid(9), N.default_grid(9, crwd=2.), np.linspace(0, 1, 9), N.default_grid(10)]
    def dbeta_ref(a):
        nx, xx = a['nx'], np.minimum(np.maximum(a['xx'], 0), 1.0)
        out = []
        for k in (1, 2):
            for ii in range(nx + 1):
                b = betainc(ii + k, nx - ii + 1, xx); out.append(b[1:] - b[:-1])
        return np.concatenate(out)
    ad['_dbeta_cache'] = dict(mod=dadi.Spectrum_mod, pools=dict(nx=[2, 3, 5], xx=grids),
                              call=lambda a: np.concatenate([np.ravel(x) for x in dadi.Spectrum_mod.cached_dbeta(a['nx'], a['xx'])]), ref=dbeta_ref)
    # the model-spectrum cache: the closure `func` of get_godambe is obtained by intercepting the Hessian routine; every evaluation of
    # the model function returns a constant spectrum with a value unique to that evaluation, so the log-likelihood the closure
    # returns identifies the evaluation (its function, parameters, sample sizes, grid) whose spectrum was used
    log = []            # (value, (func code, grid, ns, params) as passed to the model function)
    def mk_func(code):
        def fn(params, ns, pts):
            c = 2.0 + 0.25 * len(log)
            log.append((c, dict(func_ex=code, grid_pts=tuple(int(x) for x in pts), ns=tuple(int(x) for x in ns), params=tuple(float(x) for x in params))))
            return S(c * np.ones(int(ns[0]) + 1))
        return fn
    funcs = [mk_func(i) for i in range(3)]
    def g_call(a):
        data = S(np.ones(a['ns'][0] + 1)); box = {}
        orig = G.get_hess
        def grab(func, p0, eps, args=()):
            box['f'] = func; return np.zeros((len(p0), len(p0)))
        G.get_hess = grab
        try:
            G.get_godambe(a['func_ex'], list(a['grid_pts']), [], list(a['params']), data, 0.01, just_hess=True)
        finally:
            G.get_hess = orig
        val = box['f'](np.array(a['params']), data)
        for c, args in log:
            if val == dadi.Inference.ll(S(c * np.ones(a['ns'][0] + 1)), data):
                return ('evaluation', args['func_ex'], args['grid_pts'], args['ns'], args['params'])
        return ('unidentified', float(val))
    ad['cache'] = dict(mod=G, pools=dict(func_ex=funcs, grid_pts=[(10, 12, 14), (10, 12, 16), (20, 22, 24), (10, 12, 14, 16)], ns=[(6,), (8,)],
                                         params=[(1.0, 0.5), (1.25, 0.5), (1.0, 0.75)]),
                       call=g_call, ref=lambda a: ('evaluation', funcs.index(a['func_ex']), tuple(a['grid_pts']), tuple(a['ns']), tuple(float(x) for x in a['params'])))
    return ad

def same_value(x, y):
    if isinstance(x, (list, tuple)) and isinstance(y, (list, tuple)):
        return len(x) == len(y) and all(same_value(a, b) for a, b in zip(x, y))
    if isinstance(x, (list, tuple)) or isinstance(y, (list, tuple)):
        return False
    try:
        xa = np.asarray(x, dtype=float); ya = np.asarray(y, dtype=float)
    except Exception:
        return x == y
    return xa.shape == ya.shape and bool(np.allclose(xa, ya, rtol=1e-11, atol=1e-300, equal_nan=True))

def k_memo_tables(chk, ctx, rng, tier):
    """K: the real memo tables against the Lean table model (Driver/Memo.lean; key components from the generated table).  For a
    history of argument tuples — a base tuple, then each input changed alone, the base again, random tuples — the real cached call
    returns a value; the value is identified with the argument tuple whose cache-free computation gives it; the model says which
    tuple's value the memo pattern returns."""
    dadi = ctx['dadi']; drv = ctx.get('driver')
    if drv is None or not drv.ok():
        chk.k_skipped += 1; return
    ad = memo_adapters(dadi, rng)
    for cache in sorted(ad):
        a = ad[cache]
        r = drv.ask('c20.inputs %s' % cache)
        if not r.startswith('ok '):
            chk.k_bad('c20.inputs', dict(cache=cache), 'memo table present in the harness', r, 'the generated table has no memo table of this name'); continue
        used = r.split(' ')[1].split(',')
        if sorted(used) != sorted(a['pools']):
            chk.k_bad('c20.inputs', dict(cache=cache), sorted(a['pools']), used, 'the cached computation reads inputs the harness does not vary (or no longer reads some)'); continue
        for rep in range(2 if tier == 'quick' else 6):
            sizes = [len(a['pools'][u]) for u in used]
            base = [int(rng.integers(n)) for n in sizes]
            hist = [list(base)]
            for j in rng.permutation(len(used)):
                t = list(base); t[j] = int((base[j] + 1 + rng.integers(sizes[j] - 1)) % sizes[j]) if sizes[j] > 1 else base[j]
                hist += [t, list(base)] if rng.random() < 0.5 else [t, list(t), list(base)]
            hist += [[int(rng.integers(n)) for n in sizes] for _ in range(4)]
            hist += [hist[int(rng.integers(len(hist)))] for _ in range(3)]
            getattr(a['mod'], cache).clear()
            rep_model = drv.ask('c20.memo %s %s' % (cache, ';'.join(','.join(str(x) for x in t) for t in hist)))
            inp = dict(cache=cache, inputs=used, history=hist)
            if not rep_model.startswith('ok '):
                chk.k_bad('c20.memo', inp, None, rep_model, 'model refuses the history'); continue
            model = [[int(x) for x in t.split(',')] for t in rep_model[3:].split(';')]
            args = lambda t: {u: a['pools'][u][c] for u, c in zip(used, t)}
            bad = None
            for pos, (t, m) in enumerate(zip(hist, model)):
                try:
                    got = a['call'](args(t))
                except Exception as e:
                    bad = (pos, 'raises %r' % (e,)); break
                # L3 on the same call: the property itself (the value of the call's own arguments), independent of the model
                chk.l3(('memo-table', cache))
                if not same_value(got, a['ref'](args(t))):
                    chk.fail('memo-table:%s' % cache, '%s: call %d of the history %s returns a value that is not the value of its own arguments %s' % (cache, pos, hist[:pos + 1], dict(zip(used, t))),
                             dict(cache=cache, inputs=used, history=hist[:pos + 1], arguments={u: (repr(v) if not callable(v) else 'model function #%d' % c) for (u, v), c in zip(args(t).items(), t)}))
                if bad is None and not same_value(got, a['ref'](args(m))):
                    who = [h for h in hist[:pos + 1] if same_value(got, a['ref'](args(h)))]
                    bad = (pos, 'call %d with %s returns the value of %s; the model returns the value of %s' % (pos, dict(zip(used, t)), [dict(zip(used, w)) for w in who[:1]] or 'no call of the history', dict(zip(used, m))))
            if bad: chk.k_bad('c20.memo:' + cache, inp, bad[1], model[bad[0]], 'memo table and table model disagree')
            else: chk.k_ok('c20.memo:' + cache)
            getattr(a['mod'], cache).clear()

def k_flow_effects(chk, ctx, rng):
    """K: the alias-flow model (Lean analysis `Driver.Memo.arun` of the skeletons regenerated from the source, op `c20.flow`) against
    the effects observed on the real functions of the demes front end: for every probed function the parameters observed to be
    modified (deep byte snapshots before / after, union over the probe calls) are exactly the parameters the model says may be
    modified — none for the public entry points, the documented ones for the helpers that work in place."""
    dadi = ctx['dadi']; drv = ctx.get('driver')
    if drv is None or not drv.ok():
        chk.k_skipped += 1; return
    try:
        import demes
    except ImportError:
        chk.k_skipped += 1; return
    D = dadi.Demes.Demes; U = dadi.Demes.DemesUtil
    def graph(units='generations', gt=None, bend=0.0):
        sc = float(gt or 1.0); kw = dict(time_units=units)
        if gt: kw['generation_time'] = gt
        b = demes.Builder(**kw)
        b.add_deme('anc', epochs=[dict(start_size=1000.0, end_time=300 * sc)])
        b.add_deme('A', ancestors=['anc'], epochs=[dict(start_size=float(rng.integers(800, 2000)), end_time=0)])
        b.add_deme('B', ancestors=['anc'], epochs=[dict(start_size=float(rng.integers(300, 900)), end_time=bend * sc)])
        return b.resolve()
    t = float(rng.integers(4, 20)); gt = float(rng.choice([2.0, 25.0]))
    xx = dadi.Numerics.default_grid(8)
    def phi2():
        return dadi.PhiManip.phi_1D_to_2D(xx, dadi.PhiManip.phi_1D(xx))
    fr = float(rng.uniform(0.1, 0.4))
    probes = {
        'Demes.SFS': (D.SFS, [dict(g=graph(bend=t), sampled_demes=['A', 'B'], sample_sizes=[3, 2], pts=8),
                              dict(g=graph(), sampled_demes=['A', 'B'], sample_sizes=[3, 2], pts=8, sample_times=[0.0, t]),
                              dict(g=graph('years', gt), sampled_demes=['A', 'B'], sample_sizes=[3, 2], pts=8, sample_times=[0, 0]),
                              dict(g=graph('years', gt, bend=t), sampled_demes=['B', 'A'], sample_sizes=[3, 2], pts=8)]),
        'Spectrum.from_demes': (dadi.Spectrum.from_demes, [dict(g=graph(bend=t), sampled_demes=['A', 'B'], sample_sizes=[3, 2], pts=[6, 8]),
                                                            dict(g=graph(), sampled_demes=['A', 'B'], sample_sizes=[3, 2], pts=[6, 8], sample_times=[0.0, t])]),
        'Demes._convert_to_generations': (D._convert_to_generations, [dict(g=graph('years', gt), deme_sample_times=[0, gt * t])]),
        'Demes._augment_with_ancient_samples': (D._augment_with_ancient_samples, [dict(g=graph(), sampled_demes=['A', 'B'], deme_sample_times=[0.0, t])]),
        'Demes._apply_event': (D._apply_event, [dict(phi=phi2(), xx=xx, pop_ids=['A', 'B'], event=('marginalize', 'B'), interval=0, sample_sizes=[3, 2], demes_present={}),
                                                dict(phi=phi2(), xx=xx, pop_ids=['A', 'B'], event=('pulses', ['A'], 'B', [fr]), interval=0, sample_sizes=[3, 2], demes_present={})]),
        'Demes._admix_phi': (D._admix_phi, [dict(phi=phi2(), xx=xx, proportions=[fr], pop_ids=['A', 'B'], sources=['A'], dest='B')]),
        'Demes._make_sorted_proportions_list': (D._make_sorted_proportions_list, [dict(proportions=[fr], source_i=[0], dest_i=1, pop_ids=['A', 'B'])]),
        'Demes._split_phi': (D._split_phi, [dict(phi=phi2(), xx=xx, pop_ids=['A', 'B'], parent='A', new_pop_ids=['A', 'B', 'C'])]),
        'DemesUtil.slice': (U.slice, [dict(g=graph(), t=t)]),
        'DemesUtil.swipe': (U.swipe, [dict(g=graph(), t=t)]),
    }
    for name in sorted(probes):
        f, calls = probes[name]
        r = drv.ask('c20.flow %s' % name)
        if not r.startswith('ok '):
            chk.k_bad('c20.flow', dict(function=name), 'function of the demes front end', r, 'no skeleton of this function in the generated table'); continue
        params = r.split(' ')[1].split(',') if r.split(' ')[1] else []
        predicted = [] if r.split(' ')[2] == '-' else r.split(' ')[2].split(',')
        observed = set(); note = None
        for kw in calls:
            if sorted(kw) != sorted(p for p in params if p in kw) or any(k not in params for k in kw):
                note = 'probe passes %s, the function has the parameters %s' % (sorted(kw), params); break
            before = {k: deep_snap(v) for k, v in kw.items()}
            try:
                f(**kw)
            except Exception as e:
                note = 'probe raises %r' % (e,)
            observed |= {k for k in kw if deep_snap(kw[k]) != before[k]}
        inp = dict(function=name, probes=[{k: (v if isinstance(v, (list, int, float, str, tuple)) else type(v).__name__) for k, v in kw.items()} for kw in calls])
        if sorted(observed) == sorted(predicted) and (note is None or observed):
            chk.k_ok('c20.flow:' + name)
        else:
            chk.k_bad('c20.flow:' + name, inp, sorted(observed), sorted(predicted),
                      'parameters observed to be modified on the real function vs parameters the alias-flow model says may be modified' + ('' if note is None else ' (%s)' % note))

def k_mask_writes(chk, ctx, rng, tier):
    """K: the methods that write into the mask in place (`mask_corners`, `unmask_all`) on masks of every layout against the Lean
    strided-array model (`Driver.Memo.applyWrites` over the rows `Gen.Effects.maskWrites` regenerated from the source): the whole
    memory block that holds the mask — the bytes of the mask AND the bytes between / around them for views — before the call goes
    to the model together with the position of every logical element; the block after the real call must be the model's."""
    dadi = ctx['dadi']; drv = ctx.get('driver'); S = dadi.Spectrum
    if drv is None or not drv.ok():
        chk.k_skipped += 1; return
    for method in ('mask_corners', 'unmask_all'):
        for nd in (1, 2, 3):
            for rep in range(1 if tier == 'quick' else 3):
                shape = tuple(int(x) for x in rng.integers(2, 5, nd)) if nd > 1 else (int(rng.integers(2, 8)),)
                vals = rng.integers(1, 9, shape).astype(float)
                M = rng.random(shape) < 0.3
                ref, variants = spectrum_variants(S, vals, M, False, False, None, False, rng)
                for vname, build in [('ctor:data=C:mask=C', ref)] + variants:
                    try:
                        fs = build()
                    except Exception:
                        chk.k_skipped += 1; continue
                    m = fs.mask
                    own = m
                    while isinstance(own.base, np.ndarray): own = own.base
                    span = sum((s_ - 1) * abs(st) for s_, st in zip(own.shape, own.strides)) + 1
                    if not own.flags.owndata or own.itemsize != 1 or span != own.size or any(st < 0 for st in own.strides):
                        chk.k_skipped += 1; continue
                    block = np.lib.stride_tricks.as_strided(own, shape=(own.size,), strides=(1,))
                    off = m.__array_interface__['data'][0] - own.__array_interface__['data'][0]
                    idx = np.indices(m.shape)
                    pos = (off + sum(idx[i] * m.strides[i] for i in range(m.ndim))).ravel()
                    if pos.min() < 0 or pos.max() >= block.size or not np.array_equal(block[pos].astype(bool), np.ravel(np.array(m))):
                        chk.k_skipped += 1; continue
                    before = ''.join('1' if b else '0' for b in block.astype(bool))
                    inp = dict(method=method, layout=vname, shape=list(shape), positions=[int(p_) for p_ in pos], block_before=before)
                    try:
                        getattr(fs, method)()
                        impl = 'ok ' + ''.join('1' if b else '0' for b in block.astype(bool))
                    except IndexError:
                        impl = 'err index'
                    model = drv.ask('c20.maskwrite Spectrum.%s %s %s' % (method, ','.join(str(int(p_)) for p_ in pos), before))
                    if impl == model: chk.k_ok('c20.maskwrite:' + method)
                    else: chk.k_bad('c20.maskwrite:' + method, inp, impl, model, 'memory block of the mask after Spectrum.%s() vs the strided-array model executing the generated stores' % method)
                    if method != 'mask_corners': continue
                    # the primitives of the array model against numpy itself, on the same mask: one store through each kind of handle
                    # (`ravel` writes through only for a C-contiguous array, `flatten` never, `flat` / direct always)
                    for handle in ('flat', 'ravel', 'flatten', 'direct'):
                        ix = 'all' if handle == 'direct' or rng.random() < 0.2 else str(int(rng.integers(-m.size - 1, m.size + 1)))
                        v = bool(rng.integers(2))
                        before = ''.join('1' if b else '0' for b in block.astype(bool))
                        try:
                            tgt = m if handle == 'direct' else m.flat if handle == 'flat' else m.ravel() if handle == 'ravel' else m.flatten()
                            if ix == 'all': tgt[...] = v
                            else: tgt[int(ix)] = v
                            impl = 'ok ' + ''.join('1' if b else '0' for b in block.astype(bool))
                        except IndexError:
                            impl = 'err index'
                        model = drv.ask('c20.arrwrite %s %s %d %s %s' % (handle, ix, int(v), ','.join(str(int(p_)) for p_ in pos), before))
                        if impl == model: chk.k_ok('c20.arrwrite:' + handle)
                        else: chk.k_bad('c20.arrwrite:' + handle, dict(inp, handle=handle, index=ix, value=v, block_before=before, c_contiguous=bool(m.flags.c_contiguous)), impl, model,
                                        'numpy store through %s vs the strided-array model' % handle)

class EventChk:
    """Check stub used inside the crash-isolated child: emits one JSON event per line.  `begin` announces the call about to be
    made (so that a hard crash - heap corruption in the C kernels - is attributed to it) and skips cases already done."""
    def __init__(self, skip):
        self.n = 0; self.skip = skip
    def emit(self, **kw):
        import json
        sys.stdout.write(json.dumps(common.jsonable(kw)) + '\n'); sys.stdout.flush()
    def begin(self, key, inp):
        self.n += 1
        if self.n <= self.skip: return False
        self.emit(ev='start', n=self.n, key=key, input=inp)
        return True
    def l3(self, key): self.emit(ev='l3', key=key)
    def fail(self, key, what, inp): self.emit(ev='fail', key=key, what=what, input=inp)

def worker_main():
    path, seed, tier, skip = sys.argv[2], int(sys.argv[3]), sys.argv[4], int(sys.argv[5])
    sys.path.insert(0, path)
    import warnings, logging
    warnings.filterwarnings('ignore'); logging.disable(logging.WARNING)
    np.seterr(all='ignore')
    import dadi
    assert os.path.realpath(dadi.__file__).startswith(os.path.realpath(path))
    chk = EventChk(skip)
    l3_layout_and_effects(chk, dict(dadi=dadi), common.Rng(seed, 'C20-layout'), tier)
    l3_spectrum_layouts(chk, dict(dadi=dadi), common.Rng(seed, 'C20-fs-layout'), tier)
    l3_phi_layouts(chk, dict(dadi=dadi), common.Rng(seed, 'C20-phi-layout'), tier)
    l3_argument_effects(chk, dict(dadi=dadi), common.Rng(seed, 'C20-args'), tier)
    l3_demes_effects(chk, dict(dadi=dadi), common.Rng(seed, 'C20-demes'), tier)
    chk.emit(ev='done')

def layout_isolated(chk, ctx, tier):
    """run l3_layout_and_effects in a child process; restart after a hard crash, attributing it to the announced call"""
    import json
    path = ctx['scratch'] or ctx['repo']
    skip = 0; crashes = 0
    while True:
        env = dict(os.environ); env['PYTHONPATH'] = common.VERIF
        p = subprocess.run([sys.executable, '-m', 'harness.c20', 'worker', path, str(ctx['seed']), tier, str(skip)], cwd=common.VERIF,
                           stdout=subprocess.PIPE, stderr=subprocess.PIPE, env=env, timeout=3000)
        last = None; done = False
        for line in p.stdout.decode(errors='replace').splitlines():
            try: ev = json.loads(line)
            except Exception: continue
            if ev['ev'] == 'start': last = ev
            elif ev['ev'] == 'l3': chk.l3(tuple(ev['key']) if isinstance(ev['key'], list) else ev['key'])
            elif ev['ev'] == 'fail': chk.fail(ev['key'], ev['what'], ev['input'])
            elif ev['ev'] == 'done': done = True
        if done: break
        if last is None:
            raise common.Infra('C20 layout worker died before its first case: ' + p.stderr.decode(errors='replace')[-1500:])
        crashes += 1
        chk.fail(last['key'] + ':crash', 'the interpreter crashed (exit %s: %s) during %s' % (p.returncode, p.stderr.decode(errors='replace').strip().splitlines()[-1:] , last['key']), last['input'])
        skip = last['n']
        if crashes > 60:
            break
    chk.stats['layout_worker_crashes'] = crashes

def run(chk, ctx):
    tier = ctx['tier']; rng = common.Rng(ctx['seed'], 'C20')
    chk.rule = ('(i) random interleavings (length 2-40, repeated calls) of 35 kinds of API calls (incl. uncertainty calls on one shared model function with parameters / sample sizes / '
                'grids from small pools, demes calls with ancient samples on one shared set of argument lists, export of a recorded program) vs each call in a fresh interpreter, results hashed bit-for-bit; (i\') for every memo table and EVERY input of its cached computation '
                '(generated table: usedParams) two otherwise identical calls differing in that input alone, both orders, repeated, vs a fresh interpreter (direct calls, the public '
                'paths project / from_phi / from_phi_inbreeding, and FIM/GIM/get_godambe/LRT/Wald/score with multinom False and True: function object, one parameter, sample '
                'size, one grid point, whole grid, grid length, step, data); every memo entry recomputed from its key afterwards; '
                '(ii) same sequence under several PYTHONHASHSEED values; (iii) C/F/strided/negatively-strided/transposed layouts of phi and of the grid for every integrator '
                '(constant and time-dependent drivers, zero and positive duration), from_phi and Spectrum methods; (iii\') the same logical spectrum in every layout of its data AND of its mask '
                '(constructor: data C/F/strided/negative/transposed/swapaxes x explicit mask C/F/transposed/swapaxes/strided/negative/broadcast/list/int/absent; views: transpose, T, swapaxes, '
                'reversed, sliced out of a larger spectrum) x corner entries masked in the input or not x mask_corners True/False x masks with/without interior entries x unfolded/folded x '
                'pop_ids, dimensions 1-3 (non-square shapes): construct, mask_corners, unmask_all, S, sum, log, arithmetic, in-place arithmetic, copy/deepcopy/pickle/to_file, sample, '
                'fixed_size_sample, fold, unfold, project, marginalize (each axis, mask_corners T/F), filter_pops, combine_pops, reorder_pops, scramble_pop_ids, Fst, pi, Watterson_theta, theta_L, '
                'Zengs_E, Tajima_D, apply_anc_state_misid, reverse_array, intersect_masks, the ten likelihood/residual functions with the spectrum as model and as data, FIM_uncert with it as data '
                '(thorough): result (values to 1e-12 — dyadic data, so sums are exact —, mask, folded, pop_ids exactly) and the spectrum AFTER the call equal to those of the C-ordered private '
                'spectrum; documented mask semantics of mask_corners / unmask_all / constructor on the reference; (iii\'\') PhiManip constructors / splits / admixture / pulses / remove / filter / '
                'reorder and Numerics.trapz / reverse_array / end_point_first_derivs with phi in C/F/strided/negative/transposed layout and the grid contiguous / strided; (iv) byte comparison of every array/list argument before/after '
                'and np.shares_memory(result, argument); (iv\') for the uncertainty calls (all ten functions of Godambe, multinom x log x option flags x generic / integral / boundary / '
                'tiny parameters), likelihoods and residuals (plain, folded, masked, unmasked corners, integer data, strided), objective functions, optimisers (2 iterations), '
                'perturb_params / _project_params and list-taking Spectrum methods: every sequence argument in turn as list, tuple, float64 array, strided float64 view, list of numpy '
                'scalars, int64 array, int list: deep byte snapshot of ALL arguments before/after, second call with the same objects bit-identical, value equal to the float-list call. '
                '(iv\'\') demes calls: Demes.SFS / Spectrum.from_demes on 22 routes (present-day, zero times given, ancient sample given, same deme twice, all ancient / sliced, sampled deme '
                'extinct with sample_times=None, graphs in years, pulse, admixture, merger) x options x pts scalar / list, every sequence argument as list / tuple / int64 / strided / float64 / '
                'numpy-scalar list, graph included in the snapshot, second call with the same objects (spectrum, mask, pop_ids); DemesUtil.slice / swipe; Demes.output of a recorded program '
                '(deme_ids lists, deme_mapping dicts, units) and output(second) alone vs after output(first) for all ordered pairs of five argument sets. '
                'K: real memo tables vs the Lean table model (Driver/Memo.lean) on histories base / one-input-changed / base; parameters observed to be modified on ten functions of the demes '
                'front end vs the parameters the Lean alias-flow analysis of the regenerated skeletons predicts (c20.flow); the whole memory block holding the mask (incl. the bytes between / around a '
                'view\'s elements) after Spectrum.mask_corners / unmask_all on masks of every layout vs the Lean strided-array model executing the stores regenerated from the source (c20.maskwrite). non-trivial = distinct (clause, function, option, argument, container) keys')
    chk.unproved = ['hash-seed independence, memory-layout independence, object identity and aliasing are runtime facts: monitored (L3), not provable in a pure model',
                    'the effect table is a conservative syntactic analysis (tools/gen_Effects.py: path-sensitive forward data flow of alias roots through asarray/ravel/reshape/array(copy=False)/'
                    'masked-array constructors, nested functions and closure variables, function tables and make_extrap_func wrappers, interprocedural modified-parameter and returned-alias summaries '
                    'within the audited modules), not a semantic proof: the may-alias analysis is proved sound for the control-flow skeletons (C20_flow_sound) and the skeletons of the demes front end '
                    'are analysed in Lean too, but the extraction of a skeleton from the Python source is trusted; dynamic dispatch other than literal function tables, loop variables bound to '
                    'elements and C-level writes are covered by the byte comparisons only',
                    'the table of writes through possibly-copied handles (copyWrites) is a syntactic scan (forward pass, union at joins) with a built-in self-test; numpy\'s rule "ravel is a view '
                    'iff the array is C-contiguous" is an axiom of the strided-array model, compared with numpy by K (c20.arrwrite), and only stores in the closed language '
                    '(direct / flat / ravel / flatten handle, literal index, Boolean value) are modelled — others are tabled as .other and left to the run-time layout monitors']
    chk.assumptions.append('fresh-interpreter reference runs use the same scratch build of dadi')
    layout_isolated(chk, ctx, tier)
    k_memo(chk, ctx, rng)
    k_memo_tables(chk, ctx, common.Rng(ctx['seed'], 'C20-K'), tier)
    k_flow_effects(chk, ctx, common.Rng(ctx['seed'], 'C20-flow'))
    k_mask_writes(chk, ctx, common.Rng(ctx['seed'], 'C20-maskwrite'), tier)
    memo_histories(chk, ctx, common.Rng(ctx['seed'], 'C20-memo'), tier)
    history(chk, ctx, rng, tier)

def replay(chk, ctx, data):
    run(chk, ctx)

if __name__ == '__main__' and len(sys.argv) > 1 and sys.argv[1] == 'worker':
    worker_main()
