"""C12 — optimisers honour bounds and fixed parameters and report the point they found.

T : tools/gen_Optim.py regenerates Generated/Optim.lean from dadi/Inference.py, dadi/NLopt_mod.py, dadi/Misc.py: the bound
    tests / sentinel / NaN guard / return of `_object_func`, the `is None` tests of `_project_params_up/down`, for every
    `optimize*` wrapper and for `NLopt_mod.opt` (both values of log_opt) the start vector, the bounds handed to the
    optimiser and to `_object_func`, the objective and the result assembly as terms of a small vector-expression language,
    and the clamp formulas of `Misc.perturb_params`.  Props/C12.lean proves the property clauses about those definitions
    for every optimiser behaviour (an optimiser is an arbitrary sequential strategy).
K : trace validation.  Every exposed optimiser is run on 1-4 parameter toy problems (closed-form spectra) behind recording
    shims at the optimiser boundary (scipy.optimize.* / nlopt.opt): start vector, bounds, every query with the value it
    was answered with, the raw answer; the model function records every point it is called at.  The Lean model replays
    the trace through `runWrapper` (generated wrapper row + recorded strategy) and must reproduce start, bounds, which
    queries reach the model function and at which point, every objective value, the returned vector and the reported
    optimum; `checkTrace` re-derives the clauses of the property and must agree with the direct oracle.  Plus direct K on
    `_project_params_up/down`, `_object_func` (bounds, None entries, NaN, ll_scale, fixed) and `perturb_params`.
    Element types: `_project_params_up` allocates its output; the translator reads the allocation statement into `upOutDtype` (element type
    of the output as a function of the element type numpy infers for the reduced vector), the driver executes the typed definitions
    `projectUpT` / `objectFuncT` / `runWrapperT` with the element types observed on the real call (p0, queries, answer), and
    `C12_up_store` / `C12_up_dtype` / `C12_objective_dtype` / `C12_run_dtype` prove them equal to the untyped ones.
    Round 5: the grid search is not replayed but MODELLED (`runGridT`: the generated optimize_grid row around the enumeration `bruteOpt (gridPoints
    slices)`): from the caller's slices and fixed_params alone the model must reproduce the evaluation points in order, every value, brute's answer,
    the returned pair (op `grid:optimize_grid`); `perturb_params` goes through `perturbFold` (generated exponent of the draw + generated clamps) for
    every fold; the arguments each wrapper hands to `_object_func`, bound against its signature on the real call, against the generated `objCalls`.
L3: the property statement evaluated on the real calls, independent of the model: no exception, first model evaluation is
    the user's start, every evaluation inside the bounds and carrying the fixed values, returned vector fixed/in bounds,
    likelihood of the returned vector (recomputed from the toy model) equals the reported optimum, `opt` not worse than
    the start, grid search returns the best grid point, up/down projections mutually inverse, perturbed starts inside the
    box and the caller's bound lists untouched.
"""
import math, inspect, contextlib, itertools, re
from fractions import Fraction
import numpy as np
from . import common
from .common import rat, fmt_list, parse_list

PROP = 'C12'
GENERATED = ['Optim']
NEEDS_BUILD = False
NEEDS_DRIVER = True
DRIVER_MODULES = ['Optim']

BTOL = 1e-9          # relative slack on "inside the bounds" (exp(log(b)) can be one rounding off b)
VTOL = 1e-9          # relative tolerance on likelihood values
LOCAL_ALGS = ['LN_BOBYQA', 'LN_COBYLA', 'LN_NELDERMEAD', 'LN_SBPLX']
EVAL_BUDGET = 20000  # model evaluations after which a call is stopped (healthy runs on these smooth toys need a few hundred)

class EvalBudget(Exception):
    pass

# =============================================================================================== toy problems
def toy_raw(toy):
    """closed-form spectrum as a function of 1-4 parameters (plain ndarray; corners are masked by Spectrum)"""
    kind, n, theta = toy['kind'], int(toy['n']), float(toy['theta'])
    x = np.arange(n + 1) / float(n)
    inv = np.ones(n + 1); inv[1:] = 1.0 / np.arange(1, n + 1)
    nan_above = toy.get('nan_above')
    def f(params, pts=None, shift=0.0, tilt=0.0):
        # finite everywhere: an unbounded optimiser may step to exp(800) = inf; the toy then answers like a very bad finite point
        # (a NaN/inf spectrum would make ll `masked`, see the note on the NaN guard in notes/C12.md).  NaN parameters stay NaN.
        p = np.clip(np.asarray(params, dtype=float).ravel(), -1e12, 1e12)
        with np.errstate(all='ignore'):
            if kind == 'exp':            # any sign of the parameters (selection-like coefficients)
                e = np.zeros(n + 1)
                for j, pj in enumerate(p):
                    e = e + pj * x ** (j + 1)
                a = np.exp(-np.clip(e, -60.0, 60.0)) * inv      # clipped: finite and positive wherever an unbounded optimiser wanders
            elif kind == 'bump':         # positive parameters (sizes / times)
                a = inv.copy()
                for j, pj in enumerate(p):
                    c = (j + 0.5) / len(p)
                    a = a + pj * np.exp(-((x - c) / 0.3) ** 2)
                a = np.maximum(a, 1e-9)                              # negative parameters (unbounded natural-scale optimisers) stay legal
            elif kind == 'exp2d':
                X, Y = np.meshgrid(x, x, indexing='ij')
                basis = [X, Y, X * Y, X ** 2]
                e = np.zeros((n + 1, n + 1))
                for j, pj in enumerate(p):
                    e = e + pj * basis[j]
                a = np.exp(-np.clip(e, -60.0, 60.0)) * np.outer(inv, inv)
            else:
                raise ValueError(kind)
            a = a * theta
            # the grid the caller asks for (pts), an extra positional argument (func_args) and an extra keyword (func_kwargs) all change the
            # SHAPE of the spectrum, so a stale value of any of them changes the likelihood also when multinom=True
            xx = x if a.ndim == 1 else np.add.outer(x, x) / 2.0
            if pts is not None:
                a = a * (1.0 + 6.0 * xx / float(np.min(pts)))
            a = a * (1.0 + float(shift) * xx ** 2) * np.exp(-float(tilt) * xx)
        if nan_above is not None and p[0] > nan_above:
            a = a * np.nan
        return a
    return f

class Problem:
    def __init__(self, dadi, toy, pts=None, func_args=None, func_kwargs=None):
        self.dadi = dadi; self.toy = toy
        self.raw0 = toy_raw(toy)
        self.pts = pts; self.func_args = list(func_args or []); self.func_kwargs = dict(func_kwargs or {})
        self.raw = lambda params: self.raw0(params, self.pts, *self.func_args, **self.func_kwargs)     # what the CALLER asked for
        self.inputs = []                      # (pts, args, kwargs) the model function really received, per call
        base = self.raw(toy['true'])
        nz = np.random.default_rng(int(toy.get('noise_seed', 0))).uniform(-1, 1, base.shape) * float(toy.get('noise', 0.0))
        self.data = dadi.Spectrum(base * (1.0 + nz) * float(toy.get('depth', 1.0)))
        self.calls = []
    def model_func(self, params, ns, *args, **kwargs):
        if len(self.calls) >= EVAL_BUDGET:
            raise EvalBudget('%d model evaluations' % len(self.calls))
        self.calls.append(np.array(params, dtype=float).ravel().copy())
        kw = dict(kwargs); pts = kw.pop('pts', 'absent')
        self.inputs.append((pts, list(args), kw))
        return self.dadi.Spectrum(self.raw0(params, None if isinstance(pts, str) else pts, *args, **kw))
    def ll(self, full, multinom):
        """log-likelihood of a full natural parameter vector, straight from the toy model (no recording)"""
        I = self.dadi.Inference
        with np.errstate(all='ignore'):
            sfs = self.dadi.Spectrum(self.raw(full))
            v = I.ll_multinom(sfs, self.data) if multinom else I.ll(sfs, self.data)
        return float(v)

# =============================================================================================== recording shims
class _OptimizeShim:
    WRAPPED = ('fmin_bfgs', 'fmin_l_bfgs_b', 'fmin', 'fmin_powell', 'fmin_slsqp', 'brute', 'fmin_cg', 'fmin_tnc', 'fmin_cobyla', 'minimize')
    def __init__(self, real, rec, compat):
        self._real = real; self._rec = rec; self._compat = compat
    def __getattr__(self, name):
        f = getattr(self._real, name)
        if name in self.WRAPPED:
            return self._wrap(name, f)
        return f
    def _wrap(self, name, f):
        shim = self
        def g(func, *a, **k):
            b = dict(optimizer='scipy.optimize.' + name, queries=[], values=[], out=None, stripped=[], kinds=set(),
                     x0=(None if name == 'brute' else np.array(a[0] if a else k.get('x0'), dtype=float).ravel().copy()),
                     bounds=k.get('bounds'), ranges=k.get('ranges'))
            shim._rec.append(b)
            def fw(x, *args):
                v = func(x, *args)
                b['kinds'].add(np_kind(x))          # the element type of the vector the objective is handed (a grid written with integers: int)
                b['queries'].append(np.array(x, dtype=float).ravel().copy()); b['values'].append(float(v))
                return v
            if shim._compat:
                # emulate a scipy that still accepts the keywords the wrapper passes (only used AFTER the failure of the
                # plain call has been recorded, to look for further defects behind it)
                try:
                    accepted = inspect.signature(f).parameters
                    for kw in list(k):
                        if kw not in accepted:
                            k.pop(kw); b['stripped'].append(kw)
                except (TypeError, ValueError):
                    pass
            out = f(fw, *a, **k)
            b['out'] = out
            return out
        return g

class _ScipyShim:
    def __init__(self, real, rec, compat):
        self._real = real
        self.optimize = _OptimizeShim(real.optimize, rec, compat)
    def __getattr__(self, name):
        return getattr(self._real, name)

class _RecOpt:
    """proxy of one nlopt.opt object"""
    def __init__(self, real, rec):
        object.__setattr__(self, '_real', real); object.__setattr__(self, '_b', dict(optimizer='nlopt.opt', queries=[], values=[], out=None,
                                                                                       x0=None, lower=None, upper=None, maximize=None, stripped=[]))
        object.__setattr__(self, '_rec', rec)
    def __getattr__(self, name):
        return getattr(self._real, name)
    def set_lower_bounds(self, lb):
        self._b['lower'] = np.array(lb, dtype=float).ravel().copy(); return self._real.set_lower_bounds(lb)
    def set_upper_bounds(self, ub):
        self._b['upper'] = np.array(ub, dtype=float).ravel().copy(); return self._real.set_upper_bounds(ub)
    def set_local_optimizer(self, lo):
        return self._real.set_local_optimizer(lo._real if isinstance(lo, _RecOpt) else lo)
    def _obj(self, f):
        b = self._b
        def fw(x, grad):
            v = f(x, grad)
            b['queries'].append(np.array(x, dtype=float).ravel().copy()); b['values'].append(float(v))
            return v
        return fw
    def set_max_objective(self, f):
        self._b['maximize'] = True; return self._real.set_max_objective(self._obj(f))
    def set_min_objective(self, f):
        self._b['maximize'] = False; return self._real.set_min_objective(self._obj(f))
    def optimize(self, x0):
        self._b['x0'] = np.array(x0, dtype=float).ravel().copy()
        self._rec.append(self._b)
        r = self._real.optimize(x0)
        self._b['out'] = [np.array(r, dtype=float).ravel().copy(), None]
        return r
    def last_optimum_value(self):
        v = self._real.last_optimum_value()
        if self._b['out'] is not None: self._b['out'][1] = float(v)
        return v

class _NloptShim:
    def __init__(self, real, rec):
        self._real = real; self._rec = rec
    def __getattr__(self, name):
        return getattr(self._real, name)
    def opt(self, *a):
        return _RecOpt(self._real.opt(*a), self._rec)

@contextlib.contextmanager
def recording(dadi, rec, compat=False):
    import scipy, nlopt
    I = dadi.Inference; N = dadi.NLopt_mod
    old = (I.scipy, N.nlopt)
    I.scipy = _ScipyShim(scipy, rec, compat); N.nlopt = _NloptShim(nlopt, rec)
    try:
        yield
    finally:
        I.scipy, N.nlopt = old

# =============================================================================================== wrappers
def exposed(dadi):
    """every exposed optimiser: the `optimize*` functions of Inference and `opt` (Inference.opt is NLopt_mod.opt)"""
    I = dadi.Inference
    names = sorted(n for n in dir(I) if n.startswith('optimize') and callable(getattr(I, n)))
    return names + (['opt'] if hasattr(I, 'opt') else [])

def table_name(spec):
    w = spec['wrapper']
    return 'opt[log_opt=%s]' % bool(spec.get('log_opt', False)) if w == 'opt' else w

def is_log(spec):
    return ('_log' in spec['wrapper']) or (spec['wrapper'] == 'opt' and spec.get('log_opt'))

# ----------------------------------------------------------------------------------------------- how the caller spells a vector
# A spec stores plain numbers (JSON); the FLAVOUR says in which Python / numpy type the caller hands them over.  The property is
# about VALUES: whatever the container and the element type, fixed values come back unchanged and the model sees the numbers given.
# The `int_*` flavours turn integer-valued entries into integers (an entry that is not integer-valued stays a float: a mixed list).
FLOAT_FLAVOURS = ['list', 'tuple', 'array', 'npf_list']
INT_FLAVOURS = ['int_list', 'int_tuple', 'int_array', 'npint_list', 'int32_array']
SCALAR_FLAVOURS = ['scalar_float', 'scalar_int', 'scalar_npf', 'scalar_npint']      # a single free parameter handed over bare

def _as_int(v):
    return int(v) if (v is not None and float(v).is_integer()) else v

def typed(values, flavour):
    """the object a caller would pass for the numbers `values` (None entries = absent bounds stay None)"""
    if values is None: return None
    vals = [None if v is None else float(v) for v in values]
    has_none = any(v is None for v in vals)
    fl = flavour or 'list'
    if fl.startswith('scalar_') and len(vals) == 1 and not has_none:
        v = vals[0]
        return {'scalar_float': float, 'scalar_int': lambda x: _as_int(x), 'scalar_npf': np.float64,
                'scalar_npint': lambda x: np.int64(x) if float(x).is_integer() else np.float64(x)}[fl](v)
    if fl == 'list' or fl.startswith('scalar_'): return list(vals)
    if fl == 'tuple': return tuple(vals)
    if fl == 'npf_list': return [None if v is None else np.float64(v) for v in vals]
    if fl == 'float32_array' and not has_none: return np.array(vals, dtype=np.float32)
    if fl == 'array': return list(vals) if has_none else np.array(vals, dtype=float)
    if fl == 'int_list': return [_as_int(v) for v in vals]
    if fl == 'int_tuple': return tuple(_as_int(v) for v in vals)
    if fl == 'npint_list': return [v if (v is None or not v.is_integer()) else np.int64(v) for v in vals]
    if fl in ('int_array', 'int32_array'):
        if has_none: return [_as_int(v) for v in vals]
        if all(v.is_integer() for v in vals): return np.array([int(v) for v in vals], dtype=(np.int32 if fl == 'int32_array' else np.int64))
        return np.array(vals, dtype=float)
    raise common.Infra('unknown flavour %r' % flavour)

def np_kind(obj):
    """the element type numpy infers for what the caller passed: 'int' or 'float' (what an array allocated "like" it would store)"""
    try:
        return 'int' if np.asarray(obj).dtype.kind in 'iub' else 'float'
    except Exception:
        return 'float'

def types_of(spec):
    return spec.get('types') or {}

def caller_objects(spec):
    """the mutable objects the caller owns and passes in (func_args / func_kwargs only when the spec has them: otherwise the wrapper's
    own default objects are used, which is the common way of calling)"""
    ty = types_of(spec)
    fx = fx_real(spec['fixed'])
    o = dict(p0=typed(spec.get('p0'), ty.get('p0')),
             lower_bound=typed(spec.get('lower'), ty.get('lower')),
             upper_bound=typed(spec.get('upper'), ty.get('upper')),
             fixed_params=tuple(fx) if (fx is not None and ty.get('fixed') == 'tuple') else fx)
    if spec.get('func_args') is not None: o['func_args'] = list(spec['func_args'])
    if spec.get('func_kwargs') is not None: o['func_kwargs'] = dict(spec['func_kwargs'])
    return o

def frozen(o):
    """a comparable snapshot of a caller-owned object (types included: 0 vs 0.0 vs False vs numpy zeros)"""
    if isinstance(o, dict): return ('dict', tuple((k, frozen(v)) for k, v in sorted(o.items())))
    if isinstance(o, (list, tuple)): return (type(o).__name__, tuple(frozen(v) for v in o))
    if isinstance(o, np.ndarray): return ('ndarray', str(o.dtype), o.shape, tuple(o.ravel().tolist()))
    return (type(o).__name__, repr(o))

def default_objects(f):
    """name -> default value of every parameter of f whose default is a mutable container"""
    out = {}
    for name, prm in inspect.signature(f).parameters.items():
        if isinstance(prm.default, (list, dict, set, np.ndarray)):
            out[name] = prm.default
    return out

# ----------------------------------------------------------------------------------------------- search grids
# one axis of the grid of optimize_grid, as numpy.index_exp spells it: [start, stop, m] = `start:stop:mj` (m points, both ends included) or
# [start, stop, step, 'step'] = `start:stop:step` (stop excluded); in the second form the three numbers keep their type (JSON keeps int and
# float apart), and a grid whose axes are ALL written with integers reaches the objective as INTEGER arrays
def grid_entry(e):
    if len(e) == 4 and e[3] == 'step': return e[0], e[1], e[2], 'step'
    return e[0], e[1], e[2], 'count'

def grid_slices(spec):
    sl = []
    for e in spec['grid']:
        a, b, c, kind = grid_entry(e)
        sl.append(slice(a, b, complex(0, c)) if kind == 'count' else slice(a, b, c))
    return list(sl) if spec.get('grid_container') == 'list' else tuple(sl)

def grid_axis(e):
    """the values the documentation promises for one axis (independent of numpy.mgrid)"""
    a, b, c, kind = grid_entry(e)
    if kind == 'count':
        m = int(c)
        return [float(a)] if m == 1 else [float(a) + i * (float(b) - float(a)) / (m - 1) for i in range(m)]
    n = int(math.ceil((Fraction(b) - Fraction(a)) / Fraction(c)))
    return [float(a + i * c) for i in range(max(n, 0))]

def grid_is_int(spec):
    return all(grid_entry(e)[3] == 'step' and all(isinstance(v, int) and not isinstance(v, bool) for v in e[:3]) for e in spec['grid'])

def grid_kind(spec):
    kinds = set('count' if grid_entry(e)[3] == 'count' else ('int' if all(isinstance(v, int) for v in e[:3]) else 'float_step') for e in spec['grid'])
    return kinds.pop() if len(kinds) == 1 else 'mixed'

def call_wrapper(dadi, pb, spec, owned=None):
    """the call a user would make; returns whatever the wrapper returns"""
    I = dadi.Inference
    w = spec['wrapper']
    f = getattr(I, w)
    params = inspect.signature(f).parameters
    owned = owned if owned is not None else caller_objects(spec)
    lower, upper, fixed = owned['lower_bound'], owned['upper_bound'], owned['fixed_params']
    pts = spec.get('pts')
    kw = dict(multinom=bool(spec['multinom']), fixed_params=fixed)
    for k_, v_ in (spec.get('extra_kw') or {}).items():      # further options of the wrapper (verbose, flush_delay ...), where it has them
        if k_ in params: kw[k_] = v_
    if 'func_args' in owned: kw['func_args'] = owned['func_args']
    if 'func_kwargs' in owned: kw['func_kwargs'] = owned['func_kwargs']
    if w == 'optimize_grid':
        grid = grid_slices(spec)
        kw['full_output'] = bool(spec['full_output'])
        return f(pb.data, pb.model_func, pts, grid, **kw)
    kw.update(lower_bound=lower, upper_bound=upper)
    if w == 'opt':
        import nlopt
        kw.update(log_opt=bool(spec.get('log_opt', False)), algorithm=getattr(nlopt, spec.get('algorithm') or 'LN_BOBYQA'))
        if spec.get('maxiter') is not None: kw['maxeval'] = int(spec['maxiter'])
        return f(owned['p0'], pb.data, pb.model_func, pts, **kw)
    kw['full_output'] = bool(spec['full_output'])
    if 'll_scale' in params and spec.get('ll_scale', 1) != 1: kw['ll_scale'] = spec['ll_scale']
    if spec.get('maxiter') is not None and 'maxiter' in params: kw['maxiter'] = int(spec['maxiter'])
    return f(owned['p0'], pb.data, pb.model_func, pts, **kw)

# A parameter fixed at exactly zero, in every spelling a caller may use (a spec stores the tag, so that it stays JSON)
ZEROS = {'int0': lambda: 0, 'float0': lambda: 0.0, 'negzero': lambda: -0.0, 'false': lambda: False,
         'np0': lambda: np.float64(0.0), 'npint0': lambda: np.int64(0), 'np0d': lambda: np.array(0.0)}
ZERO_TAGS = list(ZEROS)

# A fixed value in another numeric type than a Python float: tag '<kind>:<value>' (integers for the integer kinds)
FX_KINDS = {'int': lambda v: int(float(v)), 'npint': lambda v: np.int64(float(v)), 'npf': lambda v: np.float64(float(v)),
            'np0d': lambda v: np.array(float(v)), 'f32': lambda v: np.float32(float(v))}

def fx_entry_real(f):
    if not isinstance(f, str): return f
    if f in ZEROS: return ZEROS[f]()
    kind, _, val = f.partition(':')
    return FX_KINDS[kind](val)

def fx_entry_num(f):
    if f is None: return None
    if not isinstance(f, str): return float(f)
    if f in ZEROS: return 0.0
    return float(fx_entry_real(f))

def fx_real(fixed):
    """the fixed_params list as the caller passes it"""
    return None if fixed is None else [fx_entry_real(f) for f in fixed]

def fx_num(fixed):
    """the fixed values as numbers (None = free)"""
    return None if fixed is None else [fx_entry_num(f) for f in fixed]

def has_zero_fixed(fixed):
    return fixed is not None and any(f is not None and fx_entry_num(f) == 0.0 for f in fixed)

def start_full(spec):
    fixed = fx_num(spec['fixed'])
    if fixed is None:
        return [float(v) for v in spec['p0']]
    return [float(p) if f is None else float(f) for p, f in zip(spec['p0'], fixed)]

def py_up(free, fixed):
    if fixed is None: return [float(v) for v in free]
    it = iter(free); return [float(next(it)) if f is None else float(f) for f in fixed]

def exc_slug(e):
    """a short, stable classification of the cause (part of the failure key)"""
    m = str(e)
    k = re.search(r"unexpected keyword argument '(\w+)'", m)
    if k: return 'unexpected_keyword_' + k.group(1)
    if 'ufunc' in m: return 'ufunc_on_object_array'
    if 'NoneType' in m: return 'NoneType'
    if m.strip() == 'invalid_argument': return 'invalid_argument'
    return 'other'

# =============================================================================================== one optimiser case
def rel_ok(a, b, rtol):
    a = np.asarray(a, dtype=float); b = np.asarray(b, dtype=float)
    if a.shape != b.shape: return False
    if a.size == 0: return True
    if not (np.all(np.isfinite(a)) and np.all(np.isfinite(b))): return False
    return bool(np.all(np.abs(a - b) <= rtol * np.maximum(np.abs(a), np.abs(b)) + 1e-300))

def ge_tol(v, b):      # b <= v up to the relative slack
    return b <= v + BTOL * max(abs(b), abs(v))

def in_box(v, lower, upper):
    ok = True
    for i, x in enumerate(v):
        if lower is not None and i < len(lower) and lower[i] is not None and not ge_tol(x, lower[i]): ok = False
        if upper is not None and i < len(upper) and upper[i] is not None and not ge_tol(upper[i], x): ok = False
    return ok

def fixed_ok(v, fixed):
    if fixed is None: return True
    return len(v) == len(fixed) and all(f is None or float(x) == float(f) for x, f in zip(v, fixed))

def run_optim(chk, ctx, spec, sample=True, report=None, keep_defaults=False):
    """run one wrapper call: L3 on what really happened, then K against the Lean replay of the trace"""
    dadi = ctx['dadi']
    w = spec['wrapper']; tn = table_name(spec)
    keyw = 'opt:log_opt=%s' % bool(spec.get('log_opt')) if w == 'opt' else w
    pb = Problem(dadi, spec['toy'], spec.get('pts'), spec.get('func_args'), spec.get('func_kwargs'))
    inp = report if report is not None else spec       # what a replay needs (a whole sequence of fits, when the case is one)
    k = len(spec['p0']) if spec.get('p0') is not None else len(spec['fixed'] or spec['grid'])
    nfix = 0 if spec['fixed'] is None else sum(f is not None for f in spec['fixed'])
    bkind = lambda b: 'none' if b is None else ('partial' if any(v is None for v in b) else ('neg' if any(v < 0 for v in b) else ('zero' if any(v == 0 for v in b) else 'pos')))
    chk.l3((tn, k, nfix > 0, bkind(spec.get('lower')), bkind(spec.get('upper')), bool(spec['multinom']), spec['toy']['kind'],
            spec.get('ll_scale', 1) != 1, spec.get('algorithm'), bool(spec.get('full_output', True)), spec.get('maxiter') is None,
            has_zero_fixed(spec['fixed'])))
    if has_zero_fixed(spec['fixed']): chk.stat('optimiser_runs_with_a_parameter_fixed_at_zero')
    ty = types_of(spec)
    spelled = tuple(sorted((n, ('int' if 'int' in f else f)) for n, f in ty.items())) + tuple(sorted(set(
        f.partition(':')[0] for f in (spec['fixed'] or []) if isinstance(f, str) and f not in ZEROS)))
    chk.l3(('spelling', tn, spelled, bool(spec.get('tight')), grid_kind(spec) if w == 'optimize_grid' else None, nfix > 0))
    for n, f in ty.items(): chk.stat('spelled:%s:%s' % (n, f))
    if spec.get('tight'): chk.stat('tight_boxes')
    if w == 'optimize_grid': chk.stat('grid_written_as:' + grid_kind(spec))
    for s in ('wrapper:' + tn, 'params:%d' % k, 'fixed:%d' % nfix, 'lower:' + bkind(spec.get('lower')), 'upper:' + bkind(spec.get('upper')),
              'multinom:%s' % bool(spec['multinom']), 'toy:' + spec['toy']['kind']):
        chk.stat(s)
    if sample and tn not in ctx.setdefault('_sampled', set()):
        ctx['_sampled'].add(tn); chk.sample(dict(spec), cap=12)
    compat = bool(spec.get('compat'))
    rec = []
    exc = None
    owned = caller_objects(spec)
    before = {n: frozen(o) for n, o in owned.items()}
    fobjs = watched_functions(dadi, w)
    with recording(dadi, rec, compat=compat):
        try:
            with np.errstate(all='ignore'):
                ret = call_wrapper(dadi, pb, spec, owned)
        except Exception as e:
            exc = e
    calls = [c.tolist() for c in pb.calls]
    # ---- no state may leak out of a call: the caller's objects are untouched, the functions' default containers still hold their
    #      initial value (they are shared by every later call in the process)
    for n, o in owned.items():
        if frozen(o) != before[n]:
            chk.fail('%s:mutates_argument:%s' % (keyw, n), '%s(%s) changed the caller\'s %s from %r to %r' % (w, describe(spec), n, before[n], frozen(o)), inp)
    initial = ctx.setdefault('_defaults0', {})
    for fname, fobj in fobjs.items():
        for n, o in default_objects(fobj).items():
            key0 = (fname, n)
            if key0 not in initial: initial[key0] = (frozen(INITIAL_DEFAULTS.get(key0, o)), INITIAL_DEFAULTS.get(key0))
            if frozen(o) != initial[key0][0]:
                chk.fail('%s:default_argument_mutated:%s.%s' % (keyw, fname, n),
                         'after %s(%s) the default value of `%s` of %s is %r (a shared object: every later call in the process sees it)'
                         % (w, describe(spec), n, fname, o), inp)
                if not keep_defaults: restore_default(o, initial[key0][1])
    # ---- the model function must be called with THIS call's grid / extra arguments
    want_in = (spec.get('pts'), list(spec.get('func_args') or []), dict(spec.get('func_kwargs') or {}))
    wrong = [i for i in pb.inputs if not (same_pts(i[0], want_in[0]) and i[1] == want_in[1] and i[2] == want_in[2])]
    if wrong:
        chk.fail('%s:model_inputs' % keyw, '%s(%s): %d of %d model evaluations did not get this call\'s pts/func_args/func_kwargs %r, first got %r'
                 % (w, describe(spec), len(wrong), len(pb.inputs), want_in, wrong[0]), inp)
    if exc is not None and (isinstance(exc, EvalBudget) or len(pb.calls) >= EVAL_BUDGET):   # nlopt re-raises it as SystemError
        chk.fail('%s:no_termination' % keyw, '%s(%s) was still evaluating the model after %d evaluations (tolerances and iteration limits at their '
                 'documented defaults unless given)' % (w, describe(spec), EVAL_BUDGET), inp)
        chk.stat('stopped_after_budget:' + tn)
        return dict(raised=exc, rec=rec)
    if exc is not None:
        chk.fail('%s:raises:%s:%s' % (keyw, type(exc).__name__, exc_slug(exc)),
                 '%s(%s) raises %s: %s' % (w, describe(spec), type(exc).__name__, str(exc)[:200]), inp)
        chk.stat('raised:' + tn)
        return dict(raised=exc, rec=rec)
    # ---------------------------------------------------------------- what came back
    full_output = True if w == 'opt' else bool(spec.get('full_output', True))
    if full_output:
        xret = np.asarray(ret[0], dtype=float).ravel(); fret = float(ret[1])
    else:
        xret = np.asarray(ret, dtype=float).ravel(); fret = None
    lower, upper, fixed = spec.get('lower'), spec.get('upper'), fx_num(spec['fixed'])
    multinom = bool(spec['multinom'])
    scale = float(spec.get('ll_scale', 1)) if (w != 'opt' and 'll_scale' in inspect.signature(getattr(dadi.Inference, w)).parameters) else 1.0
    verdict = []
    def bad(clause, what):
        verdict.append(clause)
        chk.fail('%s:%s' % (keyw, clause), '%s(%s): %s' % (w, describe(spec), what), inp)
    # (1) first evaluation is the user's start
    if w != 'optimize_grid':
        s0 = start_full(spec)
        if not calls or not rel_ok(calls[0], s0, 1e-12):
            bad('first_eval_is_start', 'the first model evaluation is at %r, the starting point is %r' % (calls[0] if calls else None, s0))
    # (2) every evaluation inside the bounds, with the fixed values
    if w == 'optimize_grid':
        rng_lo = py_up([e[0] for e in spec['grid']], fixed); rng_hi = py_up([e[1] for e in spec['grid']], fixed)
        outb = [c for c in calls if not in_box(c, rng_lo, rng_hi)]
    else:
        outb = [c for c in calls if not in_box(c, lower, upper)]
    if outb:
        bad('evals_in_bounds', '%d of %d model evaluations outside the bounds, first at %r (lower %r, upper %r)' % (len(outb), len(calls), outb[0], lower, upper))
    nf = [c for c in calls if not fixed_ok(c, fixed)]
    if nf:
        bad('evals_fixed', '%d model evaluations do not carry the fixed values %r, first %r' % (len(nf), fixed, nf[0]))
    # (3) the returned vector
    if not np.all(np.isfinite(xret)) or len(xret) != k:
        bad('no_result', 'returned parameters %r' % xret.tolist())
    else:
        if not fixed_ok(xret.tolist(), fixed):
            bad('result_fixed', 'returned %r, fixed_params %r' % (xret.tolist(), fixed))
        if w != 'optimize_grid' and not in_box(xret.tolist(), lower, upper):
            bad('result_in_bounds', 'returned %r outside lower %r / upper %r' % (xret.tolist(), lower, upper))
        llr = pb.ll(xret, multinom)
        # hypothesis of the likelihood clauses: the optimiser answered with one of its own (query, value) pairs.  scipy's L-BFGS-B / SLSQP
        # occasionally answer with a point they never evaluated; that is the optimiser's doing, reported as a statistic, and the
        # two likelihood clauses are not claimed for such a run.
        ans_eval = answer_evaluated(rec, spec)
        if not ans_eval: chk.stat('optimizer_answer_not_an_evaluated_pair:' + tn)
        if not ans_eval and not (fret is not None and not math.isfinite(fret)):
            pass
        elif fret is not None and not math.isfinite(fret):
            bad('reported_not_finite', 'reported optimum %r for the returned parameters %r (their %s is %r)'
                % (fret, xret.tolist(), 'll' if w == 'opt' else '-ll/ll_scale', llr if w == 'opt' else -llr / scale))
        elif not math.isfinite(llr):
            chk.stat('degenerate_toy_likelihood_skipped')      # cannot happen with the clipped toys; kept as a guard
        elif fret is not None:
            expect = llr if w == 'opt' else -llr / scale
            if not (math.isfinite(fret) and abs(expect - fret) <= VTOL * max(abs(expect), abs(fret))):
                bad('ll_result_is_reported', 'reported optimum %r, but the returned parameters %r have %s = %r'
                    % (fret, xret.tolist(), 'll' if w == 'opt' else '-ll/ll_scale', expect))
        if w == 'opt' and math.isfinite(llr) and ans_eval:
            ll0 = pb.ll(start_full(spec), multinom)
            if not (llr >= ll0 - VTOL * abs(llr)):
                bad('no_worse_than_start', 'll(returned) = %r < ll(start) = %r' % (llr, ll0))
        if w == 'optimize_grid' and calls and math.isfinite(llr):
            best = max(pb.ll(c, multinom) for c in calls)
            if not (llr >= best - VTOL * abs(best)):
                bad('grid_best', 'a grid point with ll %r was evaluated, the returned point has %r' % (best, llr))
    if w == 'optimize_grid':
        # the points searched are the documented ones: the product of the axes, with the fixed values folded in, and the best of THOSE comes back
        want = sorted(set(tuple(py_up(list(pt), fixed)) for pt in itertools.product(*[grid_axis(e) for e in spec['grid']])))
        got = sorted(set(tuple(c) for c in calls))
        if len(want) != len(got) or not all(rel_ok(a, b, 1e-12) or np.allclose(a, b, rtol=1e-12, atol=1e-13) for a, b in zip(want, got)):
            miss = next((a for a, b in zip(want, got) if not np.allclose(a, b, rtol=1e-12, atol=1e-13)), want[:1])
            bad('grid_points', 'the model was evaluated at %d distinct points (first %r), the grid %r with fixed_params %r has %d (e.g. %r)'
                % (len(got), got[:1], spec['grid'], fixed, len(want), miss))
        elif np.all(np.isfinite(xret)) and len(xret) == k:
            lls = [pb.ll(list(c), multinom) for c in want]
            if all(math.isfinite(v) for v in lls):
                top = max(lls)
                if not (pb.ll(xret, multinom) >= top - VTOL * abs(top)):
                    bad('grid_best', 'the best grid point %r has ll %r, the returned point %r has %r' % (list(want[int(np.argmax(lls))]), top, xret.tolist(), pb.ll(xret, multinom)))
    chk.stat('evaluations_recorded', len(calls))
    # ---------------------------------------------------------------- K: Lean replay of the trace
    k_trace(chk, ctx, spec, pb, rec, calls, xret, fret, verdict, scale)
    if w == 'optimize_grid':
        k_grid(chk, ctx, spec, pb, rec, calls, xret, fret)
    return dict(raised=None, rec=rec, verdict=verdict, xret=xret, fret=fret, calls=calls)

def raw_answer(b, spec):
    out = b['out']
    if b['optimizer'] == 'scipy.optimize.brute':
        return (np.asarray(out[0] if spec['full_output'] else out, dtype=float).ravel(), float(out[1]) if spec['full_output'] else None)
    return np.asarray(out[0], dtype=float).ravel(), (None if out[1] is None else float(out[1]))

def answer_evaluated(rec, spec):
    if len(rec) != 1 or rec[0]['out'] is None: return False
    b = rec[0]
    x, f = raw_answer(b, spec)
    if f is None:        # grid search without full output: brute returns the best grid point
        return any(np.array_equal(q, x) for q in b['queries'])
    return any(np.array_equal(q, x) and abs(v - f) <= VTOL * max(abs(v), abs(f)) for q, v in zip(b['queries'], b['values']))

INITIAL_DEFAULTS = {}       # (function, parameter) -> pristine copy of a mutable default, taken when the module is first seen

def watched_functions(dadi, w):
    I = dadi.Inference
    fs = {'Inference.' + w: getattr(I, w), 'Inference._object_func': I._object_func}
    if w == 'opt': fs['NLopt_mod.opt'] = dadi.NLopt_mod.opt
    import copy
    for fname, f in fs.items():
        for n, o in default_objects(f).items():
            INITIAL_DEFAULTS.setdefault((fname, n), copy.deepcopy(o) if len(o) == 0 else type(o)())   # documented defaults are all empty
    return fs

def restore_default(o, initial):
    """put a polluted default container back (in place), so that the NEXT case starts from a clean process state and is replayable alone"""
    try:
        o.clear()
        if isinstance(o, dict): o.update(initial or {})
        elif isinstance(o, list): o.extend(initial or [])
    except Exception:
        pass

def same_pts(a, b):
    if isinstance(a, str) or isinstance(b, str): return a == b
    if a is None or b is None: return a is b
    return np.array_equal(np.asarray(a), np.asarray(b))

def describe(spec):
    d = {k: spec.get(k) for k in ('p0', 'pts', 'lower', 'upper', 'fixed', 'types', 'multinom', 'll_scale', 'maxiter', 'log_opt', 'algorithm', 'full_output', 'grid', 'func_args', 'func_kwargs')
         if spec.get(k) is not None}
    return ', '.join('%s=%r' % kv for kv in d.items())

# ----------------------------------------------------------------------------------------------- wire format
def tok_vec(v):
    return fmt_list([float(x) for x in v])

def tok_optvec(v):
    v = list(v)
    return ','.join('n' if x is None else rat(float(x)) for x in v) if v else '-'

def tok_bounds(b):
    return 'N' if b is None else tok_optvec(b)

def tok_vecs(vs):
    vs = list(vs)
    return ';'.join(tok_vec(v) for v in vs) if vs else '='

def parse_vecs(s):
    return [] if s == '=' else [[float(x) for x in parse_list(t)] for t in s.split(';')]

def parse_optvec(s):
    if s == 'N': return None
    if s == '-': return []
    return [None if t == 'n' else (t if t in ('nan', 'winf') else float(Fraction(t))) for t in s.split(',')]

def tok_tab(pairs):
    pairs = [(x, y) for x, y in pairs.items() if math.isfinite(x) and math.isfinite(y)]
    if not pairs: return '-;-'
    return ','.join(rat(x) for x, _ in pairs) + ';' + ','.join(rat(y) for _, y in pairs)

def norm_bound_entry(x, lower):
    """what the optimiser was given -> None (no bound) | float | 'nan'"""
    if x is None: return None
    x = float(x)
    if math.isnan(x): return 'nan'
    if math.isinf(x): return None if (x < 0) == lower else 'winf'
    return x

def k_trace(chk, ctx, spec, pb, rec, calls, xret, fret, verdict, scale):
    driver = ctx['driver']
    if driver is None or not driver.ok(): return
    tn = table_name(spec); op = 'trace:' + tn
    table = ctx.get('_table') or read_table(chk, ctx)
    if tn not in table:
        chk.stat('not_in_model_table:' + tn); return
    if len(rec) != 1:
        chk.k_bad(op, spec, 'optimiser called %d times' % len(rec), 'exactly one call', None); return
    b = rec[0]
    out = b['out']
    xraw, fraw = raw_answer(b, spec)
    if fraw is None:      # grid search without full output: the value brute found at the point it returns
        fraw = next((v for q, v in zip(b['queries'], b['values']) if np.array_equal(q, xraw)), 0.0)
    if not (np.all(np.isfinite(xraw)) and math.isfinite(fraw)) or not all(np.all(np.isfinite(q)) for q in b['queries']) \
       or not all(math.isfinite(v) for v in b['values']):
        chk.k_skipped += 1; chk.stat('trace_nonfinite_skipped'); return
    # function tables: exactly the floats numpy computes for these scalars
    p0 = spec.get('p0') or py_up([e[0] for e in spec['grid']], fx_num(spec['fixed']))
    expt, logt = {}, {}
    with np.errstate(all='ignore'):
        for v in list(p0) + [x for bb in (spec.get('lower'), spec.get('upper')) if bb for x in bb if x is not None]:
            if v is not None and v > 0:
                logt[float(v)] = float(np.log(np.float64(v)))
        if is_log(spec):
            for q in list(b['queries']) + [xraw] + [np.array(list(logt.values()))]:
                for x in np.asarray(q, dtype=float).ravel():
                    expt[float(x)] = float(np.exp(np.float64(x)))
    if not all(math.isfinite(v) for v in expt.values()):
        chk.k_skipped += 1; chk.stat('trace_exp_overflow_skipped'); return      # the optimiser stepped to exp(x) = inf
    head = '%s %s %s %s %s %s %s %s %s' % (tn, tok_vec(p0), tok_bounds(spec.get('lower')), tok_bounds(spec.get('upper')),
                                           tok_bounds(fx_num(spec['fixed'])), rat(scale), tok_vecs(b['queries']), tok_vec(xraw), rat(fraw))
    qkind = 'int' if b.get('kinds') == {'int'} else 'float'            # element type of the optimiser's queries, and of its answer
    try:
        akind = np_kind(out if (b['optimizer'] == 'scipy.optimize.brute' and not spec['full_output']) else out[0])
    except Exception:
        akind = 'float'
    if qkind == 'int': chk.stat('traces_with_integer_queries')
    pkind = np_kind(typed(spec['p0'], types_of(spec).get('p0'))) if spec.get('p0') is not None else 'float'
    tail = '%s %s %s %s %s %s %s' % (tok_tab(expt), tok_tab(logt), rat(Fraction(1, 10 ** 9)), rat(Fraction(1, 10 ** 9)), pkind, qkind, akind)
    ans = driver.ask('c12.points %s = - %s' % (head, tail))
    if not ans.startswith('ok '):
        chk.k_bad(op, spec, 'ran without error', ans, None); return
    pts = parse_vecs(ans[3:])
    uniq = []
    for p in pts:
        if p not in uniq: uniq.append(p)
    lls = []
    for p in uniq:
        v = pb.ll(p, bool(spec['multinom']))
        lls.append('nan' if math.isnan(v) else rat(v) if math.isfinite(v) else 'nan')
    ans = driver.ask('c12.trace %s %s %s %s' % (head, tok_vecs(uniq), ','.join(lls) if lls else '-', tail))
    if not ans.startswith('ok '):
        chk.k_bad(op, spec, 'ran without error', ans, None); return
    m_start, m_olo, m_oup, m_vals, m_evals, m_result, m_rep, m_failed, m_anse = ans[3:].split(' ')
    probs = []
    # start handed to the optimiser
    ms = None if m_start == 'N' else [float(x) for x in parse_list(m_start)]
    if (ms is None) != (b['x0'] is None) or (ms is not None and not rel_ok(ms, b['x0'], 1e-12)):
        probs.append('start: implementation %r, model %r' % (None if b['x0'] is None else b['x0'].tolist(), ms))
    # bounds handed to the optimiser
    if b['optimizer'] == 'nlopt.opt':
        ilo = None if b['lower'] is None else [norm_bound_entry(x, True) for x in b['lower']]
        iup = None if b['upper'] is None else [norm_bound_entry(x, False) for x in b['upper']]
    elif b.get('bounds') is not None:
        bl = list(b['bounds'])
        ilo = [norm_bound_entry(p[0], True) for p in bl]; iup = [norm_bound_entry(p[1], False) for p in bl]
    else:
        ilo = iup = None
    for nm, impl, mod in (('lower', ilo, parse_optvec(m_olo)), ('upper', iup, parse_optvec(m_oup))):
        same = (impl is None) == (mod is None)
        if same and impl is not None:
            same = len(impl) == len(mod) and all((x is None and y is None) or (isinstance(x, str) and x == y) or (isinstance(x, float) and isinstance(y, float) and rel_ok(x, y, 1e-12))
                                                 for x, y in zip(impl, mod))
        if not same:
            probs.append('optimiser %s bounds: implementation %r, model %r' % (nm, impl, mod))
    # which queries reach the model function, and where
    me = parse_vecs(m_evals)
    if len(me) != len(calls) or not all(rel_ok(x, y, 1e-12) for x, y in zip(me, calls)):
        probs.append('model evaluations: implementation %d (first %r), model %d (first %r)' % (len(calls), calls[:1], len(me), me[:1]))
    mv = [float(x) for x in parse_list(m_vals)]
    if len(mv) != len(b['values']) or not all(abs(x - y) <= 1e-9 * max(abs(x), abs(y), 1e-300) for x, y in zip(mv, b['values'])):
        j = next((i for i, (x, y) in enumerate(zip(mv, b['values'])) if not abs(x - y) <= 1e-9 * max(abs(x), abs(y), 1e-300)), None)
        probs.append('objective values differ (query %r: implementation %r, model %r)' % (j, None if j is None else b['values'][j], None if j is None else mv[j]))
    mr = None if m_result == 'N' else [float(x) for x in parse_list(m_result)]
    if mr is None or not rel_ok(mr, xret, 1e-12):
        probs.append('returned vector: implementation %r, model %r' % (xret.tolist(), mr))
    if fret is not None:
        mrep = None if m_rep == 'N' else float(Fraction(m_rep))
        if mrep is None or not (mrep == fret or abs(mrep - fret) <= 1e-15 * abs(fret)):
            probs.append('reported optimum: implementation %r, model %r' % (fret, mrep))
    if probs:
        chk.k_bad(op, spec, '; '.join(probs)[:1500], ans[:300], None)
    else:
        chk.k_ok(op)
    # the clauses re-derived by checkTrace must be the ones the direct oracle found
    mf = set() if m_failed == '-' else set(m_failed.split(','))
    if fret is None: mf.discard('ll_result_is_reported')
    if (m_anse == '1') != answer_evaluated(rec, spec):
        chk.k_bad('clauses:' + tn, spec, 'answer evaluated: %r' % answer_evaluated(rec, spec), 'answer evaluated: ' + m_anse, None); return
    lf = set(verdict) - {'grid_best', 'reported_not_finite', 'grid_points'}
    if mf == lf: chk.k_ok('clauses:' + tn)
    else: chk.k_bad('clauses:' + tn, spec, sorted(lf), sorted(mf), None)

def tok_slices(spec):
    toks = []
    for e in spec['grid']:
        a, b, c, kind = grid_entry(e)
        if kind == 'count':
            toks.append('c:%s:%s:%d' % (rat(float(a)), rat(float(b)), int(c)))
        else:
            lit = all(isinstance(v, int) and not isinstance(v, bool) for v in e[:3])
            toks.append('s:%s:%s:%s:%d' % (rat(float(a)), rat(float(b)), rat(float(c)), 1 if lit else 0))
    return ';'.join(toks)

def k_grid(chk, ctx, spec, pb, rec, calls, xret, fret):
    """K for the grid search AS A WHOLE: nothing recorded is handed to the model but the caller's slices and fixed_params; the Lean model
    (`runGridT`: generated optimize_grid row around the enumeration `bruteOpt (gridPoints slices)`) must reproduce the evaluation points IN
    ORDER, every objective value, the element type of the queries, brute's answer, the returned vector and the reported optimum"""
    driver = ctx['driver']
    if driver is None or not driver.ok() or len(rec) != 1 or rec[0]['out'] is None: return
    op = 'grid:optimize_grid'
    b = rec[0]
    fixed = fx_num(spec['fixed'])
    head = 'c12.grid optimize_grid %s %s' % (tok_slices(spec), tok_bounds(fixed))
    ans = driver.ask(head + ' = - 1')
    if not ans.startswith('ok '):
        chk.k_bad(op, spec, 'ran (%d evaluations)' % len(calls), ans, None); return
    mkind, mpts = ans[3:].split(' ')
    uniq = []                                   # the model's points as the exact rationals it printed (they are the keys of the likelihood table)
    for t in ([] if mpts == '=' else mpts.split(';')):
        if t not in uniq: uniq.append(t)
    lls = [pb.ll([float(x) for x in parse_list(t)], bool(spec['multinom'])) for t in uniq]
    if not all(math.isfinite(v) for v in lls):
        chk.k_skipped += 1; chk.stat('grid_nonfinite_likelihood_skipped'); return
    ans = driver.ask('%s %s %s 0' % (head, ';'.join(uniq) if uniq else '=', ','.join(rat(v) for v in lls) if lls else '-'))
    if not ans.startswith('ok '):
        chk.k_bad(op, spec, 'ran (%d evaluations)' % len(calls), ans, None); return
    mkind, mpts, mvals, mres, mrep, mxmin = ans[3:].split(' ')
    probs = []
    qkind = 'int' if b.get('kinds') == {'int'} else 'float'
    if qkind != mkind: probs.append('element type of the queries: implementation %s, model %s' % (qkind, mkind))
    me = parse_vecs(mpts)
    if len(me) != len(calls) or not all(rel_ok(x, y, 1e-12) or np.allclose(x, y, rtol=1e-12, atol=1e-13) for x, y in zip(me, calls)):
        j = next((i for i, (x, y) in enumerate(zip(me, calls)) if not np.allclose(x, y, rtol=1e-12, atol=1e-13)), None)
        probs.append('evaluation points (in order): implementation %d, model %d; first difference at %r: %r vs %r'
                     % (len(calls), len(me), j, None if j is None else calls[j], None if j is None else me[j]))
    mv = [float(x) for x in parse_list(mvals)]
    if len(mv) != len(b['values']) or not all(abs(x - y) <= 1e-9 * max(abs(x), abs(y), 1e-300) for x, y in zip(mv, b['values'])):
        probs.append('objective values (in order) differ')
    if probs:
        chk.k_bad(op, spec, '; '.join(probs)[:1500], ans[:300], None); return
    # the answer: decided on the model side when two grid points are (nearly) tied for the minimum (round-off would choose)
    srt = sorted(mv)
    if len(srt) > 1 and abs(srt[1] - srt[0]) <= 1e-9 * max(abs(srt[0]), abs(srt[1]), 1e-300):
        chk.k_skipped += 1; chk.stat('grid_near_tie_skipped'); return
    xraw, fraw = raw_answer(b, spec)
    mx = None if mxmin == 'N' else [float(x) for x in parse_list(mxmin)]
    if mx is None or not (rel_ok(mx, xraw, 1e-12) or np.allclose(mx, xraw, rtol=1e-12, atol=1e-13)):
        probs.append('brute answers %r, the enumeration %r' % (xraw.tolist(), mx))
    mr = None if mres == 'N' else [float(x) for x in parse_list(mres)]
    if mr is None or not (rel_ok(mr, xret, 1e-12) or np.allclose(mr, xret, rtol=1e-12, atol=1e-13)):
        probs.append('returned vector: implementation %r, model %r' % (xret.tolist(), mr))
    if fret is not None:
        mrep = None if mrep == 'N' else float(Fraction(mrep))
        if mrep is None or not abs(mrep - fret) <= 1e-9 * max(abs(fret), abs(mrep), 1e-300):
            probs.append('reported optimum: implementation %r, model %r' % (fret, mrep))
    if probs: chk.k_bad(op, spec, '; '.join(probs)[:1500], ans[:300], None)
    else: chk.k_ok(op)

def read_table(chk, ctx):
    driver = ctx['driver']
    out = driver.ask('c12.table')
    t = {}
    if out.startswith('ok '):
        for ent in out[3:].split(';'):
            f = ent.split('|')
            t[f[0]] = dict(optimizer=f[1], objLog=f[2] == '1', negated=f[3] == '1', maximize=f[4] == '1', boundsToObj=f[5] == '1',
                           hasStart=f[6] == '1', optBounded=f[7] == '1', llScale=f[8] == '1')
    ctx['_table'] = t
    chk.notes.append('wrapper table read from the source: ' + out[:1500])
    chk.notes.append('shape flags (objectFunc objectFuncLog project perturbNoneIsInf perturbMutatesBounds perturbDraw optReexported sentinel skipped): '
                     + driver.ask('c12.flags'))
    return t

# =============================================================================================== generators
def gen_pts_seq(rng, m):
    """m different values of `pts` (an int, a list of grid sizes as dadi's extrapolating models take, occasionally None)"""
    out = []
    while len(out) < m:
        r = rng.random()
        v = int(rng.integers(10, 120)) if r < 0.75 else ([int(x) for x in sorted(rng.integers(10, 120, size=3))] if r < 0.93 else None)
        if not any(same_pts(v, o) for o in out): out.append(v)
    return out

def gen_extras(rng):
    """extra positional / keyword arguments for the model function; absent = the wrapper's own (shared, mutable) default is used"""
    d = {}
    if rng.random() < 0.3: d['func_args'] = [float(rng.choice([0.0, 0.3, 1.0]))]
    r = rng.random()
    if r < 0.2: d['func_kwargs'] = {'tilt': float(rng.choice([0.2, 0.7]))}
    elif r < 0.35: d['func_kwargs'] = {}
    return d

def gen_seq(rng, wrapper, tier, m=2, **force):
    """consecutive fits through ONE wrapper in one process, every input different: pts, data/toy, p0, bounds, fixed_params, multinom, extras"""
    pts = gen_pts_seq(rng, m)
    if m >= 2 and pts[0] is None: pts[0], pts[1] = pts[1], pts[0]
    fits = []
    for j in range(m):
        f = gen_grid_spec(rng, tier) if wrapper == 'optimize_grid' else gen_spec(rng, wrapper, tier, **force)
        f['pts'] = pts[j]
        if j > 0:
            f['multinom'] = not fits[0]['multinom']
            for key in ('func_args', 'func_kwargs'):      # the first fit may have extras, the later ones use the defaults, and vice versa
                if key in fits[0] and rng.random() < 0.7: f.pop(key, None)
        fits.append(f)
    return dict(case='seq', wrapper=wrapper, fits=fits)

def gen_toy(rng, k, positive):
    kind = 'bump' if (positive and rng.random() < 0.6) else ('exp2d' if (rng.random() < 0.2) else 'exp')
    n = int(rng.integers(6, 9)) if kind == 'exp2d' else int(rng.integers(8, 21))
    if kind == 'bump' or positive:
        true = [round(float(rng.uniform(0.3, 3.0)), 3) for _ in range(k)]
    else:
        true = [round(float(rng.uniform(-2.5, 2.5)), 3) for _ in range(k)]
    return dict(kind=kind, n=n, theta=round(float(rng.uniform(0.5, 5.0)), 3), true=true, noise=float(rng.choice([0.0, 0.05, 0.1])),
                noise_seed=int(rng.integers(1 << 30)), depth=float(rng.choice([20.0, 100.0, 1000.0])))

def gen_spec(rng, wrapper, tier, **force):
    """a call with the start inside the bounds; log optimisers get positive parameters"""
    log_opt = bool(force.get('log_opt', rng.random() < 0.5)) if wrapper == 'opt' else False
    positive = ('_log' in wrapper) or log_opt or rng.random() < 0.4
    k = int(force.get('k', rng.integers(1, 5)))
    toy = gen_toy(rng, k, positive)
    true = toy['true']
    if positive:
        lo = [round(t / float(rng.uniform(2.5, 8)), 4) for t in true]; hi = [round(t * float(rng.uniform(2.5, 8)), 4) for t in true]
        if rng.random() < 0.2: lo = [0.0 if rng.random() < 0.6 else v for v in lo]
    else:
        lo = [round(t - float(rng.uniform(1.5, 4)), 4) for t in true]; hi = [round(t + float(rng.uniform(1.5, 4)), 4) for t in true]
    # TIGHT boxes: bounds that are ACTIVE (the optimum lies beyond the upper / below the lower bound, so the optimiser ends on the bound) or a
    # narrow box around the optimum, with bounds below 1, around 1 and above e: there the natural-space box [lb, ub] and the log-space box
    # [log lb, log ub] are visibly different sets, and anything done to a result / a query in the wrong one of the two spaces shows
    tight = bool(force.get('tight', rng.random() < 0.2))
    U = lambda a, b: float(rng.uniform(a, b))
    if tight:
        for i, t in enumerate(true):
            r = rng.random()
            if positive:
                if r < 0.4: hi[i] = round(t * U(0.55, 0.95), 5); lo[i] = round(hi[i] / U(1.5, 6), 5)
                elif r < 0.65: lo[i] = round(t * U(1.05, 1.8), 5); hi[i] = round(lo[i] * U(1.5, 6), 5)
                elif r < 0.85: lo[i] = round(t * U(0.9, 0.99), 5); hi[i] = round(t * U(1.01, 1.1), 5)
            else:
                if r < 0.4: hi[i] = round(t - U(0.05, 0.6), 5); lo[i] = round(hi[i] - U(0.5, 3), 5)
                elif r < 0.65: lo[i] = round(t + U(0.05, 0.6), 5); hi[i] = round(lo[i] + U(0.5, 3), 5)
                elif r < 0.85: lo[i] = round(t - U(0.01, 0.1), 5); hi[i] = round(t + U(0.01, 0.1), 5)
    nd = 6 if tight else 4
    p0 = [round(float(rng.uniform(l + 0.15 * (h - l), h - 0.15 * (h - l))), nd) for l, h in zip(lo, hi)]
    if positive: p0 = [max(v, 0.05) if l < 0.05 else v for v, l in zip(p0, lo)]
    # fixed subset (never all); a fixed value lies inside its box (the documentation: "optimization will fail" otherwise)
    fixed = None
    if k >= 2 and rng.random() < force.get('pfixed', 0.5):
        nfx = int(rng.integers(1, k))
        idx = set(int(i) for i in rng.choice(k, size=nfx, replace=False))
        fixed = []
        for i in range(k):
            if i not in idx: fixed.append(None)
            elif rng.random() < 0.5 and lo[i] <= true[i] <= hi[i]: fixed.append(true[i])
            else: fixed.append(round(float(rng.uniform(lo[i] + 0.2 * (hi[i] - lo[i]), hi[i] - 0.2 * (hi[i] - lo[i]))), nd))
        if positive: fixed = [None if f is None else (max(f, 0.05) if lo[i] < 0.05 else f) for i, f in enumerate(fixed)]
    elif k == 1 and rng.random() < 0.15:
        fixed = [None]
    # parameters fixed at exactly ZERO (misidentification, migration, inbreeding ... switched off), in any spelling of zero
    if force.get('zero_at') is not None:
        fixed = [None] * k if fixed is None else fixed
        tags = force.get('zero_tags') or [str(t) for t in rng.permutation(ZERO_TAGS)]
        for j, i in enumerate(force['zero_at']): fixed[i] = tags[j % len(tags)]
        for i in force.get('fix_also', ()):
            fixed[i] = (max(true[i], 0.05) if positive else true[i]) if lo[i] <= true[i] <= hi[i] else round(0.5 * (lo[i] + hi[i]), 6)
    elif fixed is not None and any(f is not None for f in fixed) and rng.random() < 0.3:
        cands = [i for i, f in enumerate(fixed) if f is not None]
        fixed[int(rng.choice(cands))] = str(rng.choice(ZERO_TAGS))
    for i, f in enumerate(fixed or []):
        if isinstance(f, str):                       # the box of that entry must contain 0 (the bounds apply to fixed values too)
            lo[i] = 0.0 if positive else min(lo[i], -0.5)
            hi[i] = max(hi[i], 0.5)
    # HOW the caller spells the vectors: integer-valued starts in integer types (lists / tuples / arrays of int, numpy integers), tuples,
    # arrays and numpy scalars of floats, integer-typed bounds, fixed_params as a tuple, fixed values as numpy scalars / Python ints
    types = None
    mode = force.get('types')
    if mode is None:
        r = rng.random()
        mode = 'int' if r < 0.15 else ('float' if r < 0.35 else 'plain')
    if mode != 'plain':
        types = {}
        if mode == 'int':
            # an integer-valued start strictly inside the box (the box is widened around the integer where it holds none)
            for i in range(k):
                n = max(1, int(round(true[i]))) if positive else int(round(true[i]))
                cands = [m for m in range(int(math.floor(lo[i])) + 1, int(math.ceil(hi[i]))) if lo[i] < m < hi[i] and (m >= 1 or not positive)]
                if cands: n = int(rng.choice(cands))
                else: lo[i] = round(min(lo[i], n - U(0.3, 0.9)), 4); hi[i] = round(max(hi[i], n + U(0.3, 0.9)), 4)
                p0[i] = float(n)
            types['p0'] = str(rng.choice(INT_FLAVOURS))
            if rng.random() < 0.5:                   # integer bounds in integer types as well (floor / ceil only widen the box)
                lo = [float(math.floor(v)) for v in lo]; hi = [float(math.ceil(v)) for v in hi]
                types['lower'] = str(rng.choice(INT_FLAVOURS)); types['upper'] = str(rng.choice(INT_FLAVOURS))
        else:
            types['p0'] = str(rng.choice(FLOAT_FLAVOURS[1:]))
        for b_ in ('lower', 'upper'):
            if b_ not in types and rng.random() < 0.6: types[b_] = str(rng.choice(FLOAT_FLAVOURS[1:]))
        if fixed is not None:
            if rng.random() < 0.3: types['fixed'] = 'tuple'
            for i, f in enumerate(fixed):
                if f is None or isinstance(f, str): continue
                r = rng.random()
                ints_in = [m for m in range(int(math.floor(lo[i])) + 1, int(math.ceil(hi[i]))) if lo[i] < m < hi[i] and (m >= 1 or not positive)]
                if r < 0.25 and ints_in: fixed[i] = '%s:%d' % (str(rng.choice(['int', 'npint'])), int(rng.choice(ints_in)))
                elif r < 0.5: fixed[i] = 'npf:%r' % float(f)
    # shape of the bounds
    r = rng.random()
    pb_ = force.get('bounds')
    if pb_ is None:
        pb_ = 'full' if r < 0.55 else ('partial' if r < 0.75 else ('lower' if r < 0.83 else ('upper' if r < 0.9 else 'none')))
    lower, upper = list(lo), list(hi)
    if pb_ == 'partial':
        lower = [None if rng.random() < 0.4 else v for v in lower]; upper = [None if rng.random() < 0.4 else v for v in upper]
        if all(v is not None for v in lower + upper): lower[int(rng.integers(k))] = None
    elif pb_ == 'lower': upper = None
    elif pb_ == 'upper': lower = None
    elif pb_ == 'none': lower = upper = None
    spec = dict(case='optim', wrapper=wrapper, toy=toy, p0=p0, lower=lower, upper=upper, fixed=fixed,
                multinom=bool(force.get('multinom', rng.random() < 0.6)), full_output=bool(force.get('full_output', rng.random() < 0.8)))
    if types: spec['types'] = types
    if tight: spec['tight'] = True
    spec['ll_scale'] = float(rng.choice([1, 1, 10, 0.5])) if wrapper in ('optimize', 'optimize_log', 'optimize_lbfgsb', 'optimize_log_lbfgsb', 'optimize_cons') else 1
    quick = tier == 'quick'
    if wrapper == 'opt':
        spec['log_opt'] = log_opt
        spec['algorithm'] = force.get('algorithm', LOCAL_ALGS[int(rng.choice(len(LOCAL_ALGS), p=[0.55, 0.15, 0.15, 0.15]))])
        spec['maxiter'] = int(rng.integers(30, 120)) if quick else int(rng.integers(60, 400))
    elif wrapper in ('optimize_lbfgsb', 'optimize_log_lbfgsb'):
        spec['maxiter'] = None if rng.random() < 0.3 else (int(rng.integers(40, 150)) if quick else int(rng.integers(100, 600)))
    elif wrapper == 'optimize_cons':
        spec['maxiter'] = force.get('maxiter', None if rng.random() < 0.25 else int(rng.integers(5, 30)))
    else:
        spec['maxiter'] = int(rng.integers(3, 12)) if quick else int(rng.integers(8, 40))
    if 'maxiter' in force: spec['maxiter'] = force['maxiter']
    spec['pts'] = gen_pts_seq(rng, 1)[0]
    spec.update(gen_extras(rng))
    return spec

def gen_grid_spec(rng, tier, **force):
    k = int(force.get('k', rng.integers(1, 4)))
    toy = gen_toy(rng, k, rng.random() < 0.5)
    true = toy['true']
    fixed = None
    if k >= 2 and rng.random() < 0.5:
        nfx = int(rng.integers(1, k)); idx = set(int(i) for i in rng.choice(k, size=nfx, replace=False))
        fixed = [true[i] if i in idx else None for i in range(k)]
    if 'nfree' in force:
        nf = force['nfree']; k = max(k, nf); toy = gen_toy(rng, k, True); true = toy['true']
        fixed = None if nf == k else [None if i < nf else true[i] for i in range(k)]
    if force.get('zero_at') is not None:
        fixed = [None] * k if fixed is None else fixed
        for i in force['zero_at']: fixed[i] = str(rng.choice(ZERO_TAGS))
        if all(f is not None for f in fixed):          # never everything fixed: free a non-zero one
            cand = [i for i in range(k) if i not in force['zero_at']]
            fixed[cand[0]] = None
    elif fixed is not None and rng.random() < 0.3:
        fixed[int(rng.choice([i for i, f in enumerate(fixed) if f is not None]))] = str(rng.choice(ZERO_TAGS))
    free = [i for i in range(k) if fixed is None or fixed[i] is None]
    pts = 3 if len(free) >= 3 else int(rng.integers(3, 7))
    # how the grid is written: `a:b:mj` (m points), `a:b:step` with floats, or with INTEGERS only (`1:6:1`: the objective then receives
    # integer arrays, next to fixed values that are not integers), or a mixture of the forms over the axes
    gk = force.get('grid_kind') or str(rng.choice(['count', 'int', 'float_step', 'mixed'], p=[0.45, 0.3, 0.15, 0.1]))
    positive = toy['kind'] == 'bump'
    grid = []
    for i in free:
        kind = gk if gk != 'mixed' else str(rng.choice(['count', 'int', 'float_step']))
        if kind == 'count':
            grid.append([round(true[i] - abs(true[i]) * 0.5 - 0.1, 4), round(true[i] + abs(true[i]) * 0.5 + 0.1, 4), pts])
        elif kind == 'int':
            step = int(rng.choice([1, 1, 2]))
            a = int(math.floor(true[i])) - step * (pts // 2)
            if positive: a = max(a, 0)
            grid.append([a, a + step * pts - int(rng.integers(0, step)), step, 'step'])
        else:
            a = round(true[i] - abs(true[i]) * 0.5 - 0.1, 4); b = round(true[i] + abs(true[i]) * 0.5 + 0.1, 4)
            grid.append([a, b, round((b - a) / (pts - 0.5), 5), 'step'])
    spec = dict(case='optim', wrapper='optimize_grid', toy=toy, p0=None, lower=None, upper=None, fixed=fixed, grid=grid,
                multinom=bool(rng.random() < 0.6), full_output=bool(force.get('full_output', rng.random() < 0.6)), ll_scale=1, maxiter=None)
    if rng.random() < 0.2: spec['grid_container'] = 'list'
    if fixed is not None and rng.random() < 0.3: spec['types'] = {'fixed': 'tuple'}
    spec['pts'] = gen_pts_seq(rng, 1)[0]
    spec.update(gen_extras(rng))
    return spec

# =============================================================================================== direct K / L3: projections
def case_project(chk, ctx, spec):
    dadi = ctx['dadi']; driver = ctx['driver']; I = dadi.Inference
    free, full = spec['free'], spec['full']
    fixed = fx_num(spec['fixed'])               # the values, as numbers (oracle, wire)
    def fixed_arg():                            # what the caller passes (0, 0.0, -0.0, False, numpy zeros, Python / numpy ints, a tuple ...)
        fx = fx_real(spec['fixed'])
        return tuple(fx) if (fx is not None and spec.get('fixed_type') == 'tuple') else fx
    zero = has_zero_fixed(spec['fixed'])
    free_type, full_type = spec.get('free_type') or 'array', spec.get('full_type') or 'list'
    free_arg = lambda: typed(free, free_type)   # the reduced vector in the caller's spelling (list / tuple / array / numpy scalars, int or float)
    chk.l3(('project', None if fixed is None else tuple(f is None for f in fixed), len(free),
            tuple(sorted(set(f.partition(':')[0] for f in (spec['fixed'] or []) if isinstance(f, str)))), free_type, full_type, spec.get('fixed_type')))
    chk.stat('project_cases'); chk.stat('project_free_spelled:' + free_type); chk.stat('project_full_spelled:' + full_type)
    if zero: chk.stat('project_cases_with_a_zero_fixed_value')
    if fixed is not None and np_kind(free_arg()) == 'int' and any(f is not None and not float(f).is_integer() for f in fixed):
        chk.stat('project_cases_integer_vector_with_non_integer_fixed_value')
    tag = ':zero_fixed' if zero else ''
    how = lambda o: '%s(%r)' % (type(o).__name__ + (':' + str(o.dtype) if isinstance(o, np.ndarray) else ''), o.tolist() if isinstance(o, np.ndarray) else o)
    # ---- L3: mutually inverse, fixed entries restored, lengths.  The OUTPUT of one projection is fed to the other as it is (same object,
    #      same element type), the way the wrappers chain them
    def call(f, *a):
        try:
            r = f(*a); return ('ok', np.asarray(r, dtype=float).ravel().tolist(), r)
        except Exception as e:
            return ('exc', type(e).__name__, None)
    up = call(I._project_params_up, free_arg(), fixed_arg())
    nfree = len(free) if fixed is None else sum(f is None for f in fixed)
    if len(free) == nfree:
        if up[0] != 'ok':
            chk.fail('_project_params_up:raises:' + up[1] + tag, '_project_params_up(%s, %r) raises %s' % (how(free_arg()), spec['fixed'], up[1]), spec)
        else:
            want_up = py_up(free, fixed)
            if len(up[1]) != len(want_up):
                chk.fail('_project_params_up:length' + tag, 'up(%s, %r) has %d entries, fixed_params has %d' % (how(free_arg()), spec['fixed'], len(up[1]), len(want_up)), spec)
            elif fixed is not None and not all(f is None or u == f for u, f in zip(up[1], fixed)):
                chk.fail('_project_params_up:fixed' + tag, 'up(%s, %r) = %r does not carry the fixed values' % (how(free_arg()), spec['fixed'], up[1]), spec)
            elif up[1] != want_up:
                chk.fail('_project_params_up:free' + tag, 'up(%s, %r) = %r, expected %r' % (how(free_arg()), spec['fixed'], up[1], want_up), spec)
            dn = call(I._project_params_down, up[2], fixed_arg())
            if dn[:2] != ('ok', [float(v) for v in free]):
                chk.fail('_project_params:down_up' + tag, 'down(up(%s, %r)) = %r' % (how(free_arg()), spec['fixed'], dn[:2]), spec)
    if fixed is None or len(full) == len(fixed):
        full_arg = typed(full, full_type)
        dn = call(I._project_params_down, full_arg, fixed_arg())
        want_dn = [float(v) for v in full] if fixed is None else [float(v) for v, f in zip(full, fixed) if f is None]
        if dn[0] != 'ok':
            chk.fail('_project_params_down:raises:' + dn[1] + tag, '_project_params_down(%s, %r) raises %s' % (how(full_arg), spec['fixed'], dn[1]), spec)
        else:
            if dn[1] != want_dn:
                chk.fail('_project_params_down:free' + tag, 'down(%s, %r) = %r, expected the %d free entries %r' % (how(full_arg), spec['fixed'], dn[1], len(want_dn), want_dn), spec)
            u2 = call(I._project_params_up, dn[2], fixed_arg())
            want = [float(v) for v in full] if fixed is None else [float(v) if f is None else float(f) for v, f in zip(full, fixed)]
            if u2[:2] != ('ok', want):
                chk.fail('_project_params:up_down' + tag, 'up(down(%s, %r)) = %r, expected %r (down gave %s)' % (how(full_arg), spec['fixed'], u2[:2], want, how(dn[2])), spec)
    # ---- K
    if driver is None or not driver.ok(): return
    out = driver.ask('c12.up %s %s %s' % (tok_vec(free), tok_bounds(fixed), np_kind(free_arg())))
    if up[0] == 'ok' and out.startswith('ok ') and [float(x) for x in parse_list(out[3:])] == up[1]: chk.k_ok('project_up')
    elif up[0] == 'exc' and out == 'err ' + up[1]: chk.k_ok('project_up'); chk.stat('error_kind:' + up[1])
    else: chk.k_bad('project_up', spec, up[:2], out, None)
    # down on a list with None entries (the bound lists are projected too)
    mixed = spec.get('mixed', full)
    try:
        r = I._project_params_down(list(mixed), fixed_arg())
        d = ('ok', [None if v is None else float(v) for v in list(r)])
    except Exception as e:
        d = ('exc', type(e).__name__)
    out = driver.ask('c12.down %s %s' % (tok_optvec(mixed), tok_bounds(fixed)))
    if d[0] == 'ok' and out.startswith('ok ') and parse_optvec(out[3:]) == d[1]: chk.k_ok('project_down')
    elif d[0] == 'exc' and out == 'err ' + d[1]: chk.k_ok('project_down'); chk.stat('error_kind:' + d[1])
    else: chk.k_bad('project_down', spec, d, out, None)

def gen_project(rng):
    k = int(rng.integers(1, 7))
    r = rng.random()
    fixed = None if r < 0.15 else [None if rng.random() < 0.55 else round(float(rng.uniform(-3, 3)), 3) for _ in range(k)]
    if fixed is not None and rng.random() < 0.4:        # parameters fixed at exactly zero, in any spelling
        for i in range(k):
            if fixed[i] is not None and rng.random() < 0.6: fixed[i] = str(rng.choice(ZERO_TAGS))
        if not has_zero_fixed(fixed): fixed[int(rng.integers(k))] = str(rng.choice(ZERO_TAGS))
    nfree = k if fixed is None else sum(f is None for f in fixed)
    free = [round(float(rng.uniform(-5, 5)), 3) for _ in range(nfree)]
    full = [round(float(rng.uniform(-5, 5)), 3) for _ in range(k)]
    r = rng.random()
    if r < 0.08 and nfree > 0: free = free[:-1]                    # too short: IndexError
    elif r < 0.14: free = free + [1.5]                              # too long: extra entries ignored
    if rng.random() < 0.08: full = full + [0.25]                    # wrong length: ValueError
    mixed = [None if rng.random() < 0.3 else v for v in full]
    spec = dict(case='project', fixed=fixed, free=free, full=full, mixed=mixed)
    # the spelling of the vectors: 45 % as before (float array / float list); otherwise integer-valued free entries in an integer type
    # (next to fixed values that are mostly NOT integers), float tuples / arrays / numpy scalars / float32, a bare scalar for a single
    # free parameter, fixed values as Python / numpy ints and numpy floats, fixed_params as a tuple
    r = rng.random()
    if r < 0.3:
        spec['free'] = [float(int(rng.integers(-6, 7))) for _ in free]
        spec['free_type'] = str(rng.choice(INT_FLAVOURS + (['scalar_int', 'scalar_npint'] if len(free) == 1 else [])))
        # the full vector: integers at the free positions; at the fixed positions its own fixed value (a vector "carrying" them: [3, 0.5, 2]) or junk
        carry = rng.random() < 0.6
        fxn = fx_num(fixed)
        spec['full'] = [float(int(rng.integers(-6, 7))) if (fxn is None or i >= len(fxn) or fxn[i] is None) else (fxn[i] if carry else float(int(rng.integers(-6, 7))))
                        for i in range(len(full))]
        spec['full_type'] = str(rng.choice(INT_FLAVOURS))
    elif r < 0.55:
        fl = str(rng.choice(FLOAT_FLAVOURS + ['float32_array'] + (['scalar_float', 'scalar_npf'] if len(free) == 1 else [])))
        if fl == 'float32_array': spec['free'] = [float(np.float32(v)) for v in free]
        spec['free_type'] = fl
        spec['full_type'] = str(rng.choice(FLOAT_FLAVOURS))
    if fixed is not None and rng.random() < 0.35:
        for i, f in enumerate(fixed):
            if f is None or isinstance(f, str): continue
            q = rng.random()
            if q < 0.3: fixed[i] = '%s:%d' % (str(rng.choice(['int', 'npint'])), int(rng.integers(-4, 5)))
            elif q < 0.6: fixed[i] = '%s:%r' % (str(rng.choice(['npf', 'np0d', 'f32'])), float(np.float32(f)))
        if rng.random() < 0.4: spec['fixed_type'] = 'tuple'
    return spec

# =============================================================================================== direct K / L3: _object_func
def case_objfunc(chk, ctx, spec):
    dadi = ctx['dadi']; driver = ctx['driver']; I = dadi.Inference
    params, lower, upper, scale, multinom = spec['params'], spec['lower'], spec['upper'], spec['ll_scale'], spec['multinom']
    fixed = fx_num(spec['fixed'])
    pts_seq = spec.get('pts_seq') or [None]
    ty = types_of(spec)
    for n, f in ty.items(): chk.stat('objfunc_spelled:%s:%s' % (n, f))
    kwargs_obj = None if spec.get('func_kwargs') is None else dict(spec['func_kwargs'])     # ONE caller-owned dict for all calls of the sequence
    args_obj = None if spec.get('func_args') is None else list(spec['func_args'])
    watched_functions(dadi, 'optimize')
    extra = {}
    if kwargs_obj is not None: extra['func_kwargs'] = kwargs_obj
    if args_obj is not None: extra['func_args'] = args_obj
    before = (frozen(kwargs_obj), frozen(args_obj))
    impl = None
    for pts in pts_seq:       # consecutive calls in one process with different grids: each must see its own pts, nothing may be remembered
        pb = Problem(dadi, spec['toy'], pts, spec.get('func_args'), spec.get('func_kwargs'))
        try:
            with np.errstate(all='ignore'):
                if spec.get('log'):
                    v = I._object_func_log(np.log(np.array(params)), pb.data, pb.model_func, pts, lower_bound=typed(lower, ty.get('lower')),
                                           upper_bound=typed(upper, ty.get('upper')), multinom=multinom,
                                           fixed_params=fx_real(spec['fixed']), ll_scale=scale, **extra)
                else:
                    # the parameter vector as an optimiser / grid search / user hands it over: float array, or integer array, list, tuple ...
                    v = I._object_func(typed(params, ty.get('params') or 'array'), pb.data, pb.model_func, pts, lower_bound=typed(lower, ty.get('lower')),
                                       upper_bound=typed(upper, ty.get('upper')), multinom=multinom,
                                       fixed_params=fx_real(spec['fixed']), ll_scale=scale, **extra)
            impl = ('ok', float(v), [c.tolist() for c in pb.calls])
        except Exception as e:
            impl = ('exc', type(e).__name__, [c.tolist() for c in pb.calls])
        want_in = (pts, list(spec.get('func_args') or []), dict(spec.get('func_kwargs') or {}))
        wrong = [i for i in pb.inputs if not (same_pts(i[0], want_in[0]) and i[1] == want_in[1] and i[2] == want_in[2])]
        if wrong:
            chk.fail('_object_func:model_inputs', '_object_func(..., pts=%r, func_args=%r, func_kwargs=%r) in the call sequence pts=%r: the model function got %r'
                     % (pts, spec.get('func_args'), spec.get('func_kwargs'), pts_seq, wrong[0]), spec)
        if (frozen(kwargs_obj), frozen(args_obj)) != before:
            chk.fail('_object_func:mutates_argument:func_kwargs', '_object_func changed the caller\'s func_kwargs/func_args: %r / %r' % (kwargs_obj, args_obj), spec)
            kwargs_obj.clear() if kwargs_obj is not None else None
            if kwargs_obj is not None: kwargs_obj.update(spec['func_kwargs'])
        for n, o in default_objects(I._object_func).items():
            if len(o):
                chk.fail('_object_func:default_argument_mutated:Inference._object_func.%s' % n, 'after the call the default `%s` of _object_func is %r' % (n, o), spec)
                restore_default(o, None)
        if impl[0] == 'ok' and len(pts_seq) > 1 and pts is not pts_seq[-1]:
            continue
    pu = py_up(np.exp(np.log(np.array(params))) if spec.get('log') else params, fixed) if (fixed is None or sum(f is None for f in fixed) <= len(params)) else None
    chk.l3(('objfunc', lower is None, upper is None, fixed is None, multinom, scale != 1, bool(spec.get('log')), has_zero_fixed(spec['fixed']),
            tuple(sorted(ty.items()))))
    if has_zero_fixed(spec['fixed']): chk.stat('objfunc_cases_with_a_zero_fixed_value')
    chk.stat('objfunc_cases')
    # ---- L3: outside the bounds the model is not called and the sentinel comes back; inside, -ll/ll_scale at the folded-in point
    if pu is not None and impl[0] == 'ok':
        # strict comparison, as documented: a value ON the bound is inside
        outside = any((lower is not None and i < len(lower) and lower[i] is not None and x < lower[i]) or
                      (upper is not None and i < len(upper) and upper[i] is not None and x > upper[i]) for i, x in enumerate(pu))
        if outside:
            chk.stat('objfunc_outside')
            if impl[2]:
                chk.fail('_object_func:evaluates_outside_bounds', '_object_func(%r, lower=%r, upper=%r, fixed=%r) calls the model at %r' % (params, lower, upper, fixed, impl[2]), spec)
            if impl[1] != 1e8 / scale:
                chk.fail('_object_func:sentinel', 'out-of-bounds value %r, documented sentinel %r' % (impl[1], 1e8 / scale), spec)
        else:
            if len(impl[2]) != 1 or not rel_ok(impl[2][0], pu, 1e-15):
                chk.fail('_object_func:evaluation_point', 'model called at %r, expected once at %r' % (impl[2], pu), spec)
            ll = pb.ll(pu, multinom)
            want = 1e8 / scale if math.isnan(ll) else -ll / scale
            if math.isnan(ll): chk.stat('objfunc_nan')
            if not abs(impl[1] - want) <= 1e-12 * abs(want):
                chk.fail('_object_func:value', 'value %r, expected %r' % (impl[1], want), spec)
    elif impl[0] == 'exc' and pu is not None:
        chk.fail('_object_func:raises:' + impl[1], '_object_func(%r, lower=%r, upper=%r, fixed=%r) raises %s' % (params, lower, upper, fixed, impl[1]), spec)
    # ---- K
    if driver is None or not driver.ok() or spec.get('log'): return
    keys, vals = [], []
    if pu is not None:
        ll = pb.ll(pu, multinom); keys = [pu]; vals = ['nan' if not math.isfinite(ll) else rat(ll)]
    out = driver.ask('c12.obj %s %s %s %s %s %s %s %s' % (tok_vec(params), tok_bounds(lower), tok_bounds(upper), tok_bounds(fixed), rat(scale),
                                                         tok_vecs(keys), ','.join(vals) if vals else '-', np_kind(typed(params, ty.get('params') or 'array'))))
    if impl[0] == 'exc':
        if out == 'err ' + impl[1]: chk.k_ok('object_func'); chk.stat('error_kind:' + impl[1])
        else: chk.k_bad('object_func', spec, impl, out, None)
        return
    if not out.startswith('ok '):
        chk.k_bad('object_func', spec, impl, out, None); return
    mv, mp = out[3:].split(' ')
    mv = float(Fraction(mv)); mp = [] if mp == 'N' else [[float(x) for x in parse_list(mp)]]
    if abs(mv - impl[1]) <= 1e-12 * abs(mv) and mp == impl[2]: chk.k_ok('object_func')
    else: chk.k_bad('object_func', spec, impl, out, abs(mv - impl[1]))

def gen_objfunc(rng):
    k = int(rng.integers(1, 5))
    toy = gen_toy(rng, k, rng.random() < 0.4)
    multinom = bool(rng.random() < 0.5)
    # No NaN-producing toy: with Spectrum-valued models `ll`/`ll_multinom` never return a float NaN (ll_per_bin masks nan/inf
    # entries, an all-masked sum is numpy.ma.masked), so the `numpy.isnan(result)` guard of _object_func is unreachable here and
    # `_object_func` hands `masked` on to the optimiser.  No clause of C12 speaks about that; it is listed in notes/C12.md.
    true = toy['true']
    fixed = None
    if k >= 2 and rng.random() < 0.5:
        fixed = [None if rng.random() < 0.6 else round(true[i] + float(rng.uniform(-1, 1)), 3) for i in range(k)]
        if all(f is not None for f in fixed): fixed[0] = None
    lo = [round(t - float(rng.uniform(0.2, 2)), 3) for t in true]; hi = [round(t + float(rng.uniform(0.2, 2)), 3) for t in true]
    if fixed is not None and rng.random() < 0.35:
        for i in range(k):
            if fixed[i] is not None and rng.random() < 0.7:
                fixed[i] = str(rng.choice(ZERO_TAGS)); lo[i] = min(lo[i], float(rng.choice([0.0, -0.5]))); hi[i] = max(hi[i], float(rng.choice([0.0, 0.5])))
    mk = lambda b: None if rng.random() < 0.2 else [None if rng.random() < 0.25 else v for v in b]
    lower, upper = mk(lo), mk(hi)
    if lower is not None and rng.random() < 0.05: lower = lower[:-1] if len(lower) > 1 else lower     # zip() stops at the shorter list
    nfree = k if fixed is None else sum(f is None for f in fixed)
    params = []
    free_idx = [i for i in range(k) if fixed is None or fixed[i] is None]
    for i in free_idx:
        r = rng.random()
        if r < 0.6: params.append(round(float(rng.uniform(lo[i], hi[i])), 3))
        elif r < 0.7: params.append(lo[i])                       # exactly on a bound: inside
        elif r < 0.8: params.append(hi[i])
        elif r < 0.9: params.append(round(lo[i] - float(rng.uniform(0.001, 1)), 3))
        else: params.append(round(hi[i] + float(rng.uniform(0.001, 1)), 3))
    log = bool(toy['kind'] == 'bump' and all(p > 0 for p in params) and rng.random() < 0.3)
    spec = dict(case='objfunc', toy=toy, params=params, lower=lower, upper=upper, fixed=fixed, ll_scale=float(rng.choice([1, 1, 10, 0.25])),
                multinom=multinom, log=log)
    spec['pts_seq'] = gen_pts_seq(rng, int(rng.integers(1, 4)))
    spec.update(gen_extras(rng))
    if not log:
        r = rng.random()
        if r < 0.25:        # integer parameter vectors (what a grid written with integers hands over); inside or outside the box, as it comes
            spec['params'] = [float(int(round(v))) for v in params]
            spec['types'] = {'params': str(rng.choice(INT_FLAVOURS))}
        elif r < 0.45:
            spec['types'] = {'params': str(rng.choice(FLOAT_FLAVOURS))}
        if rng.random() < 0.3:
            spec.setdefault('types', {})
            for b_ in ('lower', 'upper'): spec['types'][b_] = str(rng.choice(FLOAT_FLAVOURS[1:]))
    return spec

# =============================================================================================== how each wrapper calls _object_func
LIKELIHOOD_OPTIONS = ('data', 'model_func', 'pts', 'multinom', 'fixed_params', 'func_args', 'func_kwargs', 'll_scale', 'lower_bound', 'upper_bound')

def read_args_table(ctx):
    out = ctx['driver'].ask('c12.args')
    if not out.startswith('ok '): return None
    sig, req, rows = out[3:].split(' ', 2)
    t = {}
    for ent in rows.split(';'):
        name, own, bind = ent.split('|')
        t[name] = dict(own=own.split(','), binding=[tuple(x.split('=', 1)) for x in bind.split(',')] if bind else [])
    return dict(sig=sig.split(','), req=req.split(','), rows=t)

def case_args(chk, ctx, spec):
    """one call of a wrapper with every option set to a recognisable non-default value; `_object_func` is wrapped so that the arguments of
    every call, bound against ITS signature, are recorded.  L3 (independent of the model, from `inspect` only): every option of the wrapper
    that `_object_func` also has and that enters the likelihood reaches the parameter of the same name unchanged (the bound lists: or None,
    when the optimiser gets them).  K: the recorded binding is the generated table `objCalls` (the one `C12_objective_args_table` is about)."""
    dadi = ctx['dadi']; driver = ctx['driver']; I = dadi.Inference; N = dadi.NLopt_mod
    w = spec['wrapper']; tn = table_name(spec)
    keyw = 'opt:log_opt=%s' % bool(spec.get('log_opt')) if w == 'opt' else w
    pb = Problem(dadi, spec['toy'], spec.get('pts'), spec.get('func_args'), spec.get('func_kwargs'))
    owned = caller_objects(spec)
    real = I._object_func
    sig = inspect.signature(real)
    seen = []
    def recorder(*a, **k):
        try:
            seen.append(dict(sig.bind(*a, **k).arguments))
        except TypeError as e:
            seen.append({'__bind_error__': str(e)})
        return real(*a, **k)
    old = (I._object_func, getattr(N, '_object_func', None))
    I._object_func = recorder
    if old[1] is not None: N._object_func = recorder
    exc = None
    try:
        with np.errstate(all='ignore'):
            call_wrapper(dadi, pb, spec, owned)
    except Exception as e:
        exc = e
    finally:
        I._object_func = old[0]
        if old[1] is not None: N._object_func = old[1]
    chk.l3(('args', tn)); chk.stat('option_forwarding_cases')
    if not seen:
        if exc is not None:
            chk.stat('option_forwarding_case_raised_before_first_evaluation:' + tn)
        return
    got = seen[0]
    if '__bind_error__' in got:
        chk.fail('%s:objective_call:TypeError' % keyw, '%s calls _object_func with arguments that do not fit its signature: %s' % (w, got['__bind_error__']), spec); return
    wparams = inspect.signature(getattr(I, w)).parameters
    passed = dict(data=pb.data, model_func=pb.model_func, pts=spec.get('pts'), multinom=bool(spec['multinom']), fixed_params=owned['fixed_params'],
                  lower_bound=owned.get('lower_bound'), upper_bound=owned.get('upper_bound'))
    if 'func_args' in owned: passed['func_args'] = owned['func_args']
    if 'func_kwargs' in owned: passed['func_kwargs'] = owned['func_kwargs']
    if 'll_scale' in wparams and spec.get('ll_scale', 1) != 1: passed['ll_scale'] = spec['ll_scale']
    if 'full_output' in wparams and w != 'opt': passed['full_output'] = bool(spec.get('full_output'))
    for k_, v_ in (spec.get('extra_kw') or {}).items():
        if k_ in wparams: passed[k_] = v_
    def same(a, b):
        if a is b: return True
        if inspect.ismethod(a) and inspect.ismethod(b): return a == b           # a bound method is a fresh object at every attribute access
        if isinstance(a, (bool, int, float)) and isinstance(b, (bool, int, float)): return type(a) is type(b) and a == b
        return False
    # ---- L3
    for o, v in passed.items():
        if o not in sig.parameters or o not in wparams: continue
        r = got.get(o, sig.parameters[o].default)
        ok = same(r, v) or (o in ('lower_bound', 'upper_bound') and r is None)
        if not ok and o in LIKELIHOOD_OPTIONS:
            chk.fail('%s:option_forwarded:%s' % (keyw, o), '%s(..., %s=%r, ...) calls _object_func with %s=%r' % (w, o, v, o, r), spec)
        elif not ok:
            chk.stat('option_not_forwarded:%s:%s' % (tn, o))
    # ---- K
    if driver is None or not driver.ok(): return
    tab = ctx.get('_args_table') or read_args_table(ctx)
    ctx['_args_table'] = tab
    if tab is None or tn not in tab['rows']:
        chk.k_bad('objective_args:' + tn, spec, sorted(k for k in got if k != 'params'), 'no row', None); return
    row = tab['rows'][tn]
    probs = []
    if list(sig.parameters)[1:] != tab['sig']: probs.append('signature %r vs %r' % (list(sig.parameters)[1:], tab['sig']))
    bind = dict(row['binding'])
    if set(bind) != set(got) - {'params'}:
        probs.append('parameters given: implementation %r, model %r' % (sorted(set(got) - {'params'}), sorted(bind)))
    if [p_ for p_ in wparams] != row['own']: probs.append('own parameters %r vs %r' % (list(wparams), row['own']))
    for p_, a_ in row['binding']:
        if p_ not in got: continue
        r = got[p_]
        if a_ in passed: okk = same(r, passed[a_])
        elif a_ == 'None': okk = r is None
        elif a_ in wparams: okk = same(r, wparams[a_].default) or r is wparams[a_].default      # an own option left at its default
        else:
            try: okk = float(a_) == float(r) and not isinstance(r, bool)
            except (ValueError, TypeError): okk = not re.fullmatch(r'[-+0-9.eE]+', a_)       # a local of the wrapper (output_stream): nothing to compare with
        if not okk: probs.append('%s: implementation %r, model says `%s`' % (p_, r, a_))
    if probs: chk.k_bad('objective_args:' + tn, spec, '; '.join(probs)[:1200], str(row)[:400], None)
    else: chk.k_ok('objective_args:' + tn)

def gen_args_spec(rng, w, tier, log_opt=False):
    if w == 'optimize_grid':
        spec = gen_grid_spec(rng, tier, k=2, nfree=1, grid_kind='count', full_output=True)
    else:
        spec = gen_spec(rng, w, tier, k=2, pfixed=1.0, bounds='full', types='plain', tight=False, log_opt=log_opt, algorithm='LN_BOBYQA', maxiter=3)
        if w in ('optimize', 'optimize_log', 'optimize_lbfgsb', 'optimize_log_lbfgsb', 'optimize_cons'): spec['ll_scale'] = 7.0
    spec['case'] = 'args'
    spec['multinom'] = False                       # the default is True
    spec['func_args'] = [0.3]; spec['func_kwargs'] = {'tilt': 0.2}
    spec['extra_kw'] = {'flush_delay': 0.37, 'verbose': 999983}
    return spec

# =============================================================================================== perturb_params
def case_perturb(chk, ctx, spec):
    dadi = ctx['dadi']; driver = ctx['driver']; M = dadi.Misc
    params, fold, lower, upper, seeds = spec['params'], spec['fold'], spec['lower'], spec['upper'], spec['seeds']
    def kind(b, neg):
        if b is None: return 'none'
        s = set()
        for v in b:
            s.add('None' if v is None else ('neg' if v < 0 else ('zero' if v == 0 else 'pos')))
        return '+'.join(sorted(s))
    narrow = bool(spec.get('narrow'))
    chk.l3(('perturb', kind(lower, True), kind(upper, False), narrow, fold))
    chk.stat('perturb_cases'); chk.stat('perturb_lower:' + kind(lower, True)); chk.stat('perturb_upper:' + kind(upper, False))
    if narrow: chk.stat('perturb_narrow_box')
    reported = set()
    for sd in seeds:
        lo_arg = None if lower is None else list(lower); up_arg = None if upper is None else list(upper)
        np.random.seed(sd)
        try:
            with np.errstate(all='ignore'):
                pn = np.asarray(M.perturb_params(np.array(params, dtype=float), fold=fold, lower_bound=lo_arg, upper_bound=up_arg), dtype=float)
        except Exception as e:
            if 'raise' not in reported:
                reported.add('raise')
                chk.fail('perturb_params:raises:' + type(e).__name__, 'perturb_params(%r, fold=%r, lower_bound=%r, upper_bound=%r) raises %r' % (params, fold, lower, upper, e), spec)
            continue
        chk.stat('perturb_draws')
        np.random.seed(sd)
        u = np.random.uniform(size=len(params)); factors = 2 ** (fold * (2 * u - 1))
        # ---- L3: inside the box (exactly: the clamp is there to guarantee it), caller's lists untouched, free draws within 2^fold
        for i, v in enumerate(pn):
            lb = None if lower is None else lower[i]; ub = None if upper is None else upper[i]
            below = lb is not None and not (v >= lb); above = ub is not None and not (v <= ub)
            if below or above:
                why = 'narrow_box' if narrow else ('negative_lower' if (below and lb < 0) else ('negative_upper' if (above and ub < 0) else 'other'))
                if why not in reported:
                    reported.add(why)
                    chk.fail('perturb_params:outside_bounds:' + why,
                             'perturb_params(%r, fold=%r, lower_bound=%r, upper_bound=%r) (numpy.random.seed(%d)) returns %r for entry %d: outside [%r, %r]'
                             % (params, fold, lower, upper, sd, float(v), i, lb, ub), dict(spec, seeds=[sd]))
            if not (below or above):
                f = v / params[i] if params[i] != 0 else 1.0
                inside_draw = 2.0 ** (-fold) * (1 - 1e-12) <= f <= 2.0 ** fold * (1 + 1e-12)
                clamped = (lb is not None and abs(v - lb) <= 0.011 * abs(lb) + 0.0) or (ub is not None and abs(v - ub) <= 0.011 * abs(ub) + 0.0)
                if not (inside_draw or clamped) and 'factor' not in reported:
                    reported.add('factor')
                    chk.fail('perturb_params:factor', 'entry %d: %r -> %r is neither within 2**±%r of the original nor clamped to a bound' % (i, params[i], float(v), fold), dict(spec, seeds=[sd]))
        if (lower is not None and lo_arg != list(lower)) or (upper is not None and up_arg != list(upper)):
            if 'mut' not in reported:
                reported.add('mut')
                chk.fail('perturb_params:mutates_bounds', 'perturb_params rewrote the caller\'s bound lists: lower %r -> %r, upper %r -> %r' % (lower, lo_arg, upper, up_arg), dict(spec, seeds=[sd]))
        # ---- K: the draw AND the clamps — the model gets fold and the uniform variates; its exponent of 2 (generated from the draw statement)
        #      is compared with the float one, `2**exponent` comes back as a table of the floats numpy computes
        if driver is not None and driver.ok():
            sp1 = dict(spec, seeds=[sd])
            eo = driver.ask('c12.perturbexp %s %s' % (rat(float(fold)), tok_vec(u.tolist())))
            if not eo.startswith('ok '):
                chk.k_bad('perturb_params', sp1, pn.tolist(), eo, None); continue
            etoks = eo[3:].split(',')
            fexp = fold * (2 * u - 1)
            if len(etoks) != len(u) or not all(abs(float(Fraction(t)) - float(x)) <= 1e-12 * max(1.0, abs(float(x))) for t, x in zip(etoks, fexp)):
                chk.k_bad('perturb_params', sp1, 'exponents %r' % fexp.tolist(), eo, None); continue
            tab = ','.join(etoks) + ';' + ','.join(rat(float(f)) for f in factors)
            out = driver.ask('c12.perturbfold %s %s %s %s %s %s' % (tok_vec(params), rat(float(fold)), tok_vec(u.tolist()), tok_bounds(lower), tok_bounds(upper), tab))
            if out.startswith('ok '):
                mv = np.array([float(x) for x in parse_list(out[3:])])
                if mv.shape == pn.shape and np.all(np.isfinite(pn)) and np.all(np.abs(mv - pn) <= 1e-9 * np.maximum(np.abs(mv), np.abs(pn)) + 1e-300): chk.k_ok('perturb_params')
                else: chk.k_bad('perturb_params', sp1, pn.tolist(), mv.tolist(), None)
            else:
                chk.k_bad('perturb_params', sp1, pn.tolist(), out, None)

def gen_perturb(rng, tier, mode=None):
    k = int(rng.integers(1, 5))
    mode = mode or str(rng.choice(['pos', 'pos', 'zero', 'neg', 'neg', 'mixed', 'none_entries', 'no_bounds', 'narrow'], p=[0.2, 0.1, 0.1, 0.15, 0.1, 0.1, 0.12, 0.05, 0.08]))
    params, lower, upper = [], [], []
    for i in range(k):
        m = mode
        if mode == 'mixed': m = str(rng.choice(['pos', 'neg', 'zero']))
        if m in ('pos', 'none_entries', 'no_bounds', 'narrow'):
            p = round(float(np.exp(rng.uniform(np.log(0.01), np.log(50)))), 4)
            lb = round(p / float(rng.uniform(1.05, 6)), 5); ub = round(p * float(rng.uniform(1.05, 6)), 5)     # clamps are active in many draws
            if mode == 'narrow':
                lb = round(p * 0.999, 6); ub = round(p * 1.004, 6)
        elif m == 'zero':
            p = round(float(rng.uniform(0.01, 5)), 4); lb = 0.0; ub = round(p * float(rng.uniform(1.5, 10)), 4)
        else:   # negative parameters / bounds (selection coefficients)
            p = -round(float(np.exp(rng.uniform(np.log(0.01), np.log(50)))), 4)
            lb = round(p * float(rng.uniform(1.05, 6)), 5); ub = round(p / float(rng.uniform(1.05, 6)), 5) if rng.random() < 0.6 else round(float(rng.uniform(0.1, 5)), 4)
        params.append(p); lower.append(lb); upper.append(ub)
    if mode == 'none_entries':
        lower = [None if rng.random() < 0.5 else v for v in lower]; upper = [None if rng.random() < 0.5 else v for v in upper]
        if all(v is not None for v in lower): lower[0] = None
    lo = lower; up = upper
    if mode == 'no_bounds' or rng.random() < 0.08: lo = None
    if mode == 'no_bounds' or rng.random() < 0.08: up = None
    nd = 6 if tier == 'quick' else 25
    return dict(case='perturb', params=params, fold=int(rng.choice([1, 1, 2, 3, 0, 5])), lower=lo, upper=up, narrow=(mode == 'narrow'),
                seeds=[int(s) for s in rng.integers(0, 2 ** 31 - 1, size=nd)])

# =============================================================================================== entry points
def run_case(chk, ctx, spec):
    c = spec.get('case')
    if c == 'optim':
        r = run_optim(chk, ctx, spec)
        follow_up(chk, ctx, spec, r)
    elif c == 'seq':
        fits = spec['fits']
        chk.stat('fit_sequences'); chk.stat('fit_sequences:' + spec.get('wrapper', '?'))
        for i, fit in enumerate(fits):
            # the defaults are NOT cleaned between the fits of a sequence: what one fit leaves behind reaches the next one
            r = run_optim(chk, ctx, fit, sample=False, report=spec, keep_defaults=(i < len(fits) - 1))
            if r.get('raised') is not None and not isinstance(r['raised'], EvalBudget):
                follow_up(chk, ctx, fit, r)
    elif c == 'project': case_project(chk, ctx, spec)
    elif c == 'objfunc': case_objfunc(chk, ctx, spec)
    elif c == 'perturb': case_perturb(chk, ctx, spec)
    elif c == 'args': case_args(chk, ctx, spec)
    else: raise common.Infra('unknown case kind %r' % c)

def follow_up(chk, ctx, spec, r):
    """the call raised: record it (done), then look BEHIND the failure for further, independent defects"""
    exc = r.get('raised')
    if exc is None or spec.get('compat') or spec.get('followed'): return
    msg = str(exc)
    nxt = dict(spec, followed=True)
    if 'unexpected keyword argument' in msg:
        nxt['compat'] = True                       # a scipy that still accepts the keyword
    elif spec['wrapper'] == 'optimize_cons' and spec.get('maxiter') is None:
        nxt['maxiter'] = 25                        # the same call with an explicit iteration limit
    elif spec['wrapper'] == 'optimize_grid' and spec.get('full_output'):
        nxt['full_output'] = False
    else:
        return
    chk.stat('follow_up_runs')
    r2 = run_optim(chk, ctx, nxt, sample=False)
    if r2.get('raised') is not None and nxt.get('compat') and spec['wrapper'] == 'optimize_cons' and nxt.get('maxiter') is None:
        run_optim(chk, ctx, dict(nxt, maxiter=25), sample=False)

def run(chk, ctx):
    tier = ctx['tier']; dadi = ctx['dadi']
    rng = common.Rng(ctx['seed'], 'C12')
    quick = tier == 'quick'
    chk.rule = ('optimiser cases: every exposed optimiser (the optimize* functions of Inference and opt with log_opt off/on, local nlopt algorithms '
                'BOBYQA/COBYLA/NELDERMEAD/SBPLX) x toy models with 1-4 parameters (closed-form 1-D/2-D spectra: exp = any sign, bump = positive) x start strictly '
                'inside the bounds x bounds full / with None entries / lower only / upper only / absent, zero and negative bounds x every kind of fixed subset '
                '(p0 entries at fixed positions are arbitrary) x multinom on/off x ll_scale x full_output on/off x default and explicit iteration limits; a call '
                'that raises is recorded and then repeated behind the failure (removed scipy keyword stripped, explicit maxiter) to look for further defects. '
                'grid search: 1-3 free parameters, fixed subsets, full_output on/off. projections: random fixed patterns incl. None, wrong lengths. '
                '_object_func: points inside / on / outside the bounds, None entries, NaN-producing model, ll_scale, fixed. perturb_params: positive, zero, '
                'negative, None-entry, absent bounds and boxes narrower than the 1% margins, several random draws each. '
                'every call gets its own pts (int / list / None) and optionally func_args / func_kwargs (absent = the wrapper\'s shared default object); the toy spectrum '
                'depends on all three and the model function records what it receives; after EVERY call: caller-owned p0 / bound lists / fixed_params / func_args / '
                'func_kwargs unchanged, mutable default arguments of the wrapper, of opt and of _object_func still at their initial value (then restored, so that each '
                'case is replayable alone). sequences: for every wrapper two (some: three) consecutive fits in one process with every input different (pts, toy/data, '
                'p0, bounds, fixed, multinom, extras), defaults NOT restored in between. parameters fixed at exactly zero in seven spellings. '
                'SPELLING of the vectors (the property is about values): p0 / bounds as float list (default), tuple, float array, list of numpy floats, and - with an '
                'integer-valued start strictly inside the box - list / tuple of Python ints, int64 / int32 arrays, lists of numpy ints, half of those with integer bounds '
                'in integer types; fixed_params as list or tuple, fixed values as Python floats, Python ints, numpy ints / floats / 0-d arrays; through every wrapper '
                '(structured: 3 typed cases per wrapper, random: 35 %). TIGHT boxes (structured: 3 per wrapper, random: 20 %): per entry an active upper bound (optimum '
                'above it), an active lower bound, or a box of a few % around the optimum, with bounds below 1, around 1 and above e, so that [lb, ub] and [log lb, log ub] '
                'are different sets. grids written as a:b:mj, a:b:float step, a:b:step with INTEGERS only (the objective receives integer arrays next to non-integer fixed '
                'values) and mixtures, as tuple or list; oracle also: the set of evaluated points is the product of the documented axes with the fixed values folded in, '
                'and the best of those is returned. projections: reduced / full vectors in every spelling above plus float32 arrays and a bare Python / numpy scalar '
                'for a single free parameter, integer-valued free entries next to non-integer fixed values, the output of one projection fed to the other as it is. '
                '_object_func: parameter vectors as integer / float arrays, lists, tuples; bounds as tuples / arrays / numpy scalars. '
                'option forwarding: every wrapper once (thorough: 3x) with multinom=False, flush_delay, verbose, ll_scale, func_args, func_kwargs, fixed_params and bounds at '
                'recognisable non-default values, `_object_func` wrapped: each likelihood-relevant option must reach the parameter of the same name (L3), the whole '
                'binding must be the generated table (K). grid search also as a whole against the enumeration model (order of the points, values, first minimum). '
                'perturb_params with fold 0, 1, 2, 3, 5. '
                'distinct = distinct (wrapper, #params, fixed?, bound kinds, multinom, toy kind, ll_scale, algorithm, full_output, default maxiter, zero-fixed) etc.')
    chk.unproved = ['convergence / optimality of scipy and NLopt: not claimed; the optimiser is an arbitrary strategy in the theorems (the grid search is '
                    'modelled and proved unconditionally: C12_grid_evals / _in_range / _optimum)',
                    'that scipy / NLopt query only inside the bounds they are given (L-BFGS-B, SLSQP, nlopt): an assumption of C12_optimizer_box, validated on every recorded trace',
                    'that a local optimiser queries its start first and returns a point it evaluated together with its value: assumptions of C12_first_eval / '
                    'C12_result_point / C12_no_worse, validated on every recorded trace',
                    'exp(log(x)) = x and round-off: the theorems use exact inverses; the float round trip is compared at 1e-12 / 1e-9',
                    'the RoundoffLimited escape of NLopt_mod.opt (nan parameters, -inf likelihood) and the verbose/output_file plumbing are not modelled',
                    'the statement order of _object_func and the loop shapes of the projections are checked structurally by the translator (flags), the loops themselves are '
                    'hand-written in Model/Optim.lean and tied by K']
    chk.assumptions += ['tools/gen_Optim.py (symbolic execution of the wrapper bodies into Optim.VE terms; closed formulas of _object_func and perturb_params)',
                        'recording shims at the scipy.optimize / nlopt.opt boundary (harness/c12.py) do not alter the optimisers\' behaviour']
    if ctx['driver'] is not None and ctx['driver'].ok():
        read_table(chk, ctx)
    names = exposed(dadi)
    chk.notes.append('exposed optimisers: ' + ', '.join(names))
    # ---- sequences of fits in one process FIRST (state leaking from one call into the next: mutable default arguments, caller-owned
    #      dicts/lists): every wrapper, two fits with every input different, then a few three-fit sequences
    specs = []
    for w in names:
        if w.endswith('_resid'): continue
        if w == 'opt':
            for lo in (False, True):
                specs.append(gen_seq(rng, w, tier, 2, log_opt=lo, algorithm='LN_BOBYQA'))
        else:
            specs.append(gen_seq(rng, w, tier, 2))
    for _ in range(3 if quick else 40):
        w = [n for n in names if not n.endswith('_resid')][int(rng.integers(len([n for n in names if not n.endswith('_resid')])))]
        specs.append(gen_seq(rng, w, tier, int(rng.integers(2, 4))))
    for s_ in specs:
        run_case(chk, ctx, s_)
    # ---- how each wrapper calls `_object_func`: every option at a recognisable non-default value (multinom=False, flush_delay, verbose, ll_scale,
    #      func_args, func_kwargs, fixed_params, bounds), the arguments `_object_func` receives bound against its signature
    for w in names:
        if w.endswith('_resid'): continue
        for lo_ in ((False, True) if w == 'opt' else (False,)):
            for _ in range(1 if quick else 3):
                run_case(chk, ctx, gen_args_spec(rng, w, tier, log_opt=lo_))
    # ---- structured sweep: every wrapper in its plainest documented form
    specs = []
    for w in names:
        if w == 'optimize_grid' or w.endswith('_resid'): continue
        if w == 'opt':
            for lo in (False, True):
                specs.append(gen_spec(rng, w, tier, log_opt=lo, bounds='full', k=2, pfixed=0.0, algorithm='LN_BOBYQA'))
                specs.append(gen_spec(rng, w, tier, log_opt=lo, bounds='none', k=2, pfixed=0.0, algorithm='LN_BOBYQA'))
                specs.append(gen_spec(rng, w, tier, log_opt=lo, bounds='partial', k=3, pfixed=1.0, algorithm='LN_BOBYQA'))
                # the documented defaults: no bounds, default algorithm and default maxeval; and one more local algorithm
                specs.append(gen_spec(rng, w, tier, log_opt=lo, bounds='none', k=2, pfixed=0.0, algorithm='LN_BOBYQA', maxiter=None))
                specs.append(gen_spec(rng, w, tier, log_opt=lo, bounds='none', k=2, pfixed=0.0, algorithm='LN_COBYLA'))
                specs.append(gen_spec(rng, w, tier, log_opt=lo, bounds='upper', k=2, pfixed=0.0, algorithm='LN_NELDERMEAD'))
                for j in range(6):      # the default algorithm without a (complete) lower bound
                    specs.append(gen_spec(rng, w, tier, log_opt=lo, bounds=['none', 'upper', 'partial'][j % 3], algorithm='LN_BOBYQA',
                                          maxiter=(None if j % 2 else 60)))
        else:
            specs.append(gen_spec(rng, w, tier, bounds='full', k=2, pfixed=0.0, full_output=True, maxiter=None))
            specs.append(gen_spec(rng, w, tier, bounds='partial', k=3, pfixed=1.0, full_output=True))
    # ---- a parameter fixed at exactly zero (0, 0.0, -0.0, False, numpy zeros): first / middle / last position, alone, together with a
    #      non-zero fixed value, two zeros; through EVERY wrapper (the fixed entry must be 0 in every evaluation and in the result, the
    #      p0 entry at that position is ignored)
    zcases = [dict(k=3, zero_at=[0]), dict(k=3, zero_at=[1]), dict(k=3, zero_at=[2]),
              dict(k=4, zero_at=[1], fix_also=[3]), dict(k=4, zero_at=[0, 3])]
    for w in names:
        if w.endswith('_resid'): continue
        for j, zc in enumerate(zcases):
            if w == 'optimize_grid':
                if zc['k'] == 3 or j == 4: specs.append(gen_grid_spec(rng, tier, k=zc['k'], zero_at=zc['zero_at'], full_output=bool(j % 2)))
                continue
            for lo_ in ((False, True) if w == 'opt' else (False,)):
                specs.append(gen_spec(rng, w, tier, pfixed=0.0, bounds=('partial' if j == 3 else 'full'), algorithm='LN_BOBYQA',
                                      log_opt=lo_, **zc))
    # ---- spelling of the arguments: through EVERY wrapper an integer-valued start in an integer type (list / tuple / array of int, numpy
    #      integers; half of them with integer-typed bounds) next to non-integer fixed values, and float tuples / arrays / numpy scalars
    # ---- tight boxes: active upper / lower bounds and narrow boxes, below 1, around 1 and above e (natural-space box != log-space box)
    for w in names:
        if w == 'optimize_grid' or w.endswith('_resid'): continue
        for lo_ in ((False, True) if w == 'opt' else (False,)):
            common_ = dict(algorithm='LN_BOBYQA', log_opt=lo_)
            specs.append(gen_spec(rng, w, tier, types='int', k=3, pfixed=1.0, bounds='full', tight=False, **common_))
            specs.append(gen_spec(rng, w, tier, types='int', k=2, pfixed=0.0, bounds='partial', tight=False, **common_))
            specs.append(gen_spec(rng, w, tier, types='float', k=3, pfixed=1.0, bounds='full', **common_))
            specs.append(gen_spec(rng, w, tier, types='plain', k=2, pfixed=0.0, bounds='full', tight=True, **common_))
            specs.append(gen_spec(rng, w, tier, types='plain', k=3, pfixed=1.0, bounds='full', tight=True, **common_))
            specs.append(gen_spec(rng, w, tier, k=1, pfixed=0.0, bounds='full', tight=True, **common_))
    if 'optimize_grid' in names:
        # the grid written in every way (`a:b:mj`, float step, INTEGERS only, mixed), with and without fixed (non-integer) values
        for gk in ('int', 'float_step', 'mixed', 'count'):
            specs.append(gen_grid_spec(rng, tier, k=2, nfree=1, grid_kind=gk, full_output=False))
            specs.append(gen_grid_spec(rng, tier, k=3, nfree=2, grid_kind=gk, full_output=True))
            specs.append(gen_grid_spec(rng, tier, k=2, nfree=2, grid_kind=gk, full_output=(gk == 'int')))
        specs.append(gen_grid_spec(rng, tier, nfree=1, full_output=True))
        specs.append(gen_grid_spec(rng, tier, nfree=1, full_output=False))
        specs.append(gen_grid_spec(rng, tier, nfree=2, full_output=True))
    # ---- random cases
    nrand = 10 if quick else 300
    for w in names:
        if w.endswith('_resid'): continue
        for _ in range(nrand * (2 if w == 'opt' else 1)):
            specs.append(gen_grid_spec(rng, tier) if w == 'optimize_grid' else gen_spec(rng, w, tier))
    for s in specs:
        run_case(chk, ctx, s)
    skipped = [w for w in names if w.endswith('_resid')]
    if skipped: chk.notes.append('not run (objective is a residual, not a likelihood): ' + ', '.join(skipped))
    # ---- projections, objective, perturb
    for _ in range(60 if quick else 4000):
        run_case(chk, ctx, gen_project(rng))
    run_case(chk, ctx, dict(case='project', fixed=[None, 1.0], free=[3.0], full=[3.0, 9.0], mixed=[None, 2.0]))
    # every spelling of a zero fixed value x first / middle / last position, alone and next to a non-zero fixed value; all spellings at once
    for t in ZERO_TAGS:
        for pos in range(3):
            fx = [None, None, None]; fx[pos] = t
            run_case(chk, ctx, dict(case='project', fixed=fx, free=[1.25, -2.5], full=[1.25 if i != pos else 0.75 for i in range(3)][:2] + [-2.5 if pos != 2 else 0.75],
                                    mixed=[0.5, None, -1.0]))
            fx4 = [None, 1.5, None, None]; fx4[(pos * 3 // 2 + (1 if pos * 3 // 2 == 1 else 0)) % 4 if pos else 0] = t
            nf = sum(f is None for f in fx4)
            run_case(chk, ctx, dict(case='project', fixed=fx4, free=[0.5, -0.25, 4.0][:nf], full=[3.0, 0.0, -1.0, 2.0], mixed=[None, 0.0, 2.0, None]))
    run_case(chk, ctx, dict(case='project', fixed=['int0', None, 'float0', 'negzero', 'false', None, 'np0', 'npint0', 'np0d'],
                            free=[7.0, -3.0], full=[1.0, 2.0, 3.0, 4.0, 5.0, 6.0, 7.0, 8.0, 9.0], mixed=[None] * 9))
    run_case(chk, ctx, dict(case='project', fixed=['float0', 'float0', 'float0', None], free=[2.0], full=[9.0, 8.0, 7.0, 2.0], mixed=[1.0, None, 1.0, None]))
    # every spelling of the reduced / full vector x a non-integer fixed value first / middle / last; integer-valued free entries in integer
    # types; a bare scalar for a single free parameter; fixed values as Python / numpy integers
    for fl in FLOAT_FLAVOURS + INT_FLAVOURS + ['float32_array']:
        isint = fl in INT_FLAVOURS
        for pos in range(3):
            fx = [None, None, None]; fx[pos] = 0.25 + pos
            fr = [3.0, -2.0] if isint else [1.25, -2.5]
            fu = [float(v) for v in (fr[:pos] + [fx[pos]] + fr[pos:])]
            run_case(chk, ctx, dict(case='project', fixed=fx, free=fr, full=fu, mixed=[0.5, None, -1.0], free_type=fl,
                                    full_type=(fl if fl != 'float32_array' else 'array'), fixed_type=('tuple' if pos == 1 else None)))
        run_case(chk, ctx, dict(case='project', fixed=[0.5, None, 'npf:0.1', 'int:2', None, 'npint:-3', 1.75], free=([4.0, 7.0] if isint else [4.5, 0.125]),
                                full=([0.5, 4.0, 0.1, 2.0, 7.0, -3.0, 1.75] if isint else [9.0, 4.5, 9.0, 9.0, 0.125, 9.0, 9.0]), mixed=[None] * 7,
                                free_type=fl, full_type=(fl if fl != 'float32_array' else 'tuple')))
    for fl in SCALAR_FLAVOURS:
        for pos in range(3):
            fx = [0.3, 2.5, -1.75]; fx[pos] = None
            v = 4.0 if 'int' in fl else 0.625
            run_case(chk, ctx, dict(case='project', fixed=fx, free=[v], full=[v if i == pos else fx[i] for i in range(3)], mixed=[None, 1.0, None], free_type=fl,
                                    full_type=('int_list' if 'int' in fl else 'list')))
        run_case(chk, ctx, dict(case='project', fixed=[None], free=[5.0], full=[5.0], mixed=[None], free_type=fl, full_type='list'))
        run_case(chk, ctx, dict(case='project', fixed=None, free=[5.0], full=[5.0], mixed=[None], free_type=fl, full_type='list'))
    for _ in range(60 if quick else 4000):
        run_case(chk, ctx, gen_objfunc(rng))
    for mode in ('pos', 'zero', 'neg', 'none_entries', 'no_bounds', 'narrow', 'mixed'):
        run_case(chk, ctx, gen_perturb(rng, tier, mode))
    for _ in range(25 if quick else 1500):
        run_case(chk, ctx, gen_perturb(rng, tier))

def replay(chk, ctx, data):
    inp = data.get('input') or {}
    if ctx['driver'] is not None and ctx['driver'].ok():
        read_table(chk, ctx)
    if isinstance(inp, dict) and inp.get('case'):
        spec = dict(inp)
        spec.pop('followed', None)
        run_case(chk, ctx, spec)
    else:
        run(chk, ctx)
