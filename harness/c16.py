"""C16 — demes graphs vs native dadi models: units, reference size, order of sampled demes, ancient samples, export.

Proved (Props/C16.lean, about definitions regenerated from the source): unit/scale invariance of the conversion
(T, nu(t), M; constant / linear / exponential epochs, cut epochs; arbitrary exp/log/pow), the keyword wiring of
`_integrate_phi` and the tables of `_split_phi` / `_admix_*`, the final axis order, that every primitive logs exactly one
export record with its own indices, end times, and that the export scalings invert the import conversion.

Round 4 (graph level, harness/c16_graph.py + Driver/DemesGraph.lean): `DemesUtil.slice`, `_augment_with_ancient_samples`, the preparation in `SFS`,
`_migration_rate_in_interval`, the epoch search and the frozen flags are translated statement by statement; proved: ancient sample = frozen branch
(closed form), slicing shifts times and keeps sizes, both commute with the units, whole-graph invariance of rows / nu / events / calls, order of
the sampled demes = final axis permutation, ancestor-order wiring for every arity.

Round 5 (program level, harness/c16_prog.py + tools/gen_DemesProg.py): `_sizes_at_time`, `_migration_rate_in_interval`, `_make_nu_func`,
`_get_integration_parameters`, `_get_demographic_events`, `_integrate_phi`, `_apply_event`, `_compute_sfs` and the tail of `SFS` are translated statement by
statement into programs over a history of recorded calls (Generated/DemesProg.lean); each is `rfl`-equal to a kept copy (Model/DemesProg.lean) whose closed form
(Lemmas/DemesProg*.lean) is the composition the earlier theorems speak about: wiring of `_integrate_phi` for d = 1..5, the user's Ne in every T / nu / M,
whole-import scale invariance with the frozen branches' absolute size 1, the frozen nu outside the sweep, the per-interval plan of a sliced graph, the
export / import boundary table.

Here:
  K  — the generated formulas / tables vs the real functions: `_get_integration_parameters`, `_sizes_at_time`,
       `_make_nu_func` on random graphs (size expressions come back as terms, evaluated in IEEE arithmetic),
       `_integrate_phi` / `_split_phi` / `_admix_new_pop_phi` / `_admix_phi` with recording stubs and marker values,
       `_make_sorted_proportions_list`, the records every primitive really appends to `Demes.cache`, `output`'s end times
       and scalings, the final reordering.
  L3 — the property itself on the real code (harness/c16_scen.py writes every random history twice: as a demes graph and as
       a hand-written dadi program): graph vs program; other time units, scaled graph, explicit reference size, permuted
       sampled demes; ancient samples vs frozen branches (incl. only-ancient samples = sliced graph); random dadi programs
       exported with Demes.output and re-imported.  Two spectra that do not agree to 1e-9 are recomputed with 4x and 16x
       smaller time steps: operator-splitting / step-partition differences shrink, a wrong program does not.
"""
import os, sys, re, math, json, copy, inspect, time, traceback
from fractions import Fraction
import numpy as np
from . import common
from . import c16_scen as S
from . import c16_graph as G
from . import c16_prog as PR

PROP = 'C16'
GENERATED = ['Demes', 'Admix', 'DemesProg']
NEEDS_BUILD = True
NEEDS_DRIVER = True
DRIVER_MODULES = ['DemesConv', 'DemesGraph']

INF = float('inf')
TIGHT = 1e-9

# ------------------------------------------------------------------------------------------------- helpers
def tstr(t):
    return 'inf' if t == INF else common.rat(t)

_NUM = re.compile(r'(?<![\w.])(-?\d+(?:/\d+)?)(?![\w(])')
def eval_sym(s):
    """evaluate a size term answered by the driver in IEEE double arithmetic"""
    expr = _NUM.sub(lambda m: repr(float(Fraction(m.group(1)))), s)
    env = dict(add=lambda a, b: a + b, sub=lambda a, b: a - b, mul=lambda a, b: a * b, div=lambda a, b: a / b,
               exp=np.exp, log=np.log, pow=lambda a, b: a ** b)
    return float(eval(expr, {'__builtins__': {}}, env))

def rel(a, b):
    a = np.asarray(a, dtype=float); b = np.asarray(b, dtype=float)
    if a.shape != b.shape: return float('inf')
    if not (np.all(np.isfinite(a)) and np.all(np.isfinite(b))): return float('inf')
    s = max(float(np.max(np.abs(a))), float(np.max(np.abs(b))))
    return 0.0 if s == 0 else float(np.max(np.abs(a - b))) / s

def enc(o):
    """JSON-able copy (inf -> 'inf')"""
    return common.jsonable(o)

def dec(o):
    if isinstance(o, dict): return {k: dec(v) for k, v in o.items()}
    if isinstance(o, list): return [dec(v) for v in o]
    if o == 'inf': return INF
    return o

def get_demes():
    import demes
    return demes

def resolve(gd):
    return get_demes().Builder.fromdict(copy.deepcopy(gd)).resolve()

def output_with_record(dadi, **kw):
    """`Demes.output(**kw)` and the record (list of events) it worked on.  Since fix 004b109 `output` exports from
    `copy.deepcopy(globals()['cache'])` and leaves `dadi.Demes.cache` untouched (no end times / deme names written into it); before, it
    filled them into the global record.  Both forms are served: the deep copy of the global record made during the call is observed,
    and when none is made the global record itself is what `output` worked on."""
    import copy as _copy
    Dm = dadi.Demes
    seen = []
    orig = _copy.deepcopy
    def spy(x, *a, **k):
        r = orig(x, *a, **k)
        if x is Dm.cache: seen.append(r)
        return r
    _copy.deepcopy = spy
    try:
        g = Dm.output(**kw)
    finally:
        _copy.deepcopy = orig
    return g, (seen[-1] if seen else Dm.cache)

class Limit(Exception):
    """a documented limitation of dadi.Demes was hit (generator's fault, not a finding)"""

LIMIT_PAT = re.compile(r'more than (five|5) demes|cannot integrate more than five')
# C06's subject (guard of the pulse functions evaluated on permuted arguments: a zero proportion of the last population makes the
# sum 1 +- one ulp) — reported there, skipped here
C06_PAT = re.compile(r'Admixture proportions .* are non-sensible')

def demes_sfs(dadi, gd, sd, st, ns, pts, **kw):
    g = resolve(gd)
    stt = list(st) if any(t > 0 for t in st) else None
    try:
        fs = dadi.Demes.SFS(g, list(sd), list(ns), pts, sample_times=stt, **kw)
    except ValueError as e:
        if LIMIT_PAT.search(str(e)) or C06_PAT.search(str(e)): raise Limit(str(e))
        raise
    return np.asarray(np.ma.filled(fs, 0.0), dtype=float)

def prog_sfs(dadi, ops, ns, pts, theta=1.0):
    try:
        return _prog_sfs(dadi, ops, ns, pts, theta)
    except ValueError as e:
        if C06_PAT.search(str(e)): raise Limit(str(e))
        raise

def _prog_sfs(dadi, ops, ns, pts, theta=1.0):
    return np.asarray(np.ma.filled(S.program_sfs(dadi, ops, pts, list(ns), theta=theta), 0.0), dtype=float)

def prog_cost(ops, pts, tf=1e-3):
    """rough wall-clock estimate (s) of a program"""
    c = 0.0
    for o in ops:
        if o['op'] != 'integrate' or o['T'] <= 0: continue
        d = len(o['nu'])
        vm = 0.0
        for i, s in enumerate(o['nu']):
            nmin = min(float(x) for x in s[1:])
            vm = max(vm, 0.25 / nmin, sum(o['M'][i]))
        steps = o['T'] * vm / tf + 1
        c += steps * (pts ** d) * d * 3.0e-8 + steps * 2e-5
    return c

class TF:
    """temporarily divide dadi's time-step factor"""
    def __init__(self, dadi, div):
        self.dadi = dadi; self.div = div
    def __enter__(self):
        self.old = self.dadi.Integration.timescale_factor
        self.dadi.Integration.timescale_factor = self.old / self.div
    def __exit__(self, *a):
        self.dadi.Integration.timescale_factor = self.old

def agree(dadi, fa, fb, pts, cost, budget, ndim):
    """(verdict, errors).  fa, fb: functions of the number of grid points returning arrays (corners zeroed).
    'tight' (<= 1e-9) | 'converging' (the difference shrinks when the time step / the grid is refined: discretisation) |
    'different' (it does not) | 'unresolved' (refinement too expensive)."""
    e1 = rel(fa(pts), fb(pts))
    if e1 <= TIGHT: return 'tight', [e1]
    if not math.isfinite(e1): return 'different', [e1, None, None, None]       # shapes differ or a spectrum is not finite
    spent = 0.0
    if DEADLINE[0] is not None and time.time() > DEADLINE[0]: return 'unresolved', [e1]
    if cost * 4 > budget: return 'unresolved', [e1]
    with TF(dadi, 4):
        e2 = rel(fa(pts), fb(pts))
    spent += 4 * cost
    if e2 <= TIGHT or e2 <= 0.35 * e1: return 'converging', [e1, e2]
    # a difference of a percent or more that does not react to the time step at all is not a discretisation effect
    # (splitting / step-partition errors are first order in dt; event-order effects on the grid were never seen above 1e-4)
    if e1 >= 1e-2 and abs(e2 - e1) <= 0.1 * e1: return 'different', [e1, e2, None, None]
    e3 = None
    if spent + 16 * cost <= budget:
        with TF(dadi, 16):
            e3 = rel(fa(pts), fb(pts))
        spent += 16 * cost
        if e3 <= TIGHT or e3 <= 0.5 * e2 or e3 <= 0.2 * e1: return 'converging', [e1, e2, e3]
    # event order at one instant / step partition can also leave a grid-discretisation difference: refine the grid as well
    gcost = 4 * cost * (2 ** ndim) * 1.3
    if spent + gcost > budget: return 'unresolved', [e1, e2, e3]
    with TF(dadi, 4):
        e4 = rel(fa(2 * pts), fb(2 * pts))
    if e4 <= TIGHT or e4 <= 0.15 * e1: return 'converging', [e1, e2, e3, e4]
    # noise floor of these coarse grids: a difference below 2e-5 of the largest entry that stays below 1e-4 under every
    # refinement is counted, not flagged (step partitions and near-cancelling splitting terms are not monotone at this level)
    if e1 < 2e-5 and max(x for x in (e2, e3, e4) if x is not None) < 1e-4: return 'small', [e1, e2, e3, e4]
    return 'different', [e1, e2, e3, e4]

REFINE_BUDGET = [20.0]
DEADLINE = [None]          # wall-clock time after which no refinement is started any more

def check_pair(chk, dadi, key, what, inp, fa, fb, pts, ndim, cost=0.0):
    """the two spectra must agree; the implementation side is `fa`.  Returns the verdict."""
    try:
        v, errs = agree(dadi, fa, fb, pts, cost, REFINE_BUDGET[0], ndim)
    except Limit as e:
        chk.stat('skipped:dadi-limit'); return 'limit'
    except Exception as e:
        tb = traceback.format_exc().strip().split('\n')
        where = [l for l in tb if 'dadi' in l and 'File' in l]
        import re as _re
        slug = _re.sub(r'[^a-z]+', '-', _re.sub(r"'[^']*'|\"[^\"]*\"", 'Q', str(e)).lower()).strip('-')[:48]   # message shape, names and numbers removed
        chk.fail(key + ':raises:' + type(e).__name__ + ':' + slug, '%s: raises %s: %s  (%s)' % (what, type(e).__name__, str(e)[:200], where[-1].strip() if where else ''), inp)
        return 'raises'
    chk.stat('agree:%s:%s' % (key.split(':')[0], v))
    if v == 'different':
        if not math.isfinite(errs[0]):
            chk.fail(key + ':mismatch', '%s: the spectra have different shapes or non-finite entries' % what, inp)
        else:
            chk.fail(key + ':mismatch', '%s: spectra differ by %.2e relative at the default time step and grid; %s (does not converge: not a discretisation effect)'
                     % (what, errs[0], ', '.join('%s: %s' % (n, '%.2e' % e if e is not None else 'n/a') for n, e in zip(['dt/4', 'dt/16', '2x grid and dt/4'], errs[1:]))), inp)
    return v

# ------------------------------------------------------------------------------------------------- K: conversion
def k_conversion(chk, ctx, rng, n):
    dadi = ctx['dadi']; drv = ctx['driver']; D = dadi.Demes.Demes
    for it in range(n):
        h = S.History(rng, max_live=5)
        gd = h.graph_dict()
        g = resolve(gd)
        sampled = list(h.final)
        ev, pres = D._get_demographic_events(g, g.discrete_demographic_events(), sampled)
        Ne = None if rng.random() < 0.6 else float(h.Ne * rng.choice([0.5, 2.0, 1.37]))
        nf, mm, its, fz = D._get_integration_parameters(g, pres, [], Ne=Ne)
        NeV = float(D._get_root_Ne(g)) if Ne is None else Ne
        ivs = sorted(pres.items())[::-1]
        for k, (iv, live) in enumerate(ivs):
            i0, i1 = float(iv[0]), float(iv[1])
            # T
            ans = drv.ask('c16 T %s %s %s' % (tstr(i0), tstr(i1), common.rat(NeV)))
            _cmp_num(chk, 'T', dict(interval=[i0, i1], Ne=NeV), its[k], ans)
            # migration matrix
            for ii, dfrom in enumerate(live):
                for jj, dto in enumerate(live):
                    if dfrom == dto: continue
                    m = float(D._migration_rate_in_interval(g, dfrom, dto, iv))
                    ans = drv.ask('c16 mig %s %s' % (common.rat(NeV), common.rat(m)))
                    if ans.startswith('ok '):
                        val, flag = ans.split()[1:3]
                        impl = float(mm[k][jj, ii]) if flag == '1' else float(mm[k][ii, jj])
                        _cmp_val(chk, 'mig', dict(Ne=NeV, m=m, source=dfrom, dest=dto), impl, float(Fraction(val)))
                    else:
                        chk.k_bad('mig', dict(Ne=NeV, m=m), None, ans, 'model error')
            # sizes and nu functions
            allc = True; eps = []
            for d in live:
                ep = None
                for e in g[d].epochs:
                    if e.start_time >= i0 and e.end_time <= i1: ep = e; break
                eps.append(ep)
                if ep.size_function != 'constant': allc = False
            for idx, (d, ep) in enumerate(zip(live, eps)):
                args = '%s %s %s %s %s %s %s' % (ep.size_function, common.rat(ep.start_size), common.rat(ep.end_size),
                                                 tstr(float(ep.start_time)), tstr(float(ep.end_time)), tstr(i0), tstr(i1))
                s0, s1, fn = D._sizes_at_time(g, d, iv)
                ans = drv.ask('c16 sizes ' + args)
                inp = dict(deme=d, interval=[i0, i1], epoch=[ep.size_function, ep.start_size, ep.end_size, float(ep.start_time), float(ep.end_time)])
                if ans.startswith('ok '):
                    a, b = ans.split()[1:3]
                    _cmp_val(chk, 'sizes', inp, [float(s0), float(s1)], [eval_sym(a), eval_sym(b)], rtol=1e-12)
                    chk.stat('K-sizes:%s:%s' % (ep.size_function, 'cut' if (float(ep.start_time) != i0 or float(ep.end_time) != i1) else 'whole'))
                else:
                    chk.k_bad('sizes', inp, [float(s0), float(s1)], ans, 'model error')
                T = its[k]
                for t in ([0.0] if T == 0 else [0.0, T * 0.37, T]):
                    f = nf[k][idx]
                    impl = float(f(t)) if callable(f) else float(f)
                    ans = drv.ask('c16 nu %s %d %s %s %s %s %s %s %s %s' % (ep.size_function, 1 if allc else 0, common.rat(ep.start_size), common.rat(ep.end_size),
                                  tstr(float(ep.start_time)), tstr(float(ep.end_time)), tstr(i0), tstr(i1), common.rat(NeV), common.rat(t)))
                    inp2 = dict(inp, Ne=NeV, t=t, all_constant=allc)
                    if ans.startswith('ok '):
                        if T == 0 and not allc:
                            chk.k_skipped += 1      # t/T with T = 0 (root interval): never evaluated by the integrators
                        else:
                            _cmp_val(chk, 'nu', inp2, impl, eval_sym(ans.split()[1]), rtol=1e-12)
                    else:
                        chk.k_bad('nu', inp2, impl, ans, 'model error')
        # generation times
        t = float(rng.uniform(1, 1e4)); gt = float(rng.choice([25.0, 29.0, 0.5, 1.0]))
        gy = resolve(h.graph_dict(time_units='years', generation_time=gt, tmul=gt))
        _, conv = D._convert_to_generations(gy, [t])
        _cmp_num(chk, 'togen', dict(t=t, generation_time=gt), conv[0], drv.ask('c16 togen %s %s' % (common.rat(t), common.rat(gt))))

def _cmp_num(chk, op, inp, impl, ans):
    if not ans.startswith('ok '):
        chk.k_bad(op, inp, impl, ans, 'model error'); return
    _cmp_val(chk, op, inp, float(impl), float(Fraction(ans.split()[1])))

def _cmp_val(chk, op, inp, impl, model, rtol=1e-12):
    ok, err, scale = common.close(impl, model, rtol=rtol, atol=1e-300)
    if ok: chk.k_ok(op)
    else: chk.k_bad(op, inp, impl, model, err)

# ------------------------------------------------------------------------------------------------- K: wiring
PY_NAME = dict(phi='phi', xx='xx', T='T', theta='theta0', initial_t='initial_t', deme_ids='deme_ids')

def slot_to_param(s, n):
    """model slot name -> python parameter name of the n-population integrator"""
    if s in PY_NAME: return PY_NAME[s]
    m = re.match(r'^(nu|gamma|h|frozen)(\d)$', s)
    if m: return m.group(1) + (str(int(m.group(2)) + 1) if n > 1 else '')
    m = re.match(r'^M(\d)(\d)$', s)
    if m: return 'm%d%d' % (int(m.group(1)) + 1, int(m.group(2)) + 1)
    return s

def k_wiring(chk, ctx, rng):
    dadi = ctx['dadi']; drv = ctx['driver']; D = dadi.Demes.Demes; I = dadi.Integration; P = dadi.PhiManip
    names = {1: 'one_pop', 2: 'two_pops', 3: 'three_pops', 4: 'four_pops', 5: 'five_pops'}
    for n in range(1, 6):
        rec = {}
        orig = {k: getattr(I, v) for k, v in names.items()}
        def mk(name, f):
            sig = inspect.signature(f)
            def stub(*a, **k):
                b = sig.bind(*a, **k)
                rec['fn'] = name; rec['args'] = dict(b.arguments); return 'PHI-OUT'
            return stub
        try:
            for k, v in names.items(): setattr(I, v, mk(v, orig[k]))
            nu = [101.0 + k for k in range(n)]; gam = [201.0 + k for k in range(n)]; hh = [0.31 + 0.01 * k for k in range(n)]
            fr = ['frozen-flag-%d' % k for k in range(n)]
            M = np.array([[10.0 * (i + 1) + (j + 1) + 0.5 for j in range(n)] for i in range(n)])
            ids = ['pop%d' % k for k in range(n)]
            D._integrate_phi('PHI-IN', 'XX', [nu, 0.123, M, gam, hh, 7.5, fr], ids)
        finally:
            for k, v in names.items(): setattr(I, v, orig[k])
        env = dict(phi='PHI-IN', xx='XX', T=0.123, theta=7.5, deme_ids=ids, zero=0)
        for k in range(n):
            env['nu%d' % k] = nu[k]; env['gamma%d' % k] = gam[k]; env['h%d' % k] = hh[k]; env['frozen%d' % k] = fr[k]
            for j in range(n): env['M%d%d' % (k, j)] = M[k, j]
        ans = drv.ask('c16 wire %d' % n)
        inp = dict(npop=n)
        if not ans.startswith('ok '):
            chk.k_bad('wire', inp, rec.get('fn'), ans, 'model error'); continue
        _, fn, pairs = ans.split(' ', 2)
        model = {}
        for p in pairs.split(','):
            a, b = p.split('=')
            model[slot_to_param(a, n)] = env.get(b, 'UNKNOWN:' + b)
        impl = rec.get('args', {})
        bad = [k for k in set(model) | set(impl) if not _same(model.get(k, 'ABSENT'), impl.get(k, 'ABSENT'))]
        if fn != rec.get('fn') or bad:
            chk.k_bad('wire', inp, dict(fn=rec.get('fn'), args={k: repr(impl.get(k)) for k in bad}), dict(fn=fn, args={k: repr(model.get(k)) for k in bad}), 'keyword wiring differs')
        else:
            chk.k_ok('wire')
    # ---- _split_phi / _admix_new_pop_phi / _admix_phi with recording stubs
    targets = ['phi_1D_to_2D', 'phi_2D_to_3D_split_1', 'phi_2D_to_3D_split_2', 'phi_2D_to_3D_admix', 'phi_3D_to_4D', 'phi_4D_to_5D'] \
        + [x for v in S.PULSE_NAMES.values() for x in v]
    calls = []
    orig = {t: getattr(P, t) for t in targets}
    def mkp(name, f):
        def stub(*a, **k):
            nums = [float(x) for x in a if isinstance(x, (int, float)) and not isinstance(x, bool)]
            calls.append((name, nums))
            if name in ('phi_2D_to_3D_split_1', 'phi_2D_to_3D_split_2'):
                return f(*a, **k)           # goes on to the (stubbed) phi_2D_to_3D_admix
            return 'PHI-OUT'
        return stub
    try:
        for t in targets: setattr(P, t, mkp(t, orig[t]))
        xx = np.linspace(0, 1, 5)
        for n in range(1, 5):
            for parent in range(n):
                del calls[:]
                ids = ['p%d' % k for k in range(n)]
                D._split_phi('PHI', xx, ids, ids[parent], ids + ['new'])
                ans = drv.ask('c16 split %d %d' % (n, parent))
                inp = dict(op='_split_phi', npop=n, parent=parent)
                if not ans.startswith('ok '):
                    chk.k_bad('split', inp, calls, ans, 'model error'); continue
                _, fn, fs = ans.split()
                fs = [float(x) for x in common.parse_list(fs)]
                ok = bool(calls) and calls[0][0] == fn and calls[-1][1] == fs
                (chk.k_ok('split') if ok else chk.k_bad('split', inp, calls, dict(fn=fn, fs=fs), 'function / proportions differ'))
        for n in range(2, 5):
            for rep in range(3):
                del calls[:]
                ids = ['p%d' % k for k in range(n)]
                npar = int(rng.integers(2, n + 1))
                pi = rng.permutation(n)[:npar].tolist()
                props = [round(float(x), 3) for x in rng.dirichlet([1.0] * npar)]
                D._admix_new_pop_phi('PHI', xx, list(props), ids, [ids[i] for i in pi], ids + ['new'])
                a1 = drv.ask('c16 admixnew %d' % n)
                a2 = drv.ask('c16 sorted %d %s %s -' % (n, ','.join(str(i) for i in pi), common.fmt_list(props)))
                inp = dict(op='_admix_new_pop_phi', npop=n, parents=pi, proportions=props)
                if not (a1.startswith('ok ') and a2.startswith('ok ')):
                    chk.k_bad('admixnew', inp, calls, [a1, a2], 'model error'); continue
                _, fn, slots = a1.split()
                srt = [float(x) for x in common.parse_list(a2.split()[1])]
                want = [srt[int(s)] for s in slots.split(',')] if slots != '-' else []
                ok = len(calls) == 1 and calls[0][0] == fn and calls[0][1] == want
                (chk.k_ok('admixnew') if ok else chk.k_bad('admixnew', inp, calls, dict(fn=fn, args=want), 'function / proportions differ'))
        for n in range(2, 6):
            for dest in range(n):
                del calls[:]
                ids = ['p%d' % k for k in range(n)]
                others = [i for i in range(n) if i != dest]
                ns_ = int(rng.integers(1, len(others) + 1))
                si = rng.permutation(others)[:ns_].tolist()
                props = [round(float(rng.uniform(0.01, 0.2)), 3) for _ in si]
                D._admix_phi('PHI', xx, list(props), ids, [ids[i] for i in si], ids[dest])
                a1 = drv.ask('c16 pulse %d %d' % (n, dest))
                a2 = drv.ask('c16 sorted %d %s %s %d' % (n, ','.join(str(i) for i in si), common.fmt_list(props), dest))
                inp = dict(op='_admix_phi', npop=n, dest=dest, sources=si, proportions=props)
                if not (a1.startswith('ok ') and a2.startswith('ok ')):
                    chk.k_bad('pulse', inp, calls, [a1, a2], 'model error'); continue
                _, fn, srtflag, slots = a1.split()
                srt = [float(x) for x in common.parse_list(a2.split()[1])]
                base = srt if srtflag == '1' else props
                want = [base[int(s)] for s in slots.split(',')]
                ok = len(calls) == 1 and calls[0][0] == fn and calls[0][1] == want
                if srtflag == '0' and len(si) > 1:
                    chk.k_skipped += 1; continue      # raw list used with one source only (two populations)
                (chk.k_ok('pulse') if ok else chk.k_bad('pulse', inp, calls, dict(fn=fn, args=want), 'function / proportions differ'))
    finally:
        for t in targets: setattr(P, t, orig[t])
    # ---- _make_sorted_proportions_list, final order
    for rep in range(40):
        n = int(rng.integers(1, 6))
        k = int(rng.integers(0, n + 1))
        si = rng.permutation(n)[:k].tolist()
        props = [round(float(rng.uniform(0, 1)), 4) for _ in si]
        dest = None if rng.random() < 0.4 else int(rng.integers(n))
        impl = D._make_sorted_proportions_list(list(props), list(si), dest, list(range(n)))
        ans = drv.ask('c16 sorted %d %s %s %s' % (n, ','.join(str(i) for i in si) if si else '-', common.fmt_list(props), '-' if dest is None else dest))
        inp = dict(n=n, source_i=si, proportions=props, dest_i=dest)
        if ans.startswith('ok '):
            _cmp_val(chk, 'sorted', inp, [float(x) for x in impl], [float(x) for x in common.parse_list(ans.split()[1])])
        else:
            chk.k_bad('sorted', inp, impl, ans, 'model error')
    for rep in range(30):
        n = int(rng.integers(1, 6))
        cur = rng.permutation(20)[:n].tolist()
        k = int(rng.integers(1, n + 1))
        smp = [cur[i] for i in rng.permutation(n)[:k].tolist()]
        new_order = [cur.index(p) + 1 for p in smp]                  # the source expression, evaluated here
        ans = drv.ask('c16 neworder %s %s' % (','.join(map(str, cur)), ','.join(map(str, smp))))
        if ans.startswith('ok ') and [int(x) for x in ans.split()[1].split(',')] == new_order and [int(x) for x in ans.split()[2].split(',')] == smp:
            chk.k_ok('neworder')
        else:
            chk.k_bad('neworder', dict(current=cur, sampled=smp), new_order, ans, 'differs')

def _same(a, b):
    if isinstance(a, (list, tuple)) or isinstance(b, (list, tuple)):
        return list(a) == list(b) if isinstance(a, (list, tuple)) and isinstance(b, (list, tuple)) else False
    try:
        return bool(a == b)
    except Exception:
        return False

# ------------------------------------------------------------------------------------------------- K: export records
def k_events(chk, ctx, rng):
    """what each primitive really appends to Demes.cache vs the generated path table"""
    dadi = ctx['dadi']; drv = ctx['driver']; P = dadi.PhiManip; I = dadi.Integration; Dm = dadi.Demes
    pts = 5
    xx = dadi.Numerics.default_grid(pts)
    def phi_of(d):
        return np.ascontiguousarray(rng.uniform(0.1, 1.0, [pts] * d))
    def paths_of(fn):
        ans = drv.ask('c16 events ' + fn)
        if not ans.startswith('ok '): return None, ans
        _, resets, body = ans.split(' ', 2)
        ps = []
        for p in body.split('|'):
            ex, noop, evs = p.split(':', 2)
            ps.append((ex, noop == '1', [] if evs == '-' else evs.split(';')))
        return (resets == '1', ps), ans
    def run(fn_name, call, fvals, params, kind_hint=None, noop=False):
        """call(): invokes the primitive; compare the cache delta with the model's path"""
        Dm.cache = [Dm.Initiation(1.0)]
        before = len(Dm.cache)
        call()
        reset = not (len(Dm.cache) >= 1 and isinstance(Dm.cache[0], Dm.Initiation) and Dm.cache[0].start_sizes == [1.0] and before == 1 and fn_name != 'phi_1D')
        delta = Dm.cache[:] if fn_name == 'phi_1D' else Dm.cache[before:]
        model, raw = paths_of(fn_name)
        inp = dict(fn=fn_name, f=fvals, params={k: (v if isinstance(v, (int, float, list)) else repr(v)) for k, v in params.items()})
        if model is None:
            chk.k_bad('events', inp, [type(e).__name__ for e in delta], raw, 'model error'); return
        resets, paths = model
        live = [p for p in paths if p[0] != 'raise' and p[1] == noop]
        if kind_hint:
            hinted = [p for p in live if any(e.startswith(kind_hint) for e in p[2])]
            live = hinted or live
        ok = False; why = 'no path matches'
        for ex, np_, evs in live:
            if len(evs) != len(delta): continue
            good = True
            for ev, real in zip(evs, delta):
                if not _event_matches(drv, ev, real, fvals, params, Dm): good = False
            if good: ok = True
        if fn_name == 'phi_1D' and not resets: ok = False
        (chk.k_ok('events') if ok else chk.k_bad('events', inp, [_show_event(e) for e in delta], raw, why))
    # phi_1D
    nu = float(rng.uniform(0.5, 2))
    run('phi_1D', lambda: P.phi_1D(xx, nu=nu), [], dict(nu=nu))
    run('phi_1D_to_2D', lambda: P.phi_1D_to_2D(xx, phi_of(1)), [], {})
    for k, nm in enumerate(('phi_2D_to_3D_split_1', 'phi_2D_to_3D_split_2')):
        a = drv.ask('c16 split 2 %d' % k)          # the literal proportion the wrapper passes on (generated from its source)
        lit = [float(x) for x in common.parse_list(a.split()[2])] if a.startswith('ok ') else []
        run(nm, lambda nm=nm: getattr(P, nm)(xx, phi_of(2)), lit, {})
    f = [round(float(x), 3) for x in rng.dirichlet([1, 1, 1, 1])]
    run('phi_2D_to_3D_admix', lambda: P.phi_2D_to_3D_admix(phi_of(2), f[0], xx, xx, xx), f[:1], {})
    run('phi_3D_to_4D', lambda: P.phi_3D_to_4D(phi_of(3), f[0], f[1], xx, xx, xx, xx), f[:2], {})
    run('phi_4D_to_5D', lambda: P.phi_4D_to_5D(phi_of(4), f[0], f[1], f[2], xx, xx, xx, xx, xx), f[:3], {})
    for d, names in S.PULSE_NAMES.items():
        for nm in names:
            fv = [round(float(rng.uniform(0.02, 0.2)), 3) for _ in range(d - 1)]
            run(nm, lambda nm=nm, fv=fv, d=d: getattr(P, nm)(phi_of(d), *(fv + [xx] * d)), fv, {})
    for d in (2, 3, 5):
        k = int(rng.integers(1, d + 1))
        run('remove_pop', lambda d=d, k=k: P.remove_pop(phi_of(d), xx, k), [], dict(popnum=k))
        o = (rng.permutation(d) + 1).tolist()
        run('reorder_pops', lambda d=d, o=o: P.reorder_pops(phi_of(d), o), [], dict(neworder=o))
    names = {1: 'one_pop', 2: 'two_pops', 3: 'three_pops', 4: 'four_pops', 5: 'five_pops'}
    for d in range(1, 6):
        T = 0.004
        nus = [round(float(rng.uniform(0.5, 2)), 3) for _ in range(d)]
        ms = {(i, j): round(float(rng.uniform(0.1, 1)), 3) for i in range(d) for j in range(d) if i != j}
        def kwargs(vary):
            kw = {}
            for i in range(d):
                key = 'nu%d' % (i + 1) if d > 1 else 'nu'
                kw[key] = (lambda t, v=nus[i]: v * (1 + t)) if (vary and i == 0) else nus[i]
                for j in range(d):
                    if i != j: kw['m%d%d' % (i + 1, j + 1)] = ms[(i, j)]
            return kw
        params = dict(T=T, nus=nus, ms={'%d%d' % k: v for k, v in ms.items()}, d=d)
        f_ = getattr(I, names[d])
        run(names[d], lambda: f_(phi_of(d), xx, T, **kwargs(False)), [], dict(params, vary=False), kind_hint='const')
        run(names[d], lambda: f_(phi_of(d), xx, T, **kwargs(True)), [], dict(params, vary=True), kind_hint='nonconst')
        run(names[d], lambda: f_(phi_of(d), xx, 0.0, **kwargs(False)), [], dict(params, T=0.0, vary=False), noop=True)
    run('one_pop', lambda: I.one_pop(phi_of(1), xx, 0.01, 1.0, frozen=True), [], dict(frozen=True), noop=True)

def _show_event(e):
    d = {k: v for k, v in vars(e).items() if k not in ('history',)}
    return '%s%s' % (type(e).__name__, {k: (v if not isinstance(v, np.ndarray) else v.tolist()) for k, v in d.items()})

def _event_matches(drv, ev, real, fvals, params, Dm):
    parts = ev.split('/')
    k = parts[0]
    def nz(xs): return [x for x in xs if x != 0]
    try:
        if k == 'init':
            return isinstance(real, Dm.Initiation) and (parts[1] != '1' or real.start_sizes == [params.get('nu', 1.0)])
        if k == 'split':
            if not isinstance(real, Dm.Split): return False
            ans = drv.ask('c16 splitprops %s %s' % (parts[1], common.fmt_list(fvals)))
            if not ans.startswith('ok '): return False
            want = [float(x) for x in common.parse_list(ans.split()[2])]
            return common.close([float(x) for x in real.proportions], want, rtol=1e-12)[0]
        if k == 'pulse':
            if not isinstance(real, Dm.Pulse): return False
            src = [int(x) for x in parts[1].split(',')]; dest = int(parts[2]); pidx = [int(x) for x in parts[3].split(',')]
            props = [fvals[i] if i < len(fvals) else None for i in pidx]
            return real.dest == dest and list(real.sources) == src and [float(x) for x in real.proportions] == props
        if k == 'remove':
            return isinstance(real, Dm.Remove) and (parts[1] != '1' or real.removed == params['popnum'])
        if k == 'reorder':
            return isinstance(real, Dm.Reorder) and (parts[1] != '1' or list(real.neworder) == list(params['neworder']))
        if k in ('const', 'nonconst'):
            d = params['d']
            def val(slot, t=None):
                m = re.match(r'^nu(\d)$', slot)
                if m:
                    i = int(m.group(1)); v = params['nus'][i]
                    return v * (1 + t) if (params.get('vary') and i == 0 and t is not None) else v
                m = re.match(r'^M(\d)(\d)$', slot)
                if m: return params['ms']['%s%s' % (m.group(1), m.group(2))]
                return None
            def vals(s, t=None): return [] if s == '-' else [val(x, t) for x in s.split(',')]
            if k == 'const':
                if type(real).__name__ != 'IntegrationConst': return False
                return (parts[1] != '1' or abs(real.duration - params['T']) < 1e-15) and list(real.start_sizes) == vals(parts[2]) and list(real.mig) == vals(parts[3])
            if type(real).__name__ != 'IntegrationNonConst': return False
            h0 = real.history[0]; hl = real.history[-1]
            ok = [float(x) for x in h0[1]] == vals(parts[1], 0.0) and [float(x) for x in h0[2]] == vals(parts[2])
            ok = ok and common.close([float(x) for x in hl[1]], vals(parts[3], hl[0]), rtol=1e-12)[0] and [float(x) for x in hl[2]] == vals(parts[4])
            return ok and abs(real.duration - params['T']) < 1e-12
    except Exception:
        return False
    return False

def k_export(chk, ctx, rng, n):
    """`output`: end times of the records and the Nref / generation_time scalings of sizes, times, rates"""
    dadi = ctx['dadi']; drv = ctx['driver']; Dm = dadi.Demes
    for it in range(n):
        ops, d = S.random_program(rng, max_pops=3, allow_admix=False)
        S.run_program(dadi, ops, 6)
        Nref = float(rng.choice([100.0, 1000.0, 7300.0])); gt = None if rng.random() < 0.5 else float(rng.choice([1.0, 25.0, 29.5]))
        durs = [0.0 if e.duration == INF else float(e.duration) for e in Dm.cache]
        was_pulse = [isinstance(e, Dm.Pulse) and len(e.sources) > 0 for e in Dm.cache]
        try:
            g, record = output_with_record(dadi, Nref=Nref, generation_time=gt)
        except Exception as e:
            chk.k_skipped += 1; chk.stat('K-export:output-raises'); continue
        g_ = 1.0 if gt is None else gt
        ans = drv.ask('c16 endtimes %s' % common.fmt_list(durs))
        inp = dict(ops=enc(ops), Nref=Nref, generation_time=gt)
        if not ans.startswith('ok '):
            chk.k_bad('endtimes', inp, None, ans, 'model error'); continue
        model = [float(x) for x in common.parse_list(ans.split()[1])]
        impl = [float(e.end_time) / ((2 * Nref * g_) if p else 1.0) for e, p in zip(record, was_pulse)]
        _cmp_val(chk, 'endtimes', inp, impl, model, rtol=1e-12)
        # scalings: every integration record's deme has an epoch ending at expTime(end_time) with start size expSize(nu)
        for e, et in zip(record, model):
            if not isinstance(e, Dm.Integration): continue
            for di, name in enumerate(e.deme_ids):
                ans = drv.ask('c16 export %s %s %s %s %s' % (common.rat(Nref), common.rat(g_), common.rat(et), common.rat(float(e.start_sizes[di])), '0'))
                if not ans.startswith('ok '):
                    chk.k_bad('export', inp, None, ans, 'model error'); continue
                mt, ms, _ = [float(Fraction(x)) for x in ans.split()[1:4]]
                eps = [ep for ep in g[name].epochs if abs(ep.end_time - mt) <= 1e-9 * max(1.0, mt)]
                if len(eps) == 1 and abs(eps[0].start_size - ms) <= 1e-9 * ms: chk.k_ok('export')
                else: chk.k_bad('export', dict(inp, deme=name), [(ep.end_time, ep.start_size) for ep in g[name].epochs], [mt, ms], 'no epoch with the scaled end time / start size')
            k = 0
            for dest in e.deme_ids:
                for src in e.deme_ids:
                    if dest == src: continue
                    r = float(e.mig[k]); k += 1
                    if r == 0: continue
                    ans = drv.ask('c16 export %s %s %s %s %s' % (common.rat(Nref), common.rat(g_), '0', '1', common.rat(r)))
                    mr = float(Fraction(ans.split()[3]))
                    hit = [m for m in g.migrations if getattr(m, 'source', None) == src and getattr(m, 'dest', None) == dest and abs(m.rate - mr) <= 1e-9 * mr]
                    (chk.k_ok('export') if hit else chk.k_bad('export', dict(inp, source=src, dest=dest), [str(m) for m in g.migrations][:6], mr, 'no migration with the scaled rate'))

def k_names(chk, ctx, rng, n_big):
    """`output`: the deme names attached to Reorder / Remove records vs the generated propagation rule — every permutation of three
    populations, a sample of those of four and five"""
    import itertools
    dadi = ctx['dadi']; drv = ctx['driver']; Dm = dadi.Demes
    z = lambda k: [[0.0] * k for _ in range(k)]
    def grow(d):
        ops = [dict(op='phi1d', nu=1.0), dict(op='integrate', T=0.002, nu=[('c', 1.0)], M=z(1), frozen=[False])]
        for k in range(1, d):
            ops += [dict(op='newpop', props=[1.0] + [0.0] * (k - 1)),
                    dict(op='integrate', T=0.002, nu=[('c', 1.0 + 0.1 * j) for j in range(k + 1)], M=z(k + 1), frozen=[False] * (k + 1))]
        return ops
    perms = [list(p) for p in itertools.permutations(range(3))]
    for d in (4, 5):
        allp = [list(p) for p in itertools.permutations(range(d))]
        perms += [allp[int(i)] for i in rng.choice(len(allp), size=n_big, replace=False)]
    for o in perms:
        d = len(o)
        rm = int(rng.integers(d))
        ops = grow(d) + [dict(op='reorder', order=o), dict(op='integrate', T=0.002, nu=[('c', 0.5 + 0.2 * j) for j in range(d)], M=z(d), frozen=[False] * d),
                         dict(op='remove', axis=rm)]
        S.run_program(dadi, ops, 4)
        try:
            _, record = output_with_record(dadi, Nref=1000.0)
        except Exception as e:
            chk.k_skipped += 1; chk.stat('K-names:output-raises'); continue
        for older, younger in zip(record[:-1], record[1:]):
            if not isinstance(younger, (Dm.Reorder, Dm.Remove)): continue
            names = list(older.deme_ids)
            num = {nm: 10 + i for i, nm in enumerate(names)}
            impl = [num.get(x, -1) for x in younger.deme_ids]
            if isinstance(younger, Dm.Reorder):
                ans = drv.ask('c16 reordernames %s %s' % (','.join(str(num[x]) for x in names), ','.join(str(x) for x in younger.neworder)))
                op = 'reordernames'; inp = dict(neworder=list(younger.neworder), older=names, younger=list(younger.deme_ids))
            else:
                ans = drv.ask('c16 removenames %s %d' % (','.join(str(num[x]) for x in names), younger.removed))
                op = 'removenames'; inp = dict(removed=younger.removed, older=names, younger=list(younger.deme_ids))
            if ans.startswith('ok ') and [int(x) for x in ans.split()[1].split(',')] == impl: chk.k_ok(op)
            else: chk.k_bad(op, inp, impl, ans, 'deme names after the record differ')

def k_slice(chk, ctx, rng, n):
    """`DemesUtil.slice(g, t)`: start time and every epoch (end time, start size, end size, size function) of every surviving deme
    of random multi-epoch graphs vs the translated `_shift_deme_time` / `_size_at`"""
    dadi = ctx['dadi']; drv = ctx['driver']
    for it in range(n):
        h = S.History(rng, max_live=4, small_Ne=True, cut_prob=0.85, fn_probs=(0.2, 0.45, 0.35))
        gd = h.graph_dict(); g = resolve(gd)
        tmax = h.bounds[0] * 1.2
        cands = [float(rng.uniform(0, tmax)) for _ in range(3)] + [float(b) for b in h.bounds[:-1] if rng.random() < 0.3]
        for t in cands:
            if t <= 0: continue
            src = resolve(gd).asdict()
            try:
                g2 = dadi.Demes.DemesUtil.slice(g, t)
            except Exception as e:
                chk.k_skipped += 1; chk.stat('K-slice:raises:' + type(e).__name__); continue
            for d in src['demes']:
                if d['start_time'] <= t: continue
                eps = ';'.join('%s:%s:%s:%s' % (e['size_function'], common.rat(e['start_size']), common.rat(e['end_size']), common.rat(e['end_time'])) for e in d['epochs'])
                ans = drv.ask('c16 slice %s %s %s' % (common.rat(t), tstr(float(d['start_time'])), eps))
                inp = dict(graph=enc(gd), t=t, deme=d['name'])
                if not ans.startswith('ok '):
                    chk.k_bad('slice', inp, None, ans, 'model error'); continue
                _, start, body = ans.split(' ', 2)
                real = g2[d['name']]
                model = []
                for x in body.split(';'):
                    fn, ss, es, et = x.split(':')
                    model.append((fn, float(Fraction(ss)), None if es == 'none' else eval_sym(es), float(Fraction(et))))
                impl = [(e.size_function, float(e.start_size), float(e.end_size), float(e.end_time)) for e in real.epochs]
                ok = len(model) == len(impl) and (start == 'inf') == (real.start_time == INF) and (start == 'inf' or abs(float(Fraction(start)) - real.start_time) <= 1e-12 * max(1.0, abs(real.start_time)))
                if ok:
                    for m, i_ in zip(model, impl):
                        # demes normalises a non-constant epoch whose sizes coincide to 'constant'; compare numbers
                        if m[2] is None or not common.close([i_[1], i_[2], i_[3]], [m[1], m[2], m[3]], rtol=1e-12, atol=1e-300)[0]: ok = False
                        if m[0] != i_[0] and not (i_[1] == i_[2]): ok = False
                (chk.k_ok('slice') if ok else chk.k_bad('slice', inp, impl, model, 'sliced epochs differ'))
                cut = [e for e in d['epochs'] if e['end_time'] < t]
                chk.stat('K-slice:cut-epoch-%s' % ('first' if (len(model) == 1) else 'later'))

# ------------------------------------------------------------------------------------------------- L3
def scale_graph(gd, c=1.0, tmul=1.0, unit=None, generation_time=None):
    """the same history with sizes and times multiplied by c and rates divided by c; times further multiplied by tmul and
    declared in `unit` with `generation_time` (years = generations x generation_time)"""
    g = copy.deepcopy(gd)
    def T(t): return t if t == INF else t * c * tmul
    for d in g['demes']:
        if 'start_time' in d: d['start_time'] = T(d['start_time'])
        for e in d['epochs']:
            e['end_time'] = T(e['end_time']); e['start_size'] *= c
            if 'end_size' in e: e['end_size'] *= c
    for m in g.get('migrations', []):
        m['rate'] /= c; m['start_time'] = T(m['start_time']); m['end_time'] = T(m['end_time'])
    for p in g.get('pulses', []):
        p['time'] = T(p['time'])
    if unit is not None:
        g['time_units'] = unit; g['generation_time'] = generation_time
    return g

def eval_case(chk, dadi, inp_json):
    """evaluate one L3 case from its JSON description (used by the search and by replay)"""
    inp = dec(inp_json)
    kind = inp['kind']; key = inp['key']; pts = inp['pts']; ns = inp['ns']; cost = inp.get('cost', 0.0)
    if kind == 'export':
        return run_export_case(chk, dadi, key, inp_json, inp['ops'], ns, pts, inp['Nref'], inp['generation_time'], cost)
    gd = inp['graph']; samples = [tuple(x) for x in inp['samples']]
    sd = [x for x, _ in samples]; st = [t for _, t in samples]
    ndim = inp.get('ndim', len(sd))
    base = lambda p: demes_sfs(dadi, gd, sd, st, ns, p)
    if kind == 'graph':
        ops = inp['ops']
        what = 'demes graph (samples %s) vs the hand-written dadi program of the same history (%d axes)' % (samples, ndim)
        return check_pair(chk, dadi, key, what, inp_json, base, lambda p: prog_sfs(dadi, ops, ns, p), pts, ndim, cost)
    if kind == 'scale':
        c = inp['c']; g2 = scale_graph(gd, c)
        return check_pair(chk, dadi, key, 'graph with sizes and times multiplied by %g and rates divided by it' % c, inp_json,
                          lambda p: demes_sfs(dadi, g2, sd, [t * c for t in st], ns, p), base, pts, ndim, cost)
    if kind == 'units':
        gt = inp['generation_time']; g3 = scale_graph(gd, 1.0, gt, inp['unit'], gt)
        return check_pair(chk, dadi, key, 'graph in %s with generation_time %g' % (inp['unit'], gt), inp_json,
                          lambda p: demes_sfs(dadi, g3, sd, [t * gt for t in st], ns, p), base, pts, ndim, cost)
    if kind == 'order':
        perm = inp['perm']
        return check_pair(chk, dadi, key, 'sampled demes listed in the order %s' % perm, inp_json,
                          lambda p: demes_sfs(dadi, gd, [sd[i] for i in perm], [st[i] for i in perm], [ns[i] for i in perm], p),
                          lambda p: np.transpose(base(p), perm), pts, ndim, cost)
    if kind == 'Ne':
        f = inp['factor']
        return check_pair(chk, dadi, key, 'Ne = %g x root size with theta scaled by the same factor (same mutation rate per generation)' % f, inp_json,
                          lambda p: demes_sfs(dadi, gd, sd, st, ns, p, Ne=inp['Ne'] * f, theta=f), base, pts, ndim, cost)
    raise common.Infra('unknown case kind %r' % kind)

def run_export_case(chk, dadi, key, inp_json, ops, ns, pts, Nref, gt, cost):
    nu0 = float(ops[0].get('nu', 1.0))
    ndim = max(len(o['nu']) for o in ops if o['op'] == 'integrate')
    def exported(p):
        """run the program, export it, return the exported graph and the names of the final demes"""
        S.run_program(dadi, ops, p)
        g, record = output_with_record(dadi, Nref=Nref, generation_time=gt)
        return list(record[-1].deme_ids), g.asdict()
    def fa(p):
        ids, gd = exported(p)
        # default reference size at import = exported root size nu0*Nref: theta = 4 Ne mu is nu0 times the program's
        return demes_sfs(dadi, gd, ids, [0.0] * len(ids), ns, p) * nu0
    what = 'dadi program (%s) exported with Demes.output(Nref=%g, generation_time=%r) and re-imported' % (' '.join(o['op'] for o in ops), Nref, gt)
    v = check_pair(chk, dadi, key, what, inp_json, fa, lambda p: prog_sfs(dadi, ops, ns, p), pts, ndim, cost)
    if v in ('tight', 'converging', 'small') and nu0 != 1.0:
        chk.l3(('export-Ne', nu0))
        def fb(p):
            ids, gd = exported(p)
            return demes_sfs(dadi, gd, ids, [0.0] * len(ids), ns, p, Ne=Nref)
        check_pair(chk, dadi, 'Ne:root-size:export', what + ', re-imported with Ne = Nref (root relative size %g)' % nu0, inp_json, fb,
                   lambda p: prog_sfs(dadi, ops, ns, p), pts, ndim, cost)
    return v

def pick_pts(ops):
    dmax = max([len(o['nu']) for o in ops if o['op'] == 'integrate'] + [1])
    return {1: 16, 2: 14, 3: 10, 4: 8, 5: 7}[dmax], dmax

def graph_features(h, ops):
    fz5 = any(o['op'] == 'integrate' and len(o['nu']) == 5 and o['frozen'][3] != o['frozen'][4] for o in ops)
    anc = any(t > 0 for _, t in h.samples)
    allanc = all(t > 0 for _, t in h.samples)
    extra = ''
    if allanc:
        ts = min(t for _, t in h.samples)
        if any(e['size_function'] == 'linear' and e['start_time'] > ts > e['end_time'] for d in h.demes for e in d['epochs']):
            extra += ':slice-linear'
        youngest = [n for n, t in h.samples if t == ts]
        if any(set(d['ancestors']) & set(youngest) and d['start_time'] > ts for d in h.demes):
            extra += ':descendants'
    return fz5, anc, allanc, extra

def l3_graph_vs_program(chk, ctx, rng, n, want_ancient, budget):
    """a spectrum computed from the graph equals the spectrum of the hand-written dadi program of the same history"""
    dadi = ctx['dadi']
    done = 0; tries = 0
    while done < n and tries < 8 * n:
        tries += 1
        if DEADLINE[0] is not None and time.time() > DEADLINE[0] + 30: chk.stat('stopped:deadline'); break
        force = None
        if want_ancient and done % 4 == 1: force = ['split', 'split', 'branch']      # reach 4-5 axes with a frozen branch
        h = S.History(rng, want_ancient=want_ancient, force=force, small_Ne=want_ancient)
        if want_ancient and not any(t > 0 for _, t in h.samples): continue
        ops, axes = h.program(frozen_nu=1.0 / h.Ne)
        pts, dmax = pick_pts(ops)
        cost = prog_cost(ops, pts)
        if cost > budget: chk.stat('skipped:too-slow'); continue
        ns = [int(rng.integers(2, 5)) for _ in h.samples]
        fz5, anc, allanc, extra = graph_features(h, ops)
        fam = 'ancient' if anc else 'graph'
        key = fam + (':frozen5' if fz5 else '') + (':only-ancient' if allanc else '') + extra
        inp = dict(kind='graph', key=key, graph=h.graph_dict(), samples=h.samples, ops=ops, ns=ns, pts=pts, ndim=dmax, cost=2 * cost, describe=h.describe())
        chk.l3((fam, tuple(h.describe()['events']), dmax, tuple(h.describe()['fns'])))
        v = eval_case(chk, dadi, enc(inp))
        if v == 'limit': continue
        done += 1
        chk.stat('%s:axes=%d' % (fam, dmax))
        for k in h.describe()['events']: chk.stat('event:' + k)
        for f in h.describe()['fns']: chk.stat('sizefn:' + f)
        if h.describe()['sym']: chk.stat('graphs-with-symmetric-migration')
        if h.describe()['migrations']: chk.stat('graphs-with-migration')
        if anc: chk.stat('ancient:' + ('only' if allanc else 'mixed'))
        chk.sample(dict(family=fam, events=h.describe()['events'], samples=h.samples, axes=dmax, verdict=v))

def l3_slice(chk, ctx, rng, n, budget):
    """only ancient samples (the graph is sliced at the youngest sample time): multi-epoch demes of mixed size functions, the slice time
    inside the first / a middle / the last epoch of a deme or exactly at an epoch boundary, that deme sampled or an unsampled contemporary"""
    dadi = ctx['dadi']
    done = 0; tries = 0
    while done < n and tries < 10 * n:
        tries += 1
        if DEADLINE[0] is not None and time.time() > DEADLINE[0] + 30: chk.stat('stopped:deadline'); break
        mode = S.SLICE_MODES[tries % 4]
        r = S.slice_history(rng, mode, sampled_target=(tries % 3 != 0))
        if r is None: continue
        h, info = r
        ops, axes = h.program(frozen_nu=1.0 / h.Ne)
        pts, dmax = pick_pts(ops)
        cost = prog_cost(ops, pts)
        if cost > budget: chk.stat('skipped:too-slow'); continue
        ns = [int(rng.integers(2, 5)) for _ in h.samples]
        fz5, anc, allanc, extra = graph_features(h, ops)
        key = 'ancient:only-ancient' + extra
        inp = dict(kind='graph', key=key, graph=h.graph_dict(), samples=h.samples, ops=ops, ns=ns, pts=pts, ndim=dmax, cost=2 * cost, describe=h.describe(), slice=info)
        chk.l3(('slice', mode, info['target_sampled'], info['cut_epoch_index'], tuple(info['cut_fns']), tuple(h.describe()['events'])))
        v = eval_case(chk, dadi, enc(inp))
        if v == 'limit': continue
        done += 1
        chk.stat('slice:%s:%s' % (mode, 'sampled-deme' if info['target_sampled'] else 'unsampled-contemporary'))
        chk.stat('slice:cut-epoch:%s' % ('boundary' if mode == 'boundary' else ('first' if info['cut_epoch_index'] == 0 else 'later')))
        for f in info['cut_fns']: chk.stat('slice:cut-fn:' + f)
        chk.sample(dict(family='slice', mode=mode, info=info, samples=h.samples, verdict=v), cap=8)

def l3_metamorphic(chk, ctx, rng, n, budget):
    """units, scale, explicit reference size, order of the sampled demes"""
    dadi = ctx['dadi']
    done = 0; tries = 0
    while done < n and tries < 8 * n:
        tries += 1
        if DEADLINE[0] is not None and time.time() > DEADLINE[0] + 30: chk.stat('stopped:deadline'); break
        h = S.History(rng, want_ancient=(rng.random() < 0.25), max_live=4, small_Ne=True)
        ops, _ = h.program(frozen_nu=1.0 / h.Ne)
        pts, dmax = pick_pts(ops)
        cost = prog_cost(ops, pts)
        if cost > budget / 4: chk.stat('skipped:too-slow'); continue
        sd = [x for x, _ in h.samples]; st = [t for _, t in h.samples]
        ns = [int(rng.integers(2, 5)) for _ in sd]
        gd = h.graph_dict()
        try:
            demes_sfs(dadi, gd, sd, st, ns, pts)
        except Exception:
            chk.stat('metamorphic:base-raises'); continue       # reported by the graph-vs-program family; nothing to relate here
        done += 1
        anc = any(t > 0 for t in st)
        common_ = dict(graph=gd, samples=h.samples, ns=ns, pts=pts, ndim=dmax, cost=2 * cost, describe=h.describe(), Ne=h.Ne)
        # the frozen branch of an ancient sample keeps size 1 in every unit system: a large factor makes 1/Ne (and the time step) tiny
        c = float(rng.choice([0.5, 3.0, 2.0, 0.37])) if anc else float(rng.choice([0.5, 3.0, 10.0, 0.37, 1000.0]))
        chk.l3(('scale', c, dmax, anc))
        eval_case(chk, dadi, enc(dict(common_, kind='scale', key='scale', c=c, cost=2 * cost * (max(1.0, c) if anc else 1.0))))
        gt = float(rng.choice([25.0, 29.0, 0.5, 1.0])); unit = 'years' if rng.random() < 0.8 else 'centuries'
        chk.l3(('units', unit, gt, dmax, anc))
        eval_case(chk, dadi, enc(dict(common_, kind='units', key='units', unit=unit, generation_time=gt)))
        if len(sd) > 1:
            perm = rng.permutation(len(sd)).tolist()
            chk.l3(('order', tuple(perm), dmax, anc))
            eval_case(chk, dadi, enc(dict(common_, kind='order', key='order', perm=perm)))
        f = float(rng.choice([0.5, 2.0, 1.7, 0.31]))
        chk.l3(('Ne', f, dmax, anc))
        eval_case(chk, dadi, enc(dict(common_, kind='Ne', key='Ne:root-size', factor=f)))
        chk.stat('metamorphic:histories')

def export_features(ops):
    f = []
    for o in ops:
        if o['op'] == 'pulse':
            d = len(o['props'])
            if d == 5: f.append('pulse5D')
            if d == 4 and o['dest'] == 3: f.append('pulse4D-into-4')
        if o['op'] == 'newpop' and sum(1 for x in o['props'] if x != 0) > 1: f.append('admixture')
    for a, b in zip(ops[:-1], ops[1:]):
        if a['op'] == 'pulse' and b['op'] == 'newpop': f.append('pulse-then-newpop')
    return sorted(set(f))

def l3_export(chk, ctx, rng, n, budget):
    """a random neutral dadi program, exported with Demes.output and re-imported, gives the program's spectrum"""
    dadi = ctx['dadi']
    done = 0; tries = 0
    while done < n and tries < 8 * n:
        tries += 1
        if DEADLINE[0] is not None and time.time() > DEADLINE[0] + 30: chk.stat('stopped:deadline'); break
        # three programs in four are free of admixture and of pulse-then-new-population: those touched by the open finding F-16f
        # (re-import of an exported admixture) are masked by it, the export clause keeps its coverage through the others
        clean = rng.random() < 0.72
        ops, d = S.random_program(rng, max_pops=int(rng.choice([2, 3, 3, 4, 5, 5])), p_reorder=0.45, clean=clean)
        pts, dmax = pick_pts(ops)
        cost = prog_cost(ops, pts)
        if cost > budget / 2: chk.stat('skipped:too-slow'); continue
        done += 1
        ns = [int(rng.integers(2, 4)) for _ in range(d)]
        Nref = float(rng.choice([100.0, 1000.0, 7300.0, 12345.0])); gt = None if rng.random() < 0.4 else float(rng.choice([1.0, 25.0, 29.5]))
        feats = export_features(ops)
        key = 'export' + ''.join(':' + x for x in feats)
        inp = dict(kind='export', key=key, ops=ops, ns=ns, pts=pts, Nref=Nref, generation_time=gt, cost=2 * cost)
        chk.l3(('export', tuple(o['op'] for o in ops), dmax))
        eval_case(chk, dadi, enc(inp))
        chk.stat('export:programs')
        chk.stat('export:pops=%d' % dmax)
        if not ({'admixture', 'pulse-then-newpop'} & set(feats)): chk.stat('export:programs-free-of-admixture-and-pulse-then-newpop')
        for x in feats: chk.stat('export:' + x)
        for o in ops: chk.stat('export-op:' + o['op'])
        for a, b in zip(ops[:-1], ops[1:]):
            if a['op'] == 'reorder':
                kind = 'involution' if S.is_involution(a['order']) else 'non-involutive'
                chk.stat('export-reorder:%dD:%s:%s' % (len(a['order']), kind, 'then-integrate' if b['op'] == 'integrate' else 'other'))
        if ops[-1]['op'] == 'reorder':
            chk.stat('export-reorder:%dD:%s:final' % (len(ops[-1]['order']), 'involution' if S.is_involution(ops[-1]['order']) else 'non-involutive'))
    n_ = chk.stats.get('export:programs', 0)
    if n_:
        share = chk.stats.get('export:programs-free-of-admixture-and-pulse-then-newpop', 0) / float(n_)
        chk.stats['export:share-free-of-admixture-and-pulse-then-newpop'] = round(share, 3)
        chk.notes.append('export programs free of admixture and of pulse-then-newpop: %d of %d (%.0f %%)' % (
            chk.stats.get('export:programs-free-of-admixture-and-pulse-then-newpop', 0), n_, 100 * share))

# ------------------------------------------------------------------------------------------------- fixed edge cases
def edge_graph(kind):
    """small deterministic histories (dict for demes.Builder.fromdict, samples, program ops)"""
    if kind in ('slice-linear', 'slice-exponential'):
        fn = kind.split('-')[1]
        gd = dict(time_units='generations', demes=[
            dict(name='R', epochs=[dict(end_time=50, start_size=100)]),
            dict(name='A', ancestors=['R'], epochs=[dict(end_time=0, start_size=80, end_size=160, size_function=fn)]),
            dict(name='B', ancestors=['R'], epochs=[dict(end_time=0, start_size=60)])])
        samples = [('A', 20.0), ('B', 10.0)]
        def n(t): return (80 * (160 / 80) ** ((50 - t) / 50) if fn == 'exponential' else 80 + 80 * (50 - t) / 50) / 100
        ops = [dict(op='phi1d', nu=1.0), dict(op='newpop', props=[1.0]),
               dict(op='integrate', T=30 / 200, nu=[('e' if fn == 'exponential' else 'l', n(50), n(20)), ('c', 0.6)], M=[[0, 0], [0, 0]], frozen=[False, False]),
               dict(op='newpop', props=[1.0, 0.0]),
               dict(op='integrate', T=10 / 200, nu=[('e' if fn == 'exponential' else 'l', n(20), n(10)), ('c', 0.6), ('c', 0.01)], M=[[0] * 3] * 3, frozen=[False, False, True]),
               dict(op='remove', axis=0), dict(op='reorder', order=[1, 0])]
        return gd, samples, ops
    if kind in ('slice-exp-second-epoch', 'slice-linear-third-epoch'):
        # a deme that is constant, then grows (second epoch exponential / third epoch linear), sampled only inside the growth
        if kind == 'slice-exp-second-epoch':
            epsA = [dict(end_time=600, start_size=100, end_size=100, size_function='constant'),
                    dict(end_time=0, start_size=100, end_size=800, size_function='exponential')]
            ts = 300.0
        else:
            epsA = [dict(end_time=700, start_size=100, end_size=100, size_function='constant'),
                    dict(end_time=500, start_size=100, end_size=250, size_function='exponential'),
                    dict(end_time=0, start_size=250, end_size=900, size_function='linear')]
            ts = 200.0
        gd = dict(time_units='generations', demes=[
            dict(name='R', epochs=[dict(end_time=1000, start_size=200)]),
            dict(name='A', ancestors=['R'], epochs=epsA),
            dict(name='B', ancestors=['R'], epochs=[dict(end_time=0, start_size=150)])])
        samples = [('A', ts), ('B', ts)]
        Ne = 200.0
        def szA(t):
            st = 1000.0
            for e in epsA:
                if st >= t >= e['end_time']:
                    return S.size_at(dict(start_time=st, end_time=e['end_time'], start_size=e['start_size'], end_size=e['end_size'], size_function=e['size_function']), t)
                st = e['end_time']
        ops = [dict(op='phi1d', nu=1.0), dict(op='newpop', props=[1.0])]
        st = 1000.0
        for e in epsA:
            lo = max(e['end_time'], ts)
            k = {'constant': 'c', 'exponential': 'e', 'linear': 'l'}[e['size_function']]
            nuA = ('c', e['start_size'] / Ne) if k == 'c' else (k, szA(st) / Ne if st != 1000.0 or k != 'c' else e['start_size'] / Ne, szA(lo) / Ne)
            if k != 'c': nuA = (k, e['start_size'] / Ne, szA(lo) / Ne)
            ops.append(dict(op='integrate', T=(st - lo) / (2 * Ne), nu=[nuA, ('c', 150 / Ne)], M=[[0, 0], [0, 0]], frozen=[False, False]))
            st = e['end_time']
            if lo == ts: break
        return gd, samples, ops
    if kind == 'only-ancient-descendants':
        gd = dict(time_units='generations', demes=[
            dict(name='R', epochs=[dict(end_time=50, start_size=100)]),
            dict(name='A', ancestors=['R'], epochs=[dict(end_time=0, start_size=80)]),
            dict(name='B', ancestors=['R'], epochs=[dict(end_time=0, start_size=60)]),
            dict(name='C', ancestors=['A'], start_time=30, epochs=[dict(end_time=0, start_size=60)])])
        samples = [('A', 10.0), ('B', 10.0), ('C', 10.0)]
        ops = [dict(op='phi1d', nu=1.0), dict(op='newpop', props=[1.0]),
               dict(op='integrate', T=20 / 200, nu=[('c', 0.8), ('c', 0.6)], M=[[0, 0], [0, 0]], frozen=[False, False]),
               dict(op='newpop', props=[1.0, 0.0]),
               dict(op='integrate', T=20 / 200, nu=[('c', 0.8), ('c', 0.6), ('c', 0.6)], M=[[0] * 3] * 3, frozen=[False] * 3)]
        return gd, samples, ops
    if kind == 'five-demes-frozen':
        gd = dict(time_units='generations', demes=[
            dict(name='R', epochs=[dict(end_time=4.0, start_size=10)]),
            dict(name='A', ancestors=['R'], epochs=[dict(end_time=0, start_size=8)]),
            dict(name='B', ancestors=['R'], epochs=[dict(end_time=0, start_size=12)]),
            dict(name='C', ancestors=['A'], start_time=3.0, epochs=[dict(end_time=0, start_size=6)]),
            dict(name='D', ancestors=['B'], start_time=2.0, epochs=[dict(end_time=0, start_size=9)])])
        samples = [('A', 0.0), ('D', 0.0), ('C', 0.8)]
        z = lambda k: [[0.0] * k for _ in range(k)]
        ops = [dict(op='phi1d', nu=1.0), dict(op='newpop', props=[1.0]),
               dict(op='integrate', T=1.0 / 20, nu=[('c', 0.8), ('c', 1.2)], M=z(2), frozen=[False] * 2),
               dict(op='newpop', props=[1.0, 0.0]),
               dict(op='integrate', T=1.0 / 20, nu=[('c', 0.8), ('c', 1.2), ('c', 0.6)], M=z(3), frozen=[False] * 3),
               dict(op='newpop', props=[0.0, 1.0, 0.0]),
               dict(op='integrate', T=1.2 / 20, nu=[('c', 0.8), ('c', 1.2), ('c', 0.6), ('c', 0.9)], M=z(4), frozen=[False] * 4),
               dict(op='newpop', props=[0.0, 0.0, 1.0, 0.0]),
               dict(op='integrate', T=0.8 / 20, nu=[('c', 0.8), ('c', 1.2), ('c', 0.6), ('c', 0.9), ('c', 0.1)], M=z(5), frozen=[False, False, False, False, True]),
               dict(op='remove', axis=2), dict(op='remove', axis=1), dict(op='reorder', order=[0, 1, 2])]
        return gd, samples, ops
    raise KeyError(kind)

EDGE_EXPORT = {
    'pulse4D-into-4': [dict(op='phi1d', nu=1.0), dict(op='integrate', T=0.05, nu=[('c', 1.0)], M=[[0]], frozen=[False]),
                       dict(op='newpop', props=[1.0]), dict(op='integrate', T=0.05, nu=[('c', 1.0), ('c', 0.7)], M=[[0, 0], [0, 0]], frozen=[False] * 2),
                       dict(op='newpop', props=[0.0, 1.0]), dict(op='integrate', T=0.04, nu=[('c', 1.0), ('c', 0.7), ('c', 1.4)], M=[[0] * 3] * 3, frozen=[False] * 3),
                       dict(op='newpop', props=[1.0, 0.0, 0.0]), dict(op='integrate', T=0.03, nu=[('c', 1.0), ('c', 0.7), ('c', 1.4), ('c', 0.5)], M=[[0] * 4] * 4, frozen=[False] * 4),
                       dict(op='pulse', dest=3, props=[0.0, 0.2, 0.1, 0.0]),
                       dict(op='integrate', T=0.03, nu=[('c', 1.0), ('c', 0.7), ('c', 1.4), ('c', 0.5)], M=[[0] * 4] * 4, frozen=[False] * 4)],
    'admixture': [dict(op='phi1d', nu=1.0), dict(op='integrate', T=0.05, nu=[('c', 1.0)], M=[[0]], frozen=[False]),
                  dict(op='newpop', props=[1.0]), dict(op='integrate', T=0.08, nu=[('c', 1.0), ('c', 0.7)], M=[[0, 0.5], [0, 0]], frozen=[False] * 2),
                  dict(op='newpop', props=[0.3, 0.7]), dict(op='integrate', T=0.04, nu=[('c', 1.0), ('c', 0.7), ('e', 0.4, 1.4)], M=[[0] * 3] * 3, frozen=[False] * 3)],
    'root-size': [dict(op='phi1d', nu=2.0), dict(op='integrate', T=0.05, nu=[('c', 2.0)], M=[[0]], frozen=[False]),
                  dict(op='newpop', props=[1.0]), dict(op='integrate', T=0.08, nu=[('c', 1.0), ('l', 0.7, 1.5)], M=[[0, 0.5], [1.0, 0]], frozen=[False] * 2)],
}
EDGE_EXPORT['pulse5D'] = EDGE_EXPORT['pulse4D-into-4'][:8] + [
    dict(op='newpop', props=[0.0, 0.0, 1.0, 0.0]), dict(op='integrate', T=0.02, nu=[('c', 1.0), ('c', 0.7), ('c', 1.4), ('c', 0.5), ('c', 0.9)], M=[[0] * 5] * 5, frozen=[False] * 5),
    dict(op='pulse', dest=1, props=[0.15, 0.0, 0.0, 0.1, 0.0]),
    dict(op='integrate', T=0.02, nu=[('c', 1.0), ('c', 0.7), ('c', 1.4), ('c', 0.5), ('c', 0.9)], M=[[0] * 5] * 5, frozen=[False] * 5)]

def _reorder_edge(order):
    """three (four) populations with distinct sizes and asymmetric migration, re-ordered by a permutation that is not its own inverse,
    then integrated with sizes / migrations that tell the populations apart"""
    d = len(order)
    z = lambda k: [[0.0] * k for _ in range(k)]
    ops = [dict(op='phi1d', nu=1.0), dict(op='integrate', T=0.05, nu=[('c', 1.5)], M=z(1), frozen=[False]),
           dict(op='newpop', props=[1.0]), dict(op='integrate', T=0.06, nu=[('c', 0.8), ('c', 2.0)], M=[[0, 0.7], [0.2, 0]], frozen=[False] * 2),
           dict(op='newpop', props=[0.0, 1.0]),
           dict(op='integrate', T=0.08, nu=[('c', 0.3), ('c', 1.0), ('c', 3.0)], M=[[0, 0.5, 0], [0, 0, 1.2], [0.9, 0, 0]], frozen=[False] * 3)]
    if d == 4:
        ops += [dict(op='newpop', props=[1.0, 0.0, 0.0]),
                dict(op='integrate', T=0.05, nu=[('c', 0.3), ('c', 1.0), ('c', 3.0), ('c', 0.6)], M=[[0, 0.5, 0, 0.3], [0, 0, 1.2, 0], [0.9, 0, 0, 0], [0, 1.4, 0, 0]], frozen=[False] * 4)]
    sizes = [0.5, 0.25, 1.7, 0.9][:d]
    M = [[0.0 if i == j else round(0.2 + 0.45 * ((3 * i + 5 * j) % 7), 3) for j in range(d)] for i in range(d)]
    ops += [dict(op='reorder', order=list(order)),
            dict(op='integrate', T=0.1, nu=[('e', sizes[0], 4.0)] + [('c', x) for x in sizes[1:]], M=M, frozen=[False] * d)]
    return ops

EDGE_EXPORT['reorder-231'] = _reorder_edge([1, 2, 0])
EDGE_EXPORT['reorder-312'] = _reorder_edge([2, 0, 1])
EDGE_EXPORT['reorder-2341'] = _reorder_edge([1, 2, 3, 0])
EDGE_EXPORT['reorder-231-final'] = _reorder_edge([0, 1, 2])[:-2] + [dict(op='reorder', order=[1, 2, 0])]

def edge_cases():
    out = []
    for kind in ('slice-linear', 'slice-exponential', 'slice-exp-second-epoch', 'slice-linear-third-epoch', 'only-ancient-descendants', 'five-demes-frozen'):
        gd, samples, ops = edge_graph(kind)
        key = {'slice-exp-second-epoch': 'ancient:only-ancient', 'slice-linear-third-epoch': 'ancient:only-ancient:slice-linear', 'slice-linear': 'ancient:only-ancient:slice-linear', 'slice-exponential': 'ancient:only-ancient',
               'only-ancient-descendants': 'ancient:only-ancient:descendants', 'five-demes-frozen': 'ancient:frozen5'}[kind]
        ndim = max(len(o['nu']) for o in ops if o['op'] == 'integrate')
        out.append(dict(kind='graph', key=key, which=kind, graph=gd, samples=samples, ops=ops, ns=[3] * len(samples),
                        pts=(10 if kind != 'five-demes-frozen' else 6), ndim=ndim, cost=0.05))
    # units / order of the samples with ancient samples (frozen branches added before the conversion to generations; round 4)
    for kind, rel_ in (('slice-exponential', 'units'), ('five-demes-frozen', 'units'), ('slice-linear', 'order'), ('five-demes-frozen', 'order')):
        gd, samples, ops = edge_graph(kind)
        ndim = max(len(o['nu']) for o in ops if o['op'] == 'integrate')
        base = dict(graph=gd, samples=samples, ns=[3] * len(samples), pts=(10 if kind != 'five-demes-frozen' else 6), ndim=ndim, cost=0.05)
        if rel_ == 'units':
            out.append(dict(base, kind='units', key='units:ancient', which='units-ancient:' + kind, unit='years', generation_time=25.0))
        else:
            perm = list(range(len(samples)))[1:] + [0]
            out.append(dict(base, kind='order', key='order:ancient', which='order-ancient:' + kind, perm=perm))
    for kind, ops in EDGE_EXPORT.items():
        d = max(len(o['nu']) for o in ops if o['op'] == 'integrate')
        key = 'export' + ''.join(':' + x for x in export_features(ops))
        out.append(dict(kind='export', key=key, which=kind, ops=ops, ns=[2 + (i % 3) for i in range(d)], pts={2: 12, 3: 10, 4: 7, 5: 6}[d], Nref=1000.0, generation_time=25.0, cost=0.05))
    return out

def l3_edges(chk, ctx):
    dadi = ctx['dadi']
    for inp in edge_cases():
        chk.l3(('edge', inp['which']))
        eval_case(chk, dadi, enc(inp))
    # the public wrapper (extrapolation over three grids) is the extrapolation of SFS
    gd, samples, ops = edge_graph('slice-exponential')
    g = resolve(gd)
    chk.l3(('from_demes',))
    try:
        a = dadi.Spectrum.from_demes(g, ['A', 'B'], [3, 3], [10, 12, 14])
        f = dadi.Numerics.make_extrap_func(dadi.Demes.SFS)
        b = f(g, ['A', 'B'], [3, 3], [10, 12, 14])
        if rel(np.ma.filled(a, 0.0), np.ma.filled(b, 0.0)) > 1e-12 or list(a.pop_ids) != ['A', 'B']:
            chk.fail('from_demes:wrapper', 'Spectrum.from_demes differs from the extrapolated Demes.SFS', dict(kind='from_demes'))
    except Exception as e:
        chk.fail('from_demes:raises:' + type(e).__name__, 'Spectrum.from_demes raises %r' % (e,), dict(kind='from_demes'))

# ------------------------------------------------------------------------------------------------- entry points
def guard_generated(when):
    """the driver must have been built from the translation of THIS tree: another check running at the same time with a different
    DADI_REPO rewrites lean/DadiVerif/Generated/*.lean under us -> infrastructure failure, never a verdict"""
    import translate
    for name in GENERATED:
        path = os.path.join(translate.GEN_DIR, name + '.lean')
        try:
            want = translate.GENERATORS[name]()
        except Exception:
            continue                    # a translation error is reported through chk.translate
        have = open(path).read() if os.path.exists(path) else ''
        if have != want and 'translateFailed_' not in have:
            raise common.Infra('Generated/%s.lean is not the translation of %s (%s): rewritten by a concurrent check of another tree?' % (name, common.REPO, when))

def run(chk, ctx):
    rng = common.Rng(ctx['seed'], 'C16')
    if not any(e is not None for e in chk.translate.values()):
        guard_generated('before the correspondence')
    quick = ctx['tier'] != 'thorough'
    REFINE_BUDGET[0] = 20.0 if quick else 120.0
    DEADLINE[0] = time.time() + (110.0 if quick else 1300.0)
    chk.rule = ('K: random histories (1-5 contemporaneous demes; splits, branches, admixtures, mergers, pulses, removals, renamings; constant/'
                'exponential/linear epochs spanning several intervals; asymmetric and symmetric migrations) -> every interval, deme and rate of '
                '_get_integration_parameters/_sizes_at_time/_make_nu_func vs the generated formulas; recording stubs with marker values for every branch of '
                '_integrate_phi/_split_phi/_admix_*; every primitive\'s real Demes.cache records vs the generated path table; output()\'s end times and scalings. '
'K graph level (harness/c16_graph.py): _migration_rate_in_interval (also objects with .demes only), epoch search of _sizes_at_time (also intervals no epoch covers), '
                'DemesUtil.slice on whole graphs, _augment_with_ancient_samples, the graph SFS hands to the importer (captured inside SFS; generations and years), intervals / demes '
                'present / events / T / frozen flags / migration matrices / nu functions of whole graphs, the recorded call sequence of _compute_sfs and the final reorder_pops, '
                '_admix_new_pop_phi for every choice and order of parents. '
                'K program level (harness/c16_prog.py; generated programs of tools/gen_DemesProg.py): _get_demographic_events (events, demes present) and _get_integration_parameters '
                '(times, nu entries, matrices, frozen lists; with and without Ne) of whole graphs, the complete recorded call sequence of the tail of SFS (phi_1D, every integrator call '
                'with all keywords, remove_pop, _split_phi, _admix_*, reorder_pops, from_phi) also for exported programs and for graphs the code rejects, _apply_event for every '
                'event kind and position (also absent demes and more than 5 populations), _integrate_phi for d = 1..5 with marker values, the model of discrete_demographic_events. '
                'L3: each history is written twice (demes graph / hand-written dadi program) by harness/c16_scen.py; families graph, ancient (frozen branches, '
                'only-ancient = sliced graph), scale/units/order/Ne relations, export+re-import of random programs (1-5 populations) and fixed edge cases; on recorded calls: every keyword '
                'of the integrators receives the entry of its own index, halving Ne doubles every T and M and halves every nu incl. the frozen ones, scaling a graph keeps every call '
                'except the frozen branches (absolute size 1), the frozen nu changes the result of the integrator only through the time step, rows of a sliced graph = rows of the original '
                'on the moved interval; '
                'distinct = different event sequence / axes / size functions / relation parameters; spectra disagreeing beyond 1e-9 (corners excluded) are '
                'recomputed at 1/4 and 1/16 of the time step and on a grid twice as fine and must converge.')
    chk.unproved = ['the numerical spectrum itself (integration, from_phi): equality of graph and program spectra is validated, not proved',
                    'the demes library (graph resolution, in_generations) is not modelled; discrete_demographic_events is an input of the generated programs (its hand-written model '
                    'classifyEvents, used by C16_export_roundtrip only, is tied by K; the order of the children of a library split is a set iteration order and is taken from the library); '
                    'that a frozen branch gives the spectrum of an ancient sample is validated (L3), the graph transformation is proved',
                    '_split_phi / _admix_new_pop_phi / _admix_phi / PhiManip / Integration / from_phi appear in the translated import as recorded calls (their own tables: C16_wiring_*, C06)',
                    'the closed forms of the translated import loop (C16_source_*) hold for graphs with distinct deme names; list objects are values in the translation (the in-place '
                    'pop_ids.pop / append of _apply_event act on a list that is read again only through pop_ids) — tied by K on the recorded calls',
                    'C16_slice_plan is a statement per interval (every interval, every deme): that the LIST of intervals of the sliced graph is the shifted list is validated (K plan / L3 slice rows)',
                    'C16_export_roundtrip is the complete table for 1-4 older populations at one Split record (era names as output generates them); the whole-program export is validated (L3 export)',
                    'exp/log/power in size functions are uninterpreted in the theorems; the harness evaluates the model terms with numpy',
                    'round trip of whole programs through Demes.output is validated numerically; proved: the record table, end times, unit scalings and the boundary table C16_export_roundtrip',
                    'C16_slice_plan assumes exp (log z) = z for the uninterpreted functions (an epoch cut exactly at its end) besides log (exp z) = z',
                    'DemesUtil.swipe is not covered (its result has several roots, which from_demes rejects)']
    chk.assumptions += ['tools/gen_Demes.py (statement-level translator of the conversion layer; shape checks raise TranslateError)',
                        'tools/gen_DemesProg.py (statement-level translator of the import loop into programs over recorded calls; Python containers as the combinators of Model/DemesPy.lean: '
                        'insertion-ordered dict of lists, set as duplicate-free list, sorted() as insertion sort; closures as NuEntry; list objects as values)',
                        'C06 wiring table Generated/Admix.lean (destination axis / source axes / coefficients of every PhiManip pulse and constructor)']
    def timed(name, f, *a):
        t0 = time.time(); f(*a); chk.notes.append('%s: %.1fs' % (name, time.time() - t0))
    R = lambda name: common.Rng(ctx['seed'], 'C16/' + name)        # one stream per family: each is reproducible on its own
    if ctx['driver'] is not None and ctx['driver'].ok():
        timed('K conversion', k_conversion, chk, ctx, R('k-conversion'), 12 if quick else 120)
        timed('K wiring', k_wiring, chk, ctx, R('k-wiring'))
        timed('K events', k_events, chk, ctx, R('k-events'))
        timed('K export', k_export, chk, ctx, R('k-export'), 6 if quick else 40)
        timed('K names', k_names, chk, ctx, R('k-names'), 8 if quick else 24)
        timed('K slice', k_slice, chk, ctx, R('k-slice'), 8 if quick else 60)
        # graph level (round 4): harness/c16_graph.py
        timed('K migrate', G.k_migrate, chk, ctx, R('k-migrate'), 6 if quick else 60, eval_sym)
        timed('K epochsel', G.k_epochsel, chk, ctx, R('k-epochsel'), 5 if quick else 50, eval_sym)
        timed('K slicegraph', G.k_slicegraph, chk, ctx, R('k-slicegraph'), 6 if quick else 60, eval_sym)
        timed('K augment', G.k_augment, chk, ctx, R('k-augment'), 8 if quick else 80, eval_sym)
        timed('K prepare', G.k_prepare, chk, ctx, R('k-prepare'), 5 if quick else 50, eval_sym)
        timed('K plan', G.k_plan, chk, ctx, R('k-plan'), 8 if quick else 80, eval_sym)
        timed('K steps', G.k_steps, chk, ctx, R('k-steps'), 10 if quick else 100, eval_sym)
        timed('K admixargs', G.k_admixargs, chk, ctx, R('k-admixargs'), eval_sym)
        # round 5: the statement-by-statement translation of the import loop (Generated/DemesProg.lean), harness/c16_prog.py
        timed('K gen events', PR.k_gen_events, chk, ctx, R('k-gen-events'), 8 if quick else 80, eval_sym)
        timed('K gen import', PR.k_gen_import, chk, ctx, R('k-gen-import'), 12 if quick else 120, eval_sym)
        timed('K gen apply', PR.k_gen_apply, chk, ctx, R('k-gen-apply'), 60 if quick else 600)
        timed('K gen integrate', PR.k_gen_integrate, chk, ctx, R('k-gen-integrate'))
        timed('K classify', PR.k_classify, chk, ctx, R('k-classify'), 10 if quick else 100)
        timed('K gen import exported', PR.k_gen_import_exported, chk, ctx, R('k-gen-import-exported'), 9 if quick else 90, eval_sym)
    if not any(e is not None for e in chk.translate.values()):
        guard_generated('after the correspondence')
    timed('L3 edges', l3_edges, chk, ctx)
    timed('L3 frozen dt', PR.frozen_dt_oracle, chk, ctx, R('frozen-dt'), 4 if quick else 30)
    timed('L3 slice rows', PR.slice_rows_oracle, chk, ctx, R('slice-rows'), 8 if quick else 80)
    timed('L3 graph', l3_graph_vs_program, chk, ctx, R('graph'), 40 if quick else 500, False, 1.0 if quick else 4.0)
    timed('L3 ancient', l3_graph_vs_program, chk, ctx, R('ancient'), 14 if quick else 200, True, 1.0 if quick else 4.0)
    timed('L3 slice', l3_slice, chk, ctx, R('slice'), 16 if quick else 240, 1.0 if quick else 4.0)
    timed('L3 metamorphic', l3_metamorphic, chk, ctx, R('metamorphic'), 10 if quick else 150, 1.0 if quick else 4.0)
    timed('L3 export', l3_export, chk, ctx, R('export'), 30 if quick else 400, 1.0 if quick else 4.0)

def replay(chk, ctx, data):
    REFINE_BUDGET[0] = 600.0; DEADLINE[0] = None
    inp = data['input']
    chk.l3(('replay', inp.get('kind')))
    if inp.get('kind') == 'from_demes':
        l3_edges(chk, ctx)
    elif inp.get('kind') in ('prepare-units', 'steps-scale', 'steps-order', 'admix-axis'):
        G.replay_case(chk, ctx, inp)
    elif inp.get('kind') in ('integrate-wiring', 'Ne-threaded', 'scale-frozen', 'frozen-dt', 'slice-rows'):
        PR.replay_case(chk, ctx, inp)
    else:
        eval_case(chk, ctx['dadi'], inp)
