"""C06 — splits, admixture, pulses, removal and reordering conserve marginal densities (dadi/PhiManip.py).

K : every public constructor / pulse function (3 + 14), `phi_2D_to_3D_split_1/2`, `phi_1D_to_2D`, `remove_pop`, `filter_pops`,
    `reorder_pops` and single cells of `_admixture_intermediates` against the exact-rational Lean model
    (Model/Admix.lean through Driver/Admix.lean; the model evaluates the definitions GENERATED from the current source).
L3: the property statement evaluated directly on the implementation with numpy (no Lean, no model, destination / sources
    taken from the function NAME and docstring, never from the code): conservation of the marginal when the new / the
    destination population is integrated out (1e-11), support of the deposit (the two grid points bracketing the mixed frequency), pure split = copy, identity at
    proportion 0, every simplex vector accepted, every vector summing above 1 rejected, removal = weighted sum,
    reorder = transpose and its inverse.
Round 6: the density as an array OBJECT.  Every one of the 17 functions, remove_pop, filter_pops, reorder_pops and the three
    splits is run on EVERY run (fixed lists, nothing by chance) on transposed views obtained through `reorder_pops` itself
    (Fortran order, both rotations, first two / last two populations swapped — d = 3: all five permutations), on strided,
    reversed and Fortran-ordered arrays, with pairwise different extents and an own grid per population in two opposite orders;
    L3: same result bit for bit as on a C-contiguous copy (removals: a few ulp), the argument treated as the docstring says
    (pulses "Alters phi in place and returns the new version": the array that was passed holds the new version AND it is
    returned, nothing outside the view is written; everything else: argument untouched, result a new array), then all clauses
    (marginals, mass, mixture frequency by point densities, identity at 0, simplex acceptance / rejection) on THAT result;
    reorder_pops followed by a pulse = the corresponding pulse followed by reorder_pops.
    K: op `fnview` — flat memory + offset / strides / shape against the model's `applyInPlace` (memory afterwards and returned array).
"""
import math, itertools, re, sys
from fractions import Fraction
import numpy as np
from . import common, gen
from .common import rat, fmt_list, fmt_nd, fmt_grids, parse_nd, parse_list, close

PROP = 'C06'
GENERATED = ['Admix']
NEEDS_BUILD = False
NEEDS_DRIVER = True
DRIVER_MODULES = ['Admix']

RTOL_K = 1e-9
RTOL_L3 = 1e-11

# ------------------------------------------------------------------------------------------ specification table
# (function name, number of populations of the input, 0-based destination or None for a constructor).
# Written from the names / docstrings of PhiManip.py: "Admix populations 1 and 3 into population 2", proportions are
# given for the source populations in ascending order, the destination keeps 1 - sum.
CONSTRUCTORS = [('phi_2D_to_3D_admix', 2), ('phi_3D_to_4D', 3), ('phi_4D_to_5D', 4)]
PULSES = [('phi_2D_admix_1_into_2', 2, 1), ('phi_2D_admix_2_into_1', 2, 0),
          ('phi_3D_admix_1_and_2_into_3', 3, 2), ('phi_3D_admix_1_and_3_into_2', 3, 1), ('phi_3D_admix_2_and_3_into_1', 3, 0),
          ('phi_4D_admix_into_1', 4, 0), ('phi_4D_admix_into_2', 4, 1), ('phi_4D_admix_into_3', 4, 2), ('phi_4D_admix_into_4', 4, 3),
          ('phi_5D_admix_into_1', 5, 0), ('phi_5D_admix_into_2', 5, 1), ('phi_5D_admix_into_3', 5, 2), ('phi_5D_admix_into_4', 5, 3),
          ('phi_5D_admix_into_5', 5, 4)]
SPEC = dict([(n, (d, None)) for n, d in CONSTRUCTORS] + [(n, (d, dest)) for n, d, dest in PULSES])

SIZES = {'quick': {1: (3, 12), 2: (3, 9), 3: (3, 6), 4: (3, 4), 5: (2, 3)},
         'thorough': {1: (3, 24), 2: (3, 9), 3: (3, 6), 4: (3, 5), 5: (2, 4)}}

# ------------------------------------------------------------------------------------------ generators
def dyadic(rng, lo, hi, bits=6):
    q = 1 << bits
    return float(int(rng.integers(int(math.ceil(lo * q)), int(math.floor(hi * q)) + 1))) / q

def gen_grid(rng, n, kind=None):
    """strictly increasing from 0 to 1"""
    if n == 2:
        return np.array([0.0, 1.0]), 'two-point'
    kinds = ['uniform', 'exponential', 'random', 'dyadic', 'clustered']
    if kind is None:
        kind = kinds[int(rng.integers(len(kinds)))]
    if kind == 'dyadic':
        # distinct multiples of 1/16 (1/64 for long grids); uniform when n-1 divides 16
        q = 16 if n <= 17 else 64
        if q % (n - 1) == 0:
            g = np.arange(n) / float(n - 1)
        else:
            inner = np.sort(rng.choice(np.arange(1, q), size=n - 2, replace=False)) / float(q)
            g = np.concatenate([[0.0], inner, [1.0]])
        return g.astype(float), kind
    if kind == 'clustered':
        # points crowded towards 0 (multiples of 1/256: the spacing ratio stays below what 1e-9 can resolve, see grid_condition)
        inner = np.unique(np.ceil(np.sort(rng.uniform(0, 1, n - 2)) ** 3 * 256) / 256.0)
        inner = inner[(inner > 0) & (inner < 1)]
        while len(inner) < n - 2:
            inner = np.unique(np.concatenate([inner, [dyadic(rng, 1 / 64., 63 / 64.)]]))
        return np.concatenate([[0.0], np.sort(inner)[:n - 2], [1.0]]), kind
    g, _ = gen.grid(rng, n, kind)
    return g, kind

def gen_grids(rng, shape, mode, ngrids):
    """mode 'same': one grid for every axis (how dadi itself calls these functions; needs equal extents);
       'distinct': an own grid per axis"""
    if mode == 'same':
        g, k = gen_grid(rng, shape[0])
        return [g.copy() for _ in range(ngrids)], k
    gs = []; kinds = []
    for m in range(ngrids):
        n = shape[m] if m < len(shape) else int(rng.integers(2, max(3, shape[0]) + 2))
        g, k = gen_grid(rng, n)
        gs.append(g); kinds.append(k)
    return gs, '/'.join(kinds)

def gen_props(rng, nf, kind=None):
    """proportions for nf sources.  returns (list of floats, kind)"""
    kinds = ['interior', 'interior', 'zero', 'face', 'vertex', 'sum1', 'dyadic', 'tiny']
    if kind is None:
        kind = kinds[int(rng.integers(len(kinds)))]
    if kind == 'interior':
        w = rng.dirichlet(np.ones(nf + 1))
        f = [float(x) for x in w[:nf]]
        if sum(Fraction(x) for x in f) >= 1:      # cannot happen with a positive remainder, be safe
            f = [x / 2 for x in f]
    elif kind == 'zero':
        f = [0.0] * nf
    elif kind == 'face':
        w = rng.dirichlet(np.ones(nf + 1))
        f = [round(float(x) * 64) / 64.0 for x in w[:nf]]
        while sum(f) > 1: f[int(np.argmax(f))] -= 1 / 64.0
        f[int(rng.integers(nf))] = 0.0
    elif kind == 'vertex':
        f = [0.0] * nf
        f[int(rng.integers(nf))] = 1.0
    elif kind == 'sum1':
        # dyadic, sums to exactly 1 (the destination keeps nothing)
        cuts = sorted(int(x) for x in rng.integers(0, 65, nf - 1)) if nf > 1 else []
        parts = [b - a for a, b in zip([0] + cuts, cuts + [64])]
        f = [p / 64.0 for p in parts]
    elif kind == 'dyadic':
        f = [0.0] * nf
        left = 4
        for i in rng.permutation(nf):
            t = int(rng.integers(0, left + 1)); f[int(i)] = t / 4.0; left -= t
    elif kind == 'tiny':
        f = [float(rng.uniform(0, 1e-9)) for _ in range(nf)]
    else:
        raise ValueError(kind)
    return f, kind

def gen_bad_props(rng, nf):
    """non-negative proportions whose exact sum is > 1 (by a margin that round-off cannot hide, or by one dyadic step)"""
    k = ['big', 'slightly', 'dyadic', 'each_below_one'][int(rng.integers(4))]
    if k == 'big':
        f = [float(rng.uniform(0.3, 1.5)) for _ in range(nf)]
        if sum(f) <= 1.05: f[0] += 1.0
    elif k == 'slightly':
        w = rng.dirichlet(np.ones(nf)) if nf > 1 else np.array([1.0])
        f = [float(x) * (1 + 1e-6) for x in w]
        f[0] += 1e-6
    elif k == 'dyadic':
        f, _ = gen_props(rng, nf, 'sum1')
        f[int(rng.integers(nf))] += 1 / 64.0
    else:
        # every single proportion is a valid fraction, only the sum is too large (needs nf >= 2)
        f = [float(rng.uniform(0.55, 0.95)) for _ in range(nf)] if nf >= 2 else [float(rng.uniform(1.01, 1.5))]
    return f, k

def grid_condition(g):
    """how strongly an absolute error of the mixed frequency is amplified in `norm`: max(d_prev, d_next) / d^2 over the intervals.
    (fl, fu carry the error err/d; they multiply the neighbouring spacings in the normaliser, which is >= d.)"""
    dz = np.diff(np.asarray(g, dtype=float))
    if len(dz) < 2:
        return 1.0 / float(dz[0])
    nb = np.maximum(np.concatenate([[0.0], dz[:-1]]), np.concatenate([dz[1:], [0.0]]))
    return float(np.max(np.maximum(nb, dz) / dz ** 2))

def exact_sum(f):
    return sum(Fraction(x) for x in f)

def weights(g):
    """trapezoid node weights of a grid (written from the trapezoid rule, not from the code)"""
    g = np.asarray(g, dtype=float)
    w = np.zeros(len(g))
    w[1:] += np.diff(g) / 2; w[:-1] += np.diff(g) / 2
    return w

def integrate_out(a, g, ax):
    """Σ_k w_k a[.., k, ..]"""
    w = weights(g)
    return np.tensordot(a, w, axes=([ax], [0]))

def total_mass(a, grids):
    """full d-dimensional trapezoid sum Σ_idx Π_m w_m[idx_m]·a[idx] (written from the trapezoid rule)"""
    t = np.asarray(a, dtype=float)
    for ax in range(t.ndim - 1, -1, -1):
        t = integrate_out(t, grids[ax], ax)
    return float(t)

def full_coefs(d, dest, fs):
    """coefficient of every population in the mixed frequency, from the documentation: sources in ascending order,
    the destination (constructors: the last old population) keeps 1 - sum"""
    pos = d - 1 if dest is None else dest
    c = list(fs)
    c.insert(pos, 1.0 - math.fsum(fs))
    return c

def mixed_freq(grids, coefs, shape):
    d = len(shape)
    ad = np.zeros(shape)
    for m in range(d):
        sl = [None] * d; sl[m] = slice(None)
        ad = ad + coefs[m] * np.asarray(grids[m])[tuple(sl)]
    return ad

def inp_fn(name, fs, grids, phi, layout=None):
    d = dict(op='fn', fn=name, fs=[float(x) for x in fs], grids=[np.asarray(g).tolist() for g in grids],
             shape=list(np.shape(phi)), phi=np.asarray(phi).ravel().tolist())
    if layout is not None:
        d['layout'] = layout_json(layout)
    return d

def call_impl(ctx, name, fs, grids, phi, layout=None):
    """the function on a fresh C-contiguous copy of `phi` (layout None) or on an array object with the same entries and
    another memory layout (round 6, `make_view`); returns (a private copy of the returned array, exception)"""
    PM = ctx['dadi'].PhiManip
    try:
        if layout is None:
            arg = np.array(phi, dtype=float, copy=True)
        else:
            arg, _ = make_view(ctx, phi, layout)
        out = getattr(PM, name)(arg, *fs, *[np.array(g, dtype=float) for g in grids])
        return np.array(out, dtype=float, copy=True), None
    except Exception as e:
        return None, e

def same_grid(grids):
    return all(len(g) == len(grids[0]) and np.array_equal(g, grids[0]) for g in grids)

# ------------------------------------------------------------------------------------------ one call: K + L3
def case_fn(chk, ctx, name, fs, grids, phi, do_k=True, kinds=None, layout=None, pre=None):
    """`layout`: the function is called on an array with the entries of `phi` in that memory layout (round 6); `pre`: the
    (result, exception) of that very call when the caller has already made it"""
    d, dest = SPEC[name]
    driver = ctx['driver']
    inp = inp_fn(name, fs, grids, phi, layout)
    grids = [np.asarray(g, dtype=float) for g in grids]
    phi = np.asarray(phi, dtype=float)
    out, exc = pre if pre is not None else call_impl(ctx, name, fs, grids, phi, layout)
    tot = exact_sum(fs)
    nonneg = all(x >= 0 for x in fs)
    sg = same_grid(grids)
    gtag = ('' if sg else ':distinct_grids') + ('' if layout is None else ':view')
    if layout is not None:
        chk.stat('layout:' + layout_tag(layout))
    chk.stat('fn:' + name); chk.stat('grids:' + ('same' if sg else 'distinct'))
    chk.l3((name, 'same' if sg else 'distinct', (kinds or {}).get('props'), tot > 1, tot == 1, bool(all(x == 0 for x in fs)),
            None if layout is None else layout_tag(layout)))
    # ---- K
    if do_k and driver is not None and driver.ok() and 8e-16 * max(grid_condition(g) for g in grids) > 0.1 * RTOL_K:
        # round-off of the mixed frequency (a few ulp) is amplified beyond the comparison tolerance by this grid
        chk.k_skipped += 1; chk.stat('k:skipped_illconditioned_grid')
    elif do_k and driver is not None and driver.ok():
        ans = driver.ask('c06 fn %s %s %s %s' % (name, fmt_list(fs), fmt_grids(grids), fmt_nd(phi)))
        op = name
        if exc is not None:
            if isinstance(exc, ValueError) and 'non-sensible' in str(exc):
                (chk.k_ok(op + ':raises') if ans == 'err raises' else chk.k_bad(op, inp, 'raises %r' % (exc,), ans[:200], None))
            elif ans == 'err domain' and not sg and len(set(len(g) for g in grids)) > 1:
                chk.k_skipped += 1; chk.stat('k:skipped_wrong_length_grid')
            else:
                chk.k_bad(op, inp, 'raises %r' % (exc,), ans[:200], None)
        elif ans == 'err domain' and not sg and len(set(len(g) for g in grids)) > 1:
            # the generated wiring hands a grid of another length to the temporary population: numpy's behaviour there
            # (IndexError or silent garbage) is not modelled; C06_wiring_grids and L3 report the cause
            chk.k_skipped += 1; chk.stat('k:skipped_wrong_length_grid')
        elif not ans.startswith('ok '):
            chk.k_bad(op, inp, 'returns an array of shape %s' % (out.shape,), ans[:200], None)
        elif not np.all(np.isfinite(out)):
            chk.k_skipped += 1
        else:
            m, _ = parse_nd(ans[3:])
            ok, err, scale = close(out, m, RTOL_K)
            (chk.k_ok(op) if ok else chk.k_bad(op, inp, 'max|impl-model| = %.3g' % err, 'scale %.3g' % scale, err))
    # ---- L3: acceptance
    if tot > 1:
        if nonneg and exc is None:
            chk.fail('simplex_reject:%s' % name,
                     '%s accepts proportions %r whose sum %.17g exceeds 1 (result min %.3g)' % (name, list(fs), float(tot), float(np.min(out))), inp)
        return
    if not nonneg:
        return
    if exc is not None:
        if isinstance(exc, ValueError) and 'non-sensible' in str(exc):
            chk.fail('simplex_accept:%s%s' % (name, ':roundoff' if (kinds or {}).get('props') == 'roundoff' else ''),
                     '%s rejects proportions %r in the closed simplex (exact sum %.17g <= 1): %s' % (name, list(fs), float(tot), exc), inp)
        else:
            chk.fail('%s:%s%s:raises:%s' % ('pulse_marginal' if dest is not None else 'newpop_marginal', name, gtag, type(exc).__name__),
                     '%s raises %r on valid arguments' % (name, exc), inp)
        return
    scale = float(np.max(np.abs(phi))) or 1.0
    if dest is None:
        # constructor: new last axis on grids[d]
        zz = grids[d]
        if out.shape != tuple(phi.shape) + (len(zz),):
            chk.fail('newpop_marginal:%s:shape' % name, 'shape %s' % (out.shape,), inp); return
        back = integrate_out(out, zz, d)
        err = float(np.max(np.abs(back - phi)))
        if not err <= RTOL_L3 * scale:
            chk.fail('newpop_marginal:%s%s' % (name, gtag), 'integrating the new population out of %s changes the density of the existing ones by %.3g (scale %.3g)'
                     % (name, err, scale), inp)
        m0 = total_mass(phi, grids[:d]); m1 = total_mass(out, list(grids[:d]) + [zz])
        ma = total_mass(np.abs(phi), grids[:d]) or 1.0
        if not (np.isfinite(m1) and abs(m1 - m0) <= RTOL_L3 * ma):
            chk.fail('newpop_mass:%s%s' % (name, gtag), '%s changes the total mass: %.17g -> %.17g' % (name, m0, m1), inp)
        # support: at most two adjacent non-zero entries, bracketing the mixed frequency
        coefs = full_coefs(d, None, fs)
        ad = mixed_freq(grids[:d], coefs, phi.shape)
        w = weights(zz)
        nzc = (out != 0)
        cnt = nzc.sum(axis=-1)
        first = np.argmax(nzc, axis=-1); last = len(zz) - 1 - np.argmax(nzc[..., ::-1], axis=-1)
        bad_support = (cnt > 2) | ((cnt == 2) & (last - first != 1))
        lo = zz[np.minimum(first, len(zz) - 1)]; hi = zz[last]
        tol = 1e-12
        outside = (cnt > 0) & ((ad < np.where(first > 0, zz[np.maximum(first - 1, 0)], -np.inf) - tol) | (ad > np.where(last < len(zz) - 1, zz[np.minimum(last + 1, len(zz) - 1)], np.inf) + tol))
        if np.any(bad_support) or np.any(outside & (phi != 0)):
            chk.fail('support:%s' % name, '%s: the new axis carries mass away from the two grid points bracketing the mixed frequency (%d cells)'
                     % (name, int(np.sum(bad_support) + np.sum(outside))), inp)
        # the deposit is a linear interpolation between the two bracketing points: Σ_k new[..,k]·z_k = adz · Σ_k new[..,k] per cell
        s0 = out.sum(axis=-1); s1 = (out * zz).sum(axis=-1)
        errm = float(np.max(np.abs(s1 - ad * s0)))
        if not errm <= 1e-9 * (float(np.max(np.abs(s0))) or 1.0):
            chk.fail('mixture_frequency:%s%s' % (name, gtag), '%s: the new population does not carry the documented mixture frequency Σ c_m x_m '
                     '(density-weighted mean of the two deposit points off by %.3g, scale %.3g)' % (name, errm, float(np.max(np.abs(s0)))), inp)
        # pure split: unit proportion vector and the new axis on the parent's grid -> copy
        c = np.array(coefs)
        if np.count_nonzero(c) == 1 and float(np.max(c)) == 1.0:
            m = int(np.argmax(c))
            if len(zz) == len(grids[m]) and np.array_equal(zz, grids[m]):
                exp = np.zeros_like(out)
                for idx in np.ndindex(*phi.shape):
                    exp[idx + (idx[m],)] = phi[idx] / w[idx[m]]
                e2 = float(np.max(np.abs(out - exp)))
                if not e2 <= 1e-11 * float(np.max(np.abs(exp)) or 1.0):
                    chk.fail('split_copy:%s' % name, '%s with unit proportion vector is not a copy of population %d: differs by %.3g' % (name, m + 1, e2), inp)
                chk.stat('l3:split_copy')
    else:
        if out.shape != phi.shape:
            chk.fail('pulse_marginal:%s:shape' % name, 'shape %s' % (out.shape,), inp); return
        a = integrate_out(out, grids[dest], dest); b = integrate_out(phi, grids[dest], dest)
        err = float(np.max(np.abs(a - b)))
        sc = float(np.max(np.abs(b))) or 1.0
        if not np.all(np.isfinite(out)) or not err <= RTOL_L3 * max(sc, scale * 1e-3):
            chk.fail('pulse_marginal:%s%s' % (name, gtag),
                     '%s changes the joint density of the other populations: marginal over population %d differs by %.3g (scale %.3g)%s'
                     % (name, dest + 1, err, sc, '' if sg else ' [own grid per population]'), inp)
        m0 = total_mass(phi, grids); m1 = total_mass(out, grids)
        ma = total_mass(np.abs(phi), grids) or 1.0
        if not (np.isfinite(m1) and abs(m1 - m0) <= RTOL_L3 * ma):
            chk.fail('pulse_mass:%s%s' % (name, gtag), '%s changes the total mass: %.17g -> %.17g' % (name, m0, m1), inp)
        if all(x == 0 for x in fs):
            e0 = float(np.max(np.abs(out - phi)))
            if not e0 <= 1e-12 * scale:
                chk.fail('pulse_zero:%s%s' % (name, gtag), '%s with proportions 0 is not the identity: differs by %.3g (scale %.3g)' % (name, e0, scale), inp)
            chk.stat('l3:pulse_zero')

def case_spike(chk, ctx, name, fs, grids, shape, cells, layout=None):
    """pulse of a point mass: a density concentrated in ONE cell (frequencies x_1..x_d) must end up, in the same line of the
    destination axis, on the two grid points bracketing the documented mixture frequency Σ c_m x_m, with linear-interpolation
    weights (Σ_k out_k z_k = adz Σ_k out_k), and nowhere else."""
    d, dest = SPEC[name]
    grids = [np.asarray(g, dtype=float) for g in grids]
    if exact_sum(fs) > 1 or any(x < 0 for x in fs):
        return
    sg = same_grid(grids); gtag = ('' if sg else ':distinct_grids') + ('' if layout is None else ':view')
    coefs = full_coefs(d, dest, fs)
    zz = grids[dest]
    for cell in cells:
        phi = np.zeros(shape); phi[tuple(cell)] = 1.0
        inp = inp_fn(name, fs, grids, phi, layout)
        out, exc = call_impl(ctx, name, fs, grids, phi, layout)
        chk.l3((name, 'spike', 'same' if sg else 'distinct', None if layout is None else layout_tag(layout)))
        chk.stat('l3:spike')
        if exc is not None:
            if not (isinstance(exc, ValueError) and 'non-sensible' in str(exc)):
                chk.fail('pulse_marginal:%s%s:raises:%s' % (name, gtag, type(exc).__name__), '%s raises %r on valid arguments' % (name, exc), inp)
            return
        adz = sum(c * grids[m][cell[m]] for m, c in enumerate(coefs))
        sel = tuple(slice(None) if m == dest else cell[m] for m in range(d))
        line = out[sel]
        rest = out.copy(); rest[sel] = 0
        if np.any(rest != 0) or not np.all(np.isfinite(out)):
            chk.fail('pulse_marginal:%s%s' % (name, gtag), '%s moves mass of a point density to other cells of the non-destination populations' % name, inp)
            return
        nz = np.nonzero(line)[0]
        s0 = float(line.sum()); s1 = float((line * zz).sum())
        bad = len(nz) == 0 or len(nz) > 2 or (len(nz) == 2 and nz[1] - nz[0] != 1) or not abs(s1 - adz * s0) <= 1e-9 * abs(s0)
        if bad:
            chk.fail('mixture_frequency:%s%s' % (name, gtag),
                     '%s: a point density at grid indices %r (destination frequency %.6g) should arrive at the documented mixture frequency %.6g; '
                     'the result has mass at destination indices %r with density-weighted mean %.6g'
                     % (name, [int(c) for c in cell], float(zz[cell[dest]]), float(adz), nz.tolist(), (s1 / s0) if s0 else float('nan')), inp)
            return

def case_accept_roundoff(chk, ctx, name, rng, tries):
    """simplex vectors with generic (non-dyadic) floats on a face of the simplex: must be accepted whatever round-off
    does to the re-computed sums inside the code"""
    d, dest = SPEC[name]
    nf = d - 1
    n = 2
    grids = [np.array([0.0, 1.0])] * (d if dest is not None else d + 1)
    phi = np.ones((n,) * d)
    for _ in range(tries):
        w = rng.dirichlet(np.ones(nf))
        f = [float(x) * float(rng.uniform(0.2, 0.999)) for x in w]
        z = int(rng.integers(nf)); f[z] = 0.0
        if exact_sum(f) > 1:
            continue
        out, exc = call_impl(ctx, name, f, grids, phi)
        chk.l3((name, 'roundoff-face'))
        chk.stat('l3:accept_roundoff')
        if exc is not None:
            case_fn(chk, ctx, name, f, grids, phi, do_k=False, kinds=dict(props='roundoff'))
            return

# ------------------------------------------------------------------------------------------ splits
def case_split1d(chk, ctx, xx, phi):
    PM = ctx['dadi'].PhiManip; driver = ctx['driver']
    inp = dict(op='split1', grid=np.asarray(xx).tolist(), phi=np.asarray(phi).tolist())
    xx = np.asarray(xx, dtype=float); phi = np.asarray(phi, dtype=float)
    chk.l3(('phi_1D_to_2D', len(xx)))
    try:
        out = PM.phi_1D_to_2D(xx, phi.copy())
    except Exception as e:
        chk.fail('newpop_marginal:phi_1D_to_2D:raises:%s' % type(e).__name__, 'phi_1D_to_2D raises %r on a valid grid and density' % (e,), inp)
        return
    chk.stat('fn:phi_1D_to_2D')
    if driver is not None and driver.ok():
        ans = driver.ask('c06 split1 %s %s' % (fmt_list(xx), fmt_nd(phi)))
        if not ans.startswith('ok '): chk.k_bad('phi_1D_to_2D', inp, 'array', ans[:200], None)
        else:
            m, _ = parse_nd(ans[3:]); ok, err, sc = close(out, m, RTOL_K)
            (chk.k_ok('phi_1D_to_2D') if ok else chk.k_bad('phi_1D_to_2D', inp, 'max diff %.3g' % err, 'scale %.3g' % sc, err))
    n = len(xx); w = weights(xx)
    scale = float(np.max(np.abs(phi))) or 1.0
    off = out.copy(); off[np.arange(n), np.arange(n)] = 0
    if np.any(off != 0):
        chk.fail('split_copy:phi_1D_to_2D', 'phi_1D_to_2D puts mass off the diagonal', inp)
    for ax in (0, 1):
        back = integrate_out(out, xx, ax)
        exp = phi.copy(); exp[0] = 0; exp[-1] = 0       # the two absorbing end points are not carried over
        err = float(np.max(np.abs(back - exp)))
        if not err <= RTOL_L3 * scale:
            chk.fail('newpop_marginal:phi_1D_to_2D', 'integrating daughter %d out of phi_1D_to_2D does not return the parent at interior points: off by %.3g' % (ax + 1, err), inp)

def case_split2(chk, ctx, which, xx, phi):
    PM = ctx['dadi'].PhiManip; driver = ctx['driver']
    name = 'phi_2D_to_3D_split_%d' % which
    inp = dict(op='split2', which=which, grid=np.asarray(xx).tolist(), shape=list(np.shape(phi)), phi=np.asarray(phi).ravel().tolist())
    xx = np.asarray(xx, dtype=float); phi = np.asarray(phi, dtype=float)
    chk.l3((name, len(xx))); chk.stat('fn:' + name)
    try:
        out = getattr(PM, name)(xx, phi.copy())
    except Exception as e:
        chk.fail('split_copy:%s:raises:%s' % (name, type(e).__name__), '%s raises %r on a valid grid and density' % (name, e), inp)
        return
    if driver is not None and driver.ok():
        ans = driver.ask('c06 split2 %d %s %s' % (which, fmt_list(xx), fmt_nd(phi)))
        if not ans.startswith('ok '): chk.k_bad(name, inp, 'array', ans[:200], None)
        else:
            m, _ = parse_nd(ans[3:]); ok, err, sc = close(out, m, RTOL_K)
            (chk.k_ok(name) if ok else chk.k_bad(name, inp, 'max diff %.3g' % err, 'scale %.3g' % sc, err))
    w = weights(xx); n = len(xx)
    parent = which - 1                      # split_1: population 1 splits into 1 and 3; split_2: population 2
    exp = np.zeros((n, n, n))
    for i in range(n):
        for j in range(n):
            k = (i, j)[parent]
            exp[i, j, k] = phi[i, j] / w[k]
    err = float(np.max(np.abs(out - exp)))
    if not err <= 1e-11 * float(np.max(np.abs(exp)) or 1.0):
        chk.fail('split_copy:%s' % name, '%s is not a copy of population %d: differs by %.3g' % (name, which, err), inp)
    back = integrate_out(out, xx, 2)
    e2 = float(np.max(np.abs(back - phi)))
    if not e2 <= RTOL_L3 * (float(np.max(np.abs(phi))) or 1.0):
        chk.fail('newpop_marginal:%s' % name, 'integrating population 3 out of %s changes the density by %.3g' % (name, e2), inp)

# ------------------------------------------------------------------------------------------ remove / filter / reorder
def case_remove(chk, ctx, xx, phi, popnum):
    PM = ctx['dadi'].PhiManip; driver = ctx['driver']
    inp = dict(op='remove', popnum=int(popnum), grid=np.asarray(xx).tolist(), shape=list(np.shape(phi)), phi=np.asarray(phi).ravel().tolist())
    xx = np.asarray(xx, dtype=float); phi = np.asarray(phi, dtype=float)
    chk.l3(('remove_pop', phi.ndim, popnum)); chk.stat('fn:remove_pop')
    try:
        out = np.asarray(PM.remove_pop(phi.copy(), xx, popnum))
    except Exception as e:
        chk.fail('remove:remove_pop:raises:%s' % type(e).__name__, 'remove_pop raises %r on valid arguments' % (e,), inp)
        return
    if driver is not None and driver.ok():
        ans = driver.ask('c06 remove %d %s %s' % (popnum, fmt_list(xx), fmt_nd(phi)))
        if not ans.startswith('ok '): chk.k_bad('remove_pop', inp, 'array', ans[:200], None)
        else:
            m, _ = parse_nd(ans[3:]); ok, err, sc = close(out, m.reshape(out.shape) if m.size == out.size else m, RTOL_K)
            (chk.k_ok('remove_pop') if ok else chk.k_bad('remove_pop', inp, 'max diff %.3g' % err, 'scale %.3g' % sc, err))
    exp = integrate_out(phi, xx, popnum - 1)
    err = float(np.max(np.abs(out - exp)))
    if out.shape != exp.shape or not err <= 1e-12 * (float(np.max(np.abs(phi))) or 1.0):
        chk.fail('remove:remove_pop', 'remove_pop(popnum=%d) is not the trapezoid marginalisation of that axis: off by %.3g' % (popnum, err), inp)
        return
    m0 = total_mass(phi, [xx] * phi.ndim); m1 = total_mass(out, [xx] * out.ndim) if out.ndim else float(out)
    if not abs(m1 - m0) <= 1e-12 * (total_mass(np.abs(phi), [xx] * phi.ndim) or 1.0):
        chk.fail('remove:mass', 'remove_pop changes the total mass: %.17g -> %.17g' % (m0, m1), inp)
    case_mass(chk, ctx, phi, [xx] * phi.ndim)

def case_filter(chk, ctx, xx, phi, tokeep):
    PM = ctx['dadi'].PhiManip; driver = ctx['driver']
    inp = dict(op='filter', tokeep=[int(t) for t in tokeep], grid=np.asarray(xx).tolist(), shape=list(np.shape(phi)), phi=np.asarray(phi).ravel().tolist())
    xx = np.asarray(xx, dtype=float); phi = np.asarray(phi, dtype=float)
    d = phi.ndim
    valid = len(set(tokeep)) == len(tokeep) and all(1 <= t <= d for t in tokeep)
    try:
        out = np.asarray(PM.filter_pops(phi.copy(), xx, list(tokeep))); exc = None
    except Exception as e:
        out = None; exc = e
    chk.l3(('filter_pops', d, len(tokeep), valid)); chk.stat('fn:filter_pops')
    if driver is not None and driver.ok():
        ans = driver.ask('c06 filter %s %s %s' % (','.join(str(int(t)) for t in tokeep) or '-', fmt_list(xx), fmt_nd(phi)))
        if exc is not None:
            (chk.k_ok('filter_pops:raises') if ans == 'err raises' else chk.k_bad('filter_pops', inp, repr(exc), ans[:200], None))
        elif not ans.startswith('ok '): chk.k_bad('filter_pops', inp, 'array', ans[:200], None)
        else:
            m, _ = parse_nd(ans[3:]); ok, err, sc = close(out, m.reshape(out.shape) if m.size == out.size else m, RTOL_K)
            (chk.k_ok('filter_pops') if ok else chk.k_bad('filter_pops', inp, 'max diff %.3g' % err, 'scale %.3g' % sc, err))
    if not valid:
        if exc is None:
            chk.fail('remove:filter_pops:accepts_invalid', 'filter_pops accepts tokeep=%r for %d populations' % (list(tokeep), d), inp)
        return
    if exc is not None:
        chk.fail('remove:filter_pops:raises', 'filter_pops raises %r on valid arguments' % (exc,), inp); return
    exp = phi
    for ax in sorted([k for k in range(d) if k + 1 not in tokeep], reverse=True):
        exp = integrate_out(exp, xx, ax)
    err = float(np.max(np.abs(out - exp))) if out.shape == np.shape(exp) else float('inf')
    if not err <= 1e-12 * (float(np.max(np.abs(phi))) or 1.0):
        chk.fail('remove:filter_pops', 'filter_pops(tokeep=%r) is not the marginalisation over the other populations: off by %.3g' % (list(tokeep), err), inp)
        return
    m0 = total_mass(phi, [xx] * d); m1 = total_mass(out, [xx] * out.ndim) if out.ndim else float(out)
    if not abs(m1 - m0) <= 1e-12 * (total_mass(np.abs(phi), [xx] * d) or 1.0):
        chk.fail('remove:mass', 'filter_pops changes the total mass: %.17g -> %.17g' % (m0, m1), inp)

def case_reorder(chk, ctx, phi, neworder, grids=None):
    PM = ctx['dadi'].PhiManip; driver = ctx['driver']
    inp = dict(op='reorder', neworder=[int(t) for t in neworder], shape=list(np.shape(phi)), phi=np.asarray(phi).ravel().tolist())
    phi = np.asarray(phi, dtype=float)
    d = phi.ndim
    valid = sorted(neworder) == list(range(1, d + 1))
    try:
        out = np.asarray(PM.reorder_pops(phi.copy(), list(neworder))); exc = None
    except Exception as e:
        out = None; exc = e
    chk.l3(('reorder_pops', d, tuple(neworder) if d <= 3 else valid)); chk.stat('fn:reorder_pops')
    if driver is not None and driver.ok():
        ans = driver.ask('c06 reorder %s %s' % (','.join(str(int(t)) for t in neworder) or '-', fmt_nd(phi)))
        if exc is not None:
            (chk.k_ok('reorder_pops:raises') if ans == 'err raises' else chk.k_bad('reorder_pops', inp, repr(exc), ans[:200], None))
        elif not ans.startswith('ok '): chk.k_bad('reorder_pops', inp, 'array', ans[:200], None)
        else:
            m, _ = parse_nd(ans[3:]); ok, err, sc = close(out, m, 0.0)
            (chk.k_ok('reorder_pops') if ok else chk.k_bad('reorder_pops', inp, 'max diff %.3g' % err, 'scale %.3g' % sc, err))
    if not valid:
        if exc is None:
            chk.fail('reorder:accepts_invalid', 'reorder_pops accepts neworder=%r for %d populations' % (list(neworder), d), inp)
        return
    if exc is not None:
        chk.fail('reorder:raises', 'reorder_pops raises %r on a valid permutation' % (exc,), inp); return
    # entry-wise: new population k is old population neworder[k]
    ok = out.shape == tuple(phi.shape[n - 1] for n in neworder)
    if ok:
        for idx in np.ndindex(*phi.shape):
            j = tuple(idx[n - 1] for n in neworder)
            if out[j] != phi[idx]: ok = False; break
    if not ok:
        chk.fail('reorder:entries', 'reorder_pops(%r): entry of the input at i is not found at j[k] = i[neworder[k]-1]' % (list(neworder),), inp); return
    inv = [list(neworder).index(k + 1) + 1 for k in range(d)]
    back = np.asarray(PM.reorder_pops(out, inv))
    if back.shape != phi.shape or not np.array_equal(back, phi):
        chk.fail('reorder:inverse', 'reordering by %r and then by its inverse %r does not restore phi' % (list(neworder), inv), inp)
    if grids is not None:
        # total mass with the grids permuted alike
        t0 = phi; t1 = out
        for ax in range(d - 1, -1, -1):
            t0 = integrate_out(t0, grids[ax], ax); t1 = integrate_out(t1, grids[neworder[ax] - 1], ax)
        if not abs(float(t0) - float(t1)) <= 1e-12 * abs(float(t0)):
            chk.fail('reorder:mass', 'total mass changes under reorder_pops: %.17g vs %.17g' % (float(t0), float(t1)), inp)


# ------------------------------------------------------------------------------------------ round 4: total mass (K), commutation, float guard
def case_mass(chk, ctx, phi, grids):
    """K: `totalMass` of the model = Numerics.trapz of the implementation applied to every axis in turn"""
    driver = ctx['driver']
    if driver is None or not driver.ok():
        return
    Num = ctx['dadi'].Numerics
    phi = np.asarray(phi, dtype=float); grids = [np.asarray(g, dtype=float) for g in grids]
    if phi.ndim == 0 or not np.all(np.isfinite(phi)):
        return
    t = phi
    inp = dict(op='mass', grids=[g.tolist() for g in grids], shape=list(phi.shape), phi=phi.ravel().tolist())
    try:
        for ax in range(phi.ndim):                    # always axis 0 of what is left, with the grid of that population
            t = Num.trapz(t, grids[ax], axis=0)
        impl = float(t)
    except Exception as e:
        chk.fail('total_mass:raises:%s' % type(e).__name__, 'Numerics.trapz applied to every axis in turn (each with its own grid) raises %r on a %s density' % (e, 'x'.join(map(str, phi.shape))), inp)
        return
    ans = driver.ask('c06 mass %s %s' % (fmt_grids(grids), fmt_nd(phi)))
    chk.stat('k:mass')
    if not ans.startswith('ok '):
        chk.k_bad('total_mass', inp, repr(impl), ans[:200], None); return
    m = float(Fraction(ans[3:].strip()))
    sc = total_mass(np.abs(phi), grids) or 1.0
    (chk.k_ok('total_mass') if abs(impl - m) <= RTOL_K * sc else chk.k_bad('total_mass', inp, repr(impl), repr(m), abs(impl - m)))

PULSE_BY = dict(((d, dest), n) for n, d, dest in PULSES)

def case_pulse_remove(chk, ctx, name, rng, tier):
    """L3: a pulse commutes with the removal of a population that contributes nothing to it (proportion 0):
       remove_pop(pulse_d(phi), a) = pulse_{d-1}(remove_pop(phi, a)) — both sides computed by the implementation"""
    d, dest = SPEC[name]
    if dest is None or d < 3:
        return
    PM = ctx['dadi'].PhiManip
    lo, hi = SIZES[tier][d]
    n = int(rng.integers(lo, hi + 1))
    g, gk = gen_grid(rng, n)
    phi = gen.density(rng, (n,) * d)
    a = int(rng.choice([m for m in range(d) if m != dest]))
    fs, _ = gen_props(rng, d - 1, 'interior')
    pa = a if a < dest else a - 1                 # position of population a among the proportions
    fs[pa] = 0.0
    out, exc = call_impl(ctx, name, fs, [g] * d, phi)
    chk.l3((name, 'pulse_remove_comm', a)); chk.stat('l3:pulse_remove_comm')
    inp = inp_fn(name, fs, [g] * d, phi); inp['removed'] = a + 1
    if exc is not None:
        chk.fail('pulse_marginal:%s:raises:%s' % (name, type(exc).__name__), '%s raises %r on valid arguments' % (name, exc), inp); return
    lhs = np.asarray(PM.remove_pop(out, g, a + 1))
    dest2 = dest if dest < a else dest - 1
    name2 = PULSE_BY[(d - 1, dest2)]
    fs2 = [x for i, x in enumerate(fs) if i != pa]
    rhs, exc2 = call_impl(ctx, name2, fs2, [g] * (d - 1), np.asarray(PM.remove_pop(phi.copy(), g, a + 1)))
    if exc2 is not None:
        chk.fail('pulse_marginal:%s:raises:%s' % (name2, type(exc2).__name__), '%s raises %r on valid arguments' % (name2, exc2), inp); return
    err = float(np.max(np.abs(lhs - rhs))); sc = float(np.max(np.abs(rhs))) or 1.0
    if not err <= 1e-10 * sc:
        chk.fail('pulse_remove_comm:%s' % name, '%s followed by remove_pop(%d) differs from remove_pop(%d) followed by %s (population %d has proportion 0): %.3g (scale %.3g)'
                 % (name, a + 1, a + 1, name2, a + 1, err, sc), inp)

def case_pulse_twice(chk, ctx, name, rng, tier):
    """L3: two pulses into the same population leave the joint density of the others unchanged"""
    d, dest = SPEC[name]
    if dest is None:
        return
    lo, hi = SIZES[tier][d]
    n = int(rng.integers(lo, hi + 1))
    g, gk = gen_grid(rng, n)
    phi = gen.density(rng, (n,) * d)
    f1, _ = gen_props(rng, d - 1, 'interior'); f2, _ = gen_props(rng, d - 1, 'interior')
    o1, e1 = call_impl(ctx, name, f1, [g] * d, phi)
    if e1 is not None: return
    o2, e2 = call_impl(ctx, name, f2, [g] * d, o1)
    chk.l3((name, 'pulse_twice')); chk.stat('l3:pulse_twice')
    inp = inp_fn(name, f2, [g] * d, o1)
    if e2 is not None:
        chk.fail('pulse_marginal:%s:raises:%s' % (name, type(e2).__name__), '%s raises %r on the result of a pulse' % (name, e2), inp); return
    a = integrate_out(o2, g, dest); b = integrate_out(phi, g, dest)
    err = float(np.max(np.abs(a - b))); sc = float(np.max(np.abs(b))) or 1.0
    if not err <= 10 * RTOL_L3 * sc:
        chk.fail('pulse_marginal:%s:twice' % name, 'two successive %s change the joint density of the other populations by %.3g (scale %.3g)' % (name, err, sc), inp)

def _float_of_fraction_down(r):
    """largest double <= r (r a non-negative Fraction)"""
    x = float(r)
    if Fraction(x) > r:
        x = float(np.nextafter(x, -np.inf))
    return x

PY_SUM = 'neumaier' if sys.version_info >= (3, 12) else 'seq'

def float_guard_vectors(rng, nf, tries):
    for t in range(tries):
        kind = ['le1_tight', 'gt1_tight', 'generic', 'tenths', 'repeat'][t % 5]
        if kind == 'generic':
            w = rng.dirichlet(np.ones(nf + 1)); f = [float(x) for x in w[:nf]]
        elif kind == 'tenths':
            parts = rng.multinomial(10, np.ones(nf) / nf); f = [float(p) / 10.0 for p in parts]      # multiples of 0.1: exact sum = 1 +- ulps
        elif kind == 'repeat':
            f = [1.0 / nf] * nf
        else:
            w = rng.dirichlet(np.ones(nf)) if nf > 1 else np.array([1.0])
            f = [float(x) * float(rng.uniform(0.5, 1.0)) for x in w]
            rest = Fraction(1) - sum(Fraction(x) for x in f[:-1])
            last = _float_of_fraction_down(rest)             # exact sum <= 1, less than one ulp below
            if kind == 'gt1_tight':
                last = float(np.nextafter(last, np.inf))     # exact sum > 1 by less than one ulp
            f[-1] = last
        if all(x >= 0 for x in f):
            yield kind, f

def case_float_guard_one(chk, ctx, name, kind, f):
    d, dest = SPEC[name]
    driver = ctx['driver']
    PM = ctx['dadi'].PhiManip
    grids = [np.array([0.0, 1.0])] * (d if dest is not None else d + 1)
    tot = exact_sum(f)
    for how, conv, alg in (('pyfloat', float, PY_SUM), ('npfloat64', np.float64, 'seq')):
        args = [conv(x) for x in f]
        try:
            getattr(PM, name)(np.ones((2,) * d), *args, *grids); raised = False
        except ValueError as e:
            if 'non-sensible' not in str(e): raise
            raised = True
        chk.stat('floatguard:%s:%s' % (kind, how))
        inp = dict(op='floatguard', fn=name, fs=[float(x) for x in f], kind=kind)
        if driver is not None and driver.ok():
            ans = driver.ask('c06 guardfl %s %s %s' % (name, alg, fmt_list(f)))
            good = ans == ('ok 1' if raised else 'ok 0')
            (chk.k_ok('float_guard:' + how) if good else chk.k_bad('float_guard:' + how, inp, 'raises' if raised else 'accepts', ans[:100], None))
        chk.l3((name, 'floatguard', kind, how, tot > 1))
        if tot <= 1 and raised:
            chk.fail('simplex_accept:%s:roundoff' % name,
                     '%s rejects proportions %r (passed as %s) whose exact sum %.17g is <= 1' % (name, f, how, float(tot)), inp)
        if tot > 1 and not raised:
            # sums above 1 by less than ~n ulp may be accepted by the float comparison (C06_simplex_reject_float): counted
            chk.stat('floatguard:accepted_above_one_within_ulps')
            if float(tot - 1) > 4 * 2.0 ** -52:
                chk.fail('simplex_reject:%s' % name, '%s accepts proportions %r whose sum exceeds 1 by %.3g' % (name, f, float(tot - 1)), inp)

def case_float_guard(chk, ctx, name, rng, tries):
    """K: the generated FLOAT guard (binary64 rounding, `sum` = left fold for numpy scalars / Neumaier for Python floats on
       CPython >= 3.12) against the implementation's accept/reject decision on boundary vectors;
       L3: every non-negative vector whose EXACT sum is <= 1 is accepted, however the proportions are passed."""
    d, dest = SPEC[name]
    for kind, f in float_guard_vectors(rng, d - 1, tries):
        case_float_guard_one(chk, ctx, name, kind, f)

def case_rounding(chk, ctx, rng, n):
    """K: the model's binary64 rounding and its two `sum` algorithms against the machine (exact comparison of doubles)"""
    driver = ctx['driver']
    if driver is None or not driver.ok():
        return
    for i in range(n):
        kind = i % 4
        if kind == 0:
            r = Fraction(int(rng.integers(1, 10 ** 12)), int(rng.integers(1, 10 ** 12)))
        elif kind == 1:       # midpoints between neighbouring doubles around 1, and their neighbourhoods
            k = int(rng.integers(0, 6)); base = Fraction(1) + Fraction(k, 2 ** 52)
            r = base + Fraction(int(rng.integers(-1, 2)), 2 ** 60) + Fraction(1, 2 ** 53)
        elif kind == 2:
            r = Fraction(int(rng.integers(1, 2 ** 60)), 2 ** int(rng.integers(50, 70)))
        else:
            r = Fraction(int(rng.integers(-10 ** 9, 10 ** 9)), 3 ** int(rng.integers(1, 30)))
        ans = driver.ask('c06 rnd %d/%d' % (r.numerator, r.denominator))
        impl = Fraction(float(r))            # Fraction -> float is correctly rounded (round-half-even)
        good = ans.startswith('ok ') and Fraction(ans[3:].strip()) == impl
        (chk.k_ok('rndDouble') if good else chk.k_bad('rndDouble', dict(op='rnd', x=str(r)), str(impl), ans[:100], None))
    for i in range(n):
        m = int(rng.integers(1, 7))
        xs = [float(x) for x in rng.uniform(0, 1, m)] if i % 2 else [float(int(rng.integers(0, 11))) / 10.0 for _ in range(m)]
        for how, conv, alg in (('pyfloat', float, PY_SUM), ('npfloat64', np.float64, 'seq')):
            impl = Fraction(float(sum([conv(x) for x in xs])))
            ans = driver.ask('c06 fsum %s %s' % (alg, fmt_list(xs)))
            good = ans.startswith('ok ') and Fraction(ans[3:].strip()) == impl
            (chk.k_ok('builtin_sum:' + how) if good else chk.k_bad('builtin_sum:' + how, dict(op='fsum', xs=xs, how=how), str(impl), ans[:100], None))

def case_roundoff_corner(chk, ctx, rng, tier):
    """proportions whose float remainder makes the corner cell's mixed frequency land one ulp ABOVE the last grid point
       (0.2+0.2+0.2+(1-0.2-0.2-0.2) = 1.0000000000000002): the clamp path of _admixture_intermediates in a real call"""
    for name in ('phi_4D_to_5D', 'phi_4D_admix_into_1', 'phi_4D_admix_into_2', 'phi_4D_admix_into_3', 'phi_4D_admix_into_4',
                 'phi_3D_to_4D', 'phi_5D_admix_into_5', 'phi_5D_admix_into_2'):
        d, dest = SPEC[name]
        n = 3 if d == 5 else 4
        g, _ = gen_grid(rng, n, 'exponential')
        cands = [{2: [0.2, 0.2], 3: [0.2, 0.2, 0.2], 4: [0.1, 0.2, 0.3, 0.1]}[d - 1]]
        for _ in range(5):
            parts = rng.multinomial(int(rng.integers(3, 10)), np.ones(d - 1) / (d - 1))
            cands.append([float(p_) / 10.0 for p_ in parts])
        grids = [g] * (d if dest is not None else d + 1)
        phi = gen.density(rng, (n,) * d) + 0.5
        for fs in cands:
            # the corner where every parent is fixed (x_m = 1): Σ c_m in floats, in population order and in reverse
            c = full_coefs_float(name, fs)
            def seq(v):
                t = 0.0
                for x in v: t = t + x
                return t
            tops = [seq(c), seq(c[::-1]), seq(c[1:] + c[:1])]
            chk.stat('roundoff_corner:' + ('above_one' if max(tops) > 1.0 else 'at_or_below_one'))
            case_fn(chk, ctx, name, fs, grids, phi, do_k=True, kinds=dict(props='roundoff_corner'))

def full_coefs_float(name, fs):
    """the coefficient vector with the remainder computed as the documentation writes it (1 - f1 - f2 - ..), in floats"""
    d, dest = SPEC[name]
    rem = 1.0
    for x in fs: rem = rem - x
    c = list(fs); c.insert(d - 1 if dest is None else dest, rem)
    return c

# ------------------------------------------------------------------------------------------ single cells of _admixture_intermediates (K)
def case_cells(chk, ctx, rng, ncells):
    PM = ctx['dadi'].PhiManip; driver = ctx['driver']
    if driver is None or not driver.ok():
        return
    n = int(rng.integers(2, 9))
    zz, gk = gen_grid(rng, n)
    kinds = []
    ad = []
    for _ in range(ncells):
        k = ['inside', 'on_grid', 'zero', 'one', 'above_one_ulp', 'below_zero', 'far_above', 'below_ulp_of_grid'][int(rng.integers(8))]
        if k == 'inside': v = float(rng.uniform(0, 1))
        elif k == 'on_grid': v = float(zz[int(rng.integers(n))])
        elif k == 'zero': v = 0.0
        elif k == 'one': v = 1.0
        elif k == 'above_one_ulp': v = float(np.nextafter(1.0, 2.0))
        elif k == 'below_zero': v = -float(rng.uniform(0, 0.2))
        elif k == 'far_above': v = 1.0 + float(rng.uniform(0, 0.5))
        else: v = float(np.nextafter(zz[int(rng.integers(1, n))], -1.0))
        ad.append(v); kinds.append(k)
    ad = np.array(ad); phi = rng.uniform(0.1, 5.0, ncells)
    lo, up, fl, fu, nm = PM._admixture_intermediates(phi, ad, zz)
    for i in range(ncells):
        inp = dict(op='cell', zz=zz.tolist(), phi=float(phi[i]), adz=float(ad[i]))
        ans = driver.ask('c06 cell %s %s %s' % (fmt_list(zz), rat(phi[i]), rat(ad[i])))
        chk.stat('cell:' + kinds[i])
        if not ans.startswith('ok '):
            chk.k_bad('_admixture_intermediates', inp, 'tuple', ans[:200], None); continue
        t = ans.split(' ')
        ml, mu = int(t[1]), int(t[2]); mfl, mfu, mnm = [float(Fraction(x)) for x in t[3:6]]
        good = (ml == int(lo[i]) and mu == int(up[i]))
        for a, b in ((fl[i], mfl), (fu[i], mfu), (nm[i], mnm)):
            if not (np.isfinite(a) and abs(a - b) <= 1e-9 * max(1.0, abs(b))): good = False
        (chk.k_ok('_admixture_intermediates') if good else
         chk.k_bad('_admixture_intermediates', inp, repr((int(lo[i]), int(up[i]), float(fl[i]), float(fu[i]), float(nm[i]))), ans[:300], None))
        # L3 (C06_deposit_clamped / C06_deposit_mass): two distinct adjacent indices inside the grid whatever adz is, and the
        # deposit integrates to phi — inside [z_0, z_last] always, beyond the ends as long as the overshoot is small
        # against the last / first spacings (delta * neighbouring spacing < 1/2 * bracket width^2)
        l_, u_ = int(lo[i]), int(up[i])
        chk.l3(('cell', kinds[i], n))
        if not (0 <= l_ and u_ == l_ + 1 and u_ <= n - 1):
            chk.fail('support:_admixture_intermediates', 'lower/upper index (%d, %d) are not two adjacent grid points of a grid of %d points (adz = %.17g)'
                     % (l_, u_, n, float(ad[i])), inp)
            continue
        d1 = float(zz[u_] - zz[l_])
        if ad[i] > zz[-1]:
            okc = (ad[i] - zz[-1]) * (float(zz[l_] - zz[l_ - 1]) if l_ > 0 else 0.0) < 0.5 * d1 * d1
        elif ad[i] < zz[0]:
            okc = (zz[0] - ad[i]) * (float(zz[u_ + 1] - zz[u_]) if u_ + 1 < n else 0.0) < 0.5 * d1 * d1
        else:
            okc = True
        if okc:
            w = weights(zz)
            mass = w[l_] * fl[i] * nm[i] + w[u_] * fu[i] * nm[i]
            if not (np.isfinite(mass) and abs(mass - phi[i]) <= 1e-9 * abs(phi[i])):
                chk.fail('deposit_mass:_admixture_intermediates', 'the deposit of a cell with density %.6g and mixed frequency %.17g integrates to %.17g'
                         % (float(phi[i]), float(ad[i]), float(mass)), inp)
            chk.stat('l3:cell_mass:' + kinds[i])

# ------------------------------------------------------------------------------------------ round 6: memory layouts, rectangular densities
# "for all densities, all grids" quantifies over array OBJECTS: a density that is a transposed / Fortran-ordered / strided /
# reversed view (what `reorder_pops` returns, what slicing returns) is the same density, and populations may live on grids of
# different lengths.  Every public function is run on such inputs on EVERY run (fixed list of layouts and of rectangular
# shapes, nothing left to chance), compared with the same call on a C-contiguous copy, and the clauses of the property are
# evaluated on the result.  What each docstring promises about the argument is asserted as written:
#   pulses  "Alters phi in place and returns the new version."  -> the array object that was passed holds the new version
#            afterwards AND the returned array is the new version (never silently neither), nothing outside the view is touched;
#   the others "Returns a new .. phi"                            -> the argument is not modified.
SENTINEL = -12345.5

def layout_json(layout):
    return [layout[0]] + [[int(x) for x in layout[1]]] if len(layout) > 1 else [layout[0]]

def layout_tag(layout):
    return layout[0] + ('' if len(layout) == 1 else '[' + ','.join(str(int(x)) for x in layout[1]) + ']')

def perm_layouts(d, rng=None):
    """axis orders as 1-based `neworder` of reorder_pops: Fortran order, both rotations, first two swapped, last two swapped
    (d = 3: all five non-identity permutations) and, for d >= 4, one more drawn from the run's generator"""
    ident = list(range(1, d + 1))
    cands = [ident[::-1], ident[1:] + ident[:1], ident[-1:] + ident[:-1], [2, 1] + ident[2:] if d >= 2 else ident,
             ident[:-2] + [d, d - 1] if d >= 2 else ident]
    if d >= 4 and rng is not None:
        cands.append([int(x) + 1 for x in rng.permutation(d)])
    out = []
    for c in cands:
        if c != ident and c not in out:
            out.append(c)
    return out

def all_layouts(d, rng=None):
    ls = [('reorder', p) for p in perm_layouts(d, rng)]
    ls += [('strided',), ('flipped',)]
    if d >= 2:
        ls.append(('fortran',))
    return ls

def make_view(ctx, phi, layout):
    """an array object whose entries are those of `phi` but whose memory layout is not C-contiguous.
       ('reorder', neworder): what PhiManip.reorder_pops(base, neworder) returns for the C-contiguous `base` holding the
                              populations in the order that makes the result equal to phi (the multi-step sequence
                              reorder_pops -> pulse / split / removal of the Demes-built models);
       ('strided',):  every second entry of a larger array, starting at 1 (offset, non-unit strides; the rest holds SENTINEL);
       ('flipped',):  negative strides along every axis;
       ('fortran',):  a column-major array (owns its memory).
       returns (view, base) — base owns the memory."""
    phi = np.asarray(phi, dtype=float)
    d = phi.ndim
    kind = layout[0]
    if kind == 'reorder':
        p = [int(x) - 1 for x in layout[1]]
        base = np.ascontiguousarray(phi.transpose(np.argsort(p)))
        v = None
        try:
            v = np.asarray(ctx['dadi'].PhiManip.reorder_pops(base, [x + 1 for x in p]))
        except Exception:
            pass
        if v is None or v.shape != phi.shape or not np.array_equal(v, phi) or not np.shares_memory(v, base):
            v = base.transpose(p)           # reorder_pops is judged by case_reorder; here only the layout matters
    elif kind == 'strided':
        base = np.full(tuple(2 * n + 1 for n in phi.shape), SENTINEL)
        sl = tuple(slice(1, None, 2) for _ in range(d))
        base[sl] = phi; v = base[sl]
    elif kind == 'flipped':
        sl = tuple(slice(None, None, -1) for _ in range(d))
        base = np.ascontiguousarray(phi[sl]); v = base[sl]
    elif kind == 'fortran':
        base = np.array(phi, order='F', copy=True); v = base
    elif kind == 'contiguous':
        base = np.array(phi, order='C', copy=True); v = base
    else:
        raise ValueError(layout)
    assert v.shape == phi.shape and np.array_equal(v, phi)
    return v, base

def same_bits(a, b):
    return a is not None and b is not None and np.shape(a) == np.shape(b) and np.array_equal(a, b, equal_nan=True)

def documented_inplace(fn):
    return bool(re.search(r'alters\s+phi\s+in\s+place', fn.__doc__ or '', re.I))

def rect_shapes(d, tier, rot):
    """pairwise different extents (so that no two loop bounds / grids / index ranges can be exchanged unnoticed), in two
    opposite orders (a bound that is too short is silent, one that is too long raises)"""
    base = {'quick': {1: [7], 2: [4, 6], 3: [3, 4, 5], 4: [2, 3, 4, 5], 5: [2, 3, 4, 5, 6]},
            'thorough': {1: [11], 2: [5, 9], 3: [4, 5, 7], 4: [3, 4, 5, 6], 5: [2, 3, 4, 5, 6]}}[tier][d]
    r = rot % d
    s1 = base[r:] + base[:r]
    return [tuple(s1), tuple(s1[::-1])] if d > 1 else [tuple(s1)]

def case_layout(chk, ctx, name, fs, grids, phi, layout, do_k=False, kinds=None):
    """one of the 17 functions on an array with the entries of `phi` in memory layout `layout`: same result, bit for bit, as on
    a C-contiguous copy; argument treated as documented; then the clauses of the property (case_fn) on THAT result"""
    d, dest = SPEC[name]
    PM = ctx['dadi'].PhiManip
    fn = getattr(PM, name)
    grids = [np.asarray(g, dtype=float) for g in grids]
    phi = np.asarray(phi, dtype=float)
    inp = inp_fn(name, fs, grids, phi, layout)
    tag = layout_tag(layout)
    ref, rexc = call_impl(ctx, name, fs, grids, phi)
    view, base = make_view(ctx, phi, layout)
    base0 = base.copy()
    gargs = [g.copy() for g in grids]
    try:
        ret = fn(view, *fs, *gargs); exc = None
    except Exception as e:
        ret = None; exc = e
    out = None if ret is None else np.array(ret, dtype=float, copy=True)
    chk.l3((name, 'layout', tag, tuple(phi.shape) if len(set(phi.shape)) > 1 else 'cube')); chk.stat('l3:layout')
    chk.stat('layout_shape:' + ('rectangular' if len(set(phi.shape)) > 1 else 'cube'))
    what_layout = '%s-dimensional density of shape %s given as %s' % (d, tuple(phi.shape), {
        'reorder': 'the view returned by reorder_pops(.., %s)' % (list(layout[1]) if len(layout) > 1 else ''),
        'strided': 'a strided view (every second entry of a larger array)', 'flipped': 'a view with negative strides',
        'fortran': 'a Fortran-ordered array', 'contiguous': 'a C-contiguous array'}[layout[0]])
    if any(not np.array_equal(a, b) for a, b in zip(gargs, grids)):
        chk.fail('input_modified:%s:grid' % name, '%s modifies a grid it was given' % name, inp)
    if (exc is None) != (rexc is None) or (exc is not None and type(exc) is not type(rexc)):
        chk.fail('layout:%s:raises' % name, '%s on a %s: %s, but on a C-contiguous copy: %s'
                 % (name, what_layout, 'raises %r' % (exc,) if exc is not None else 'returns', 'raises %r' % (rexc,) if rexc is not None else 'returns'), inp)
    elif exc is None:
        if not same_bits(out, ref):
            e_ = float(np.max(np.abs(out - ref))) if out.shape == ref.shape else float('inf')
            unchanged = out.shape == phi.shape and np.array_equal(out, phi)
            chk.fail('layout:%s:differs' % name, '%s on a %s returns something else than on a C-contiguous copy of the same density: max difference %.3g%s'
                     % (name, what_layout, e_, ' (the density is returned unchanged: the call did nothing)' if unchanged and not np.array_equal(ref, phi) else ''), inp)
        outside = np.ones(base.shape, dtype=bool)
        if layout[0] == 'strided':
            outside[tuple(slice(1, None, 2) for _ in range(d))] = False
            if not np.array_equal(base[outside], base0[outside]):
                chk.fail('inplace:%s:outside_view' % name, '%s writes to memory outside the view it was given (%s)' % (name, what_layout), inp)
        if dest is not None and documented_inplace(fn):
            # "Alters phi in place and returns the new version."
            altered = same_bits(view, ref); returned = same_bits(out, ref)
            if not (altered and returned):
                how = ('neither alters the array it was given nor returns the new version' if not altered and not returned else
                       'returns the new version but leaves the array it was given %s' % ('untouched' if np.array_equal(view, phi) else 'half-updated') if returned else
                       'alters the array it was given but returns something else')
                chk.fail('inplace:%s' % name, '%s is documented "Alters phi in place and returns the new version"; on a %s it %s' % (name, what_layout, how), inp)
            chk.stat('l3:inplace_as_documented')
        else:
            # constructors ("A new .. phi array") and pulses no longer documented in place: the argument must not change
            if not (np.array_equal(view, phi) and np.array_equal(base, base0)):
                chk.fail('input_modified:%s' % name, '%s is not documented to work in place but modifies its argument (%s)' % (name, what_layout), inp)
            if ret is not None and np.shares_memory(np.asarray(ret), base):
                chk.fail('input_modified:%s:aliased' % name, '%s is documented to return a NEW array but the result shares memory with the argument' % name, inp)
            chk.stat('l3:argument_untouched')
    if do_k and layout[0] != 'contiguous':
        case_view_k(chk, ctx, name, fs, grids, phi, layout)
    case_fn(chk, ctx, name, fs, grids, phi, do_k=(do_k and layout[0] == 'contiguous'), kinds=kinds,
            layout=(None if layout[0] == 'contiguous' else layout), pre=(out, exc))

def memory_of(view, base):
    """(flat memory of `base` in address order, offset and strides of `view` in elements)"""
    item = base.itemsize
    if base.flags['C_CONTIGUOUS']:
        mem = base.reshape(-1)
    elif base.flags['F_CONTIGUOUS']:
        mem = base.T.reshape(-1)
    else:
        raise ValueError('base is not contiguous')
    assert np.shares_memory(mem, base)
    off = (view.__array_interface__['data'][0] - base.__array_interface__['data'][0]) // item
    return mem, int(off), [int(st // item) for st in view.strides]

def case_view_k(chk, ctx, name, fs, grids, phi, layout):
    """K on the array OBJECT: the flat memory before, offset / strides / shape of the view -> the model's `applyInPlace`
    (stores through the view as the generated memRows / loopRows say) against the memory after the real call and what it returns"""
    driver = ctx['driver']
    if driver is None or not driver.ok():
        return
    d, dest = SPEC[name]
    PM = ctx['dadi'].PhiManip
    if 8e-16 * max(grid_condition(g) for g in grids) > 0.1 * RTOL_K:
        chk.k_skipped += 1; chk.stat('k:skipped_illconditioned_grid'); return
    view, base = make_view(ctx, phi, layout)
    mem, off, strides = memory_of(view, base)
    if mem.size * view.size > 1500000:
        chk.k_skipped += 1; chk.stat('k:skipped_large_memory'); return
    mem0 = mem.copy()
    inp = inp_fn(name, fs, grids, phi, layout)
    try:
        ret = getattr(PM, name)(view, *fs, *[np.array(g, dtype=float) for g in grids]); exc = None
        out = np.array(ret, dtype=float, copy=True)
    except Exception as e:
        exc = e; out = None
    ans = driver.ask('c06 fnview %s %s %s %d %s %s %s' % (name, fmt_list(fs), fmt_grids(grids), off, ','.join(str(x) for x in strides),
                                                      ','.join(str(int(n)) for n in view.shape), fmt_nd(mem0)))
    op = 'view:' + name
    chk.stat('k:view:' + layout[0])
    if exc is not None:
        good = isinstance(exc, ValueError) and 'non-sensible' in str(exc) and ans == 'err raises'
        (chk.k_ok(op + ':raises') if good else chk.k_bad(op, inp, 'raises %r' % (exc,), ans[:200], None))
        return
    if not ans.startswith('ok '):
        chk.k_bad(op, inp, 'returns an array of shape %s' % (out.shape,), ans[:200], None); return
    if not (np.all(np.isfinite(out)) and np.all(np.isfinite(mem))):
        chk.k_skipped += 1; return
    t = ans.split(' ')
    mo, _ = parse_nd(t[1]); mm, _ = parse_nd(t[2])
    ok1, e1, sc1 = close(out, mo, RTOL_K)
    # the memory outside the view holds SENTINEL (exact on both sides): measure everything on the scale of the density
    sc2 = sc1
    e2 = float(np.max(np.abs(mem - mm))) if mem.shape == mm.shape else float('inf')
    ok2 = e2 <= RTOL_K * (sc1 or 1.0)
    if ok1 and ok2:
        chk.k_ok(op)
    else:
        chk.k_bad(op, inp, 'returned array: max|impl-model| = %.3g; memory afterwards: max|impl-model| = %.3g (%d of %d cells differ)'
                  % (e1, e2, int(np.sum(~np.isclose(mem, mm, rtol=1e-9, atol=1e-9 * (sc2 or 1.0)))) if mem.shape == mm.shape else -1, mem.size),
                  'scale %.3g / %.3g' % (sc1, sc2), max(e1, e2))

def case_inplace_contiguous(chk, ctx, name, fs, grids, phi):
    """the in-place / new-array promise of the docstring on an ordinary C-contiguous argument"""
    case_layout(chk, ctx, name, fs, grids, phi, ('contiguous',), do_k=False)

def perm_fn_args(name, fs, grids, neworder):
    """the call that is equivalent, on the ORIGINAL population order, to `name(reorder_pops(phi, neworder), fs, grids')` where
    grids'[k] = grids[neworder[k]-1]: new population k is old population neworder[k]"""
    d, dest = SPEC[name]
    p = [int(x) - 1 for x in neworder]
    odest = p[dest]
    name2 = PULSE_BY[(d, odest)]
    newsrc = [k for k in range(d) if k != dest]
    prop_of_old = dict((p[k], fs[i]) for i, k in enumerate(newsrc))
    fs2 = [prop_of_old[m] for m in range(d) if m != odest]
    return name2, fs2

def case_pulse_reorder(chk, ctx, name, rng, tier, neworder, shape):
    """L3, multi-step: a pulse commutes with the axis permutation — reorder_pops then the pulse into (new) population k is
    reorder_pops of the pulse into the old population that became k, same proportions per population (implementation on both sides)"""
    d, dest = SPEC[name]
    PM = ctx['dadi'].PhiManip
    grids0, _ = gen_grids(rng, shape, 'distinct', d)
    phi = gen.density(rng, shape)
    fs, _ = gen_props(rng, d - 1, 'interior')
    p = [int(x) - 1 for x in neworder]
    gridsA = [grids0[p[k]] for k in range(d)]
    inp = inp_fn(name, fs, gridsA, phi.transpose(p), ('reorder', list(neworder)))
    chk.l3((name, 'pulse_reorder_comm', tuple(neworder))); chk.stat('l3:pulse_reorder_comm')
    try:
        A = PM.reorder_pops(phi.copy(), list(neworder))
        lhs = np.array(getattr(PM, name)(A, *fs, *gridsA), copy=True)
    except Exception as e:
        chk.fail('pulse_marginal:%s:view:raises:%s' % (name, type(e).__name__), 'reorder_pops(.., %r) followed by %s raises %r' % (list(neworder), name, e), inp)
        return
    name2, fs2 = perm_fn_args(name, fs, grids0, neworder)
    rhs0, exc2 = call_impl(ctx, name2, fs2, grids0, phi)
    if exc2 is not None:
        chk.fail('pulse_marginal:%s:raises:%s' % (name2, type(exc2).__name__), '%s raises %r on valid arguments' % (name2, exc2), inp_fn(name2, fs2, grids0, phi)); return
    rhs = rhs0.transpose(p)
    err = float(np.max(np.abs(lhs - rhs))) if lhs.shape == rhs.shape else float('inf')
    sc = float(np.max(np.abs(rhs))) or 1.0
    if not err <= 1e-10 * sc:
        chk.fail('pulse_reorder_comm:%s' % name, 'reorder_pops(phi, %r) followed by %s differs from %s followed by reorder_pops(.., %r): %.3g (scale %.3g)'
                 % (list(neworder), name, name2, list(neworder), err, sc), inp)

def case_remove_layout(chk, ctx, grids, phi, layout):
    """remove_pop of every population of a density given in another memory layout, own grid per population"""
    PM = ctx['dadi'].PhiManip
    phi = np.asarray(phi, dtype=float); d = phi.ndim
    for pop in range(1, d + 1):
        xx = np.asarray(grids[pop - 1], dtype=float)
        inp = dict(op='remove', popnum=pop, grid=xx.tolist(), shape=list(phi.shape), phi=phi.ravel().tolist(), layout=layout_json(layout))
        view, base = make_view(ctx, phi, layout); base0 = base.copy()
        chk.l3(('remove_pop', 'layout', layout_tag(layout), d, pop)); chk.stat('l3:layout'); chk.stat('fn:remove_pop')
        try:
            ret = PM.remove_pop(view, xx, pop)
            ref = np.asarray(PM.remove_pop(phi.copy(), xx, pop))
        except Exception as e:
            chk.fail('remove:remove_pop:view:raises:%s' % type(e).__name__, 'remove_pop raises %r on a %s density' % (e, layout_tag(layout)), inp); continue
        out = np.asarray(ret)
        exp = integrate_out(phi, xx, pop - 1)
        sc = float(np.max(np.abs(phi))) or 1.0
        # numpy.sum blocks its additions according to the memory order: agreement to a few ulp, not bit for bit
        if out.shape != exp.shape or not float(np.max(np.abs(out - ref), initial=0.0)) <= 1e-14 * sc:
            chk.fail('layout:remove_pop:differs', 'remove_pop(popnum=%d) on a %s density differs from the same call on a C-contiguous copy' % (pop, layout_tag(layout)), inp); continue
        if not float(np.max(np.abs(out - exp), initial=0.0)) <= 1e-12 * sc:
            chk.fail('remove:remove_pop:view', 'remove_pop(popnum=%d) on a %s density is not the trapezoid marginalisation of that axis' % (pop, layout_tag(layout)), inp)
        if not np.array_equal(base, base0):
            chk.fail('input_modified:remove_pop', 'remove_pop modifies its argument (%s)' % layout_tag(layout), inp)
        if out.ndim and np.shares_memory(out, base):
            chk.fail('input_modified:remove_pop:aliased', 'remove_pop is documented to return a new phi but the result shares memory with the argument', inp)

def case_filter_layout(chk, ctx, xx, phi, tokeep, layout):
    PM = ctx['dadi'].PhiManip
    phi = np.asarray(phi, dtype=float); d = phi.ndim; xx = np.asarray(xx, dtype=float)
    inp = dict(op='filter', tokeep=[int(t) for t in tokeep], grid=xx.tolist(), shape=list(phi.shape), phi=phi.ravel().tolist(), layout=layout_json(layout))
    view, base = make_view(ctx, phi, layout); base0 = base.copy()
    chk.l3(('filter_pops', 'layout', layout_tag(layout), d, len(tokeep))); chk.stat('l3:layout'); chk.stat('fn:filter_pops')
    try:
        out = np.asarray(PM.filter_pops(view, xx, list(tokeep)))
    except Exception as e:
        chk.fail('remove:filter_pops:view:raises:%s' % type(e).__name__, 'filter_pops raises %r on a %s density' % (e, layout_tag(layout)), inp); return
    exp = phi
    for ax in sorted([k for k in range(d) if k + 1 not in tokeep], reverse=True):
        exp = integrate_out(exp, xx, ax)
    sc = float(np.max(np.abs(phi))) or 1.0
    if out.shape != np.shape(exp) or not float(np.max(np.abs(out - exp), initial=0.0)) <= 1e-12 * sc:
        chk.fail('remove:filter_pops:view', 'filter_pops(tokeep=%r) on a %s density is not the marginalisation over the other populations' % (list(tokeep), layout_tag(layout)), inp)
    if not np.array_equal(base, base0):
        chk.fail('input_modified:filter_pops', 'filter_pops modifies its argument (%s)' % layout_tag(layout), inp)

def case_reorder_layout(chk, ctx, phi, neworder, layout):
    """reorder_pops of a density that is itself a view (two reorderings in a row, reordering of a slice): entries, inverse,
    argument untouched"""
    PM = ctx['dadi'].PhiManip
    phi = np.asarray(phi, dtype=float); d = phi.ndim
    inp = dict(op='reorder', neworder=[int(t) for t in neworder], shape=list(phi.shape), phi=phi.ravel().tolist(), layout=layout_json(layout))
    view, base = make_view(ctx, phi, layout); base0 = base.copy()
    chk.l3(('reorder_pops', 'layout', layout_tag(layout), d)); chk.stat('l3:layout'); chk.stat('fn:reorder_pops')
    try:
        out = np.asarray(PM.reorder_pops(view, list(neworder)))
    except Exception as e:
        chk.fail('reorder:raises', 'reorder_pops raises %r on a valid permutation of a %s density' % (e, layout_tag(layout)), inp); return
    if out.shape != tuple(phi.shape[n - 1] for n in neworder) or not np.array_equal(out, phi.transpose([n - 1 for n in neworder])):
        chk.fail('reorder:entries', 'reorder_pops(%r) of a %s density: entry of the input at i is not found at j[k] = i[neworder[k]-1]' % (list(neworder), layout_tag(layout)), inp); return
    inv = [list(neworder).index(k + 1) + 1 for k in range(d)]
    back = np.asarray(PM.reorder_pops(out, inv))
    if back.shape != phi.shape or not np.array_equal(back, phi):
        chk.fail('reorder:inverse', 'reordering by %r and then by its inverse %r does not restore phi (%s)' % (list(neworder), inv, layout_tag(layout)), inp)
    if not np.array_equal(base, base0):
        chk.fail('input_modified:reorder_pops', 'reorder_pops modifies its argument', inp)
    if np.shares_memory(out, base):
        chk.stat('note:reorder_pops_returns_a_view_of_its_argument')

def case_split_layout(chk, ctx, xx, phi, layout):
    """phi_1D_to_2D (1-D) / phi_2D_to_3D_split_1, _2 (2-D) on a density AND a grid given as non-contiguous views"""
    PM = ctx['dadi'].PhiManip
    phi = np.asarray(phi, dtype=float); xx = np.asarray(xx, dtype=float)
    view, base = make_view(ctx, phi, layout); base0 = base.copy()
    gview, gbase = make_view(ctx, xx, ('flipped',) if layout[0] == 'flipped' else ('contiguous',) if layout[0] == 'contiguous' else ('strided',)); gbase0 = gbase.copy()
    names = ['phi_1D_to_2D'] if phi.ndim == 1 else ['phi_2D_to_3D_split_1', 'phi_2D_to_3D_split_2']
    for name in names:
        inp = (dict(op='split1', grid=xx.tolist(), phi=phi.tolist()) if phi.ndim == 1 else
               dict(op='split2', which=int(name[-1]), grid=xx.tolist(), shape=list(phi.shape), phi=phi.ravel().tolist()))
        inp['layout'] = layout_json(layout)
        chk.l3((name, 'layout', layout_tag(layout))); chk.stat('l3:layout'); chk.stat('fn:' + name)
        try:
            out = np.asarray(getattr(PM, name)(gview, view))
            ref = np.asarray(getattr(PM, name)(xx.copy(), phi.copy()))
        except Exception as e:
            chk.fail('split_copy:%s:view:raises:%s' % (name, type(e).__name__), '%s raises %r on a %s density' % (name, e, layout_tag(layout)), inp); continue
        if not same_bits(out, ref):
            chk.fail('layout:%s:differs' % name, '%s on a %s density / grid differs from the same call on C-contiguous copies' % (name, layout_tag(layout)), inp)
        if not (np.array_equal(base, base0) and np.array_equal(gbase, gbase0)):
            chk.fail('input_modified:%s' % name, '%s modifies its arguments (%s)' % (name, layout_tag(layout)), inp)
        if np.shares_memory(out, base):
            chk.fail('input_modified:%s:aliased' % name, '%s is documented to return a new array but the result shares memory with the argument' % name, inp)
    # the clauses (copy of the parent, marginal) on contiguous copies of the same numbers are evaluated by case_split1d / case_split2

def spike_cells(rng, shape, dest):
    """point densities: one in the LAST line of every non-destination population (the lines a loop bound taken from the wrong,
    shorter axis never reaches) with the destination away from its last grid point, one anywhere"""
    last = tuple((int(rng.integers(0, max(1, n - 1))) if m == dest else n - 1) for m, n in enumerate(shape))
    return [last, tuple(int(rng.integers(n)) for n in shape)]

def prop_kinds_for(i):
    return ['zero', 'vertex', 'sum1', 'face', 'dyadic', 'tiny'][i % 6]

def round6_cases(chk, ctx, rng, tier):
    names = [n for n, _ in CONSTRUCTORS] + [p[0] for p in PULSES]
    rot = int(rng.integers(0, 5))
    for fi, name in enumerate(names):
        d, dest = SPEC[name]
        ngr = d if dest is not None else d + 1
        layouts = all_layouts(d, rng)
        klay = (0, 1 + (fi + rot) % (len(layouts) - 1))       # quick: K on the array object for the Fortran-order view and one more layout
        for si, shape in enumerate(rect_shapes(d, tier, rot)):
            grids, gk = gen_grids(rng, shape, 'distinct', ngr)
            phi = gen.density(rng, shape)
            fs, _ = gen_props(rng, d - 1, 'interior')
            # the docstring's promise about the argument, and the rectangular shape, on an ordinary array first
            case_layout(chk, ctx, name, fs, grids, phi, ('contiguous',), do_k=(si == 0), kinds=dict(props='interior'))
            if dest is not None:
                case_spike(chk, ctx, name, fs, grids, shape, spike_cells(rng, shape, dest))
            for li, layout in enumerate(layouts):
                case_layout(chk, ctx, name, fs, grids, phi, layout, do_k=(si == 0 and (li in klay or tier != 'quick')), kinds=dict(props='interior'))
                if dest is not None:
                    case_spike(chk, ctx, name, fs, grids, shape, spike_cells(rng, shape, dest), layout=layout)
                if si == 0:
                    # the other clauses on the same layout: identity at 0, a vertex / a face / the far face of the simplex, ..
                    pk = prop_kinds_for(li + rot)
                    f2, _ = gen_props(rng, d - 1, pk)
                    chk.stat('props:' + pk)
                    case_layout(chk, ctx, name, f2, grids, phi, layout, do_k=False, kinds=dict(props=pk))
            if si == 0:
                for pk in ('zero', 'vertex'):
                    f2, _ = gen_props(rng, d - 1, pk)
                    case_layout(chk, ctx, name, f2, grids, phi, layouts[(rot + len(pk)) % len(layouts)], do_k=False, kinds=dict(props=pk))
                fb, bk = gen_bad_props(rng, d - 1)
                case_layout(chk, ctx, name, fb, grids, phi, layouts[rot % len(layouts)], do_k=False, kinds=dict(props='bad:' + bk))
        # one grid for all populations (how dadi itself calls them), cube, every layout
        lo, hi = SIZES[tier][d]
        n = int(rng.integers(max(lo, 3), hi + 1))
        g, _ = gen_grid(rng, n)
        phi = gen.density(rng, (n,) * d)
        fs, _ = gen_props(rng, d - 1, 'interior')
        for layout in layouts:
            case_layout(chk, ctx, name, fs, [g] * ngr, phi, layout, do_k=False, kinds=dict(props='interior'))
        if dest is not None:
            shapes = rect_shapes(d, tier, rot + 1)
            for pi_, neworder in enumerate(perm_layouts(d, rng)):
                case_pulse_reorder(chk, ctx, name, rng, tier, neworder, shapes[pi_ % len(shapes)])
    # remove / filter / reorder / splits
    for d in (1, 2, 3, 4, 5):
        layouts = [('contiguous',)] + all_layouts(d, rng)        # the ordinary array too: "Returns new phi" = the argument is not modified
        for shape in rect_shapes(d, tier, rot):
            grids, _ = gen_grids(rng, shape, 'distinct', d)
            phi = gen.density(rng, shape)
            for layout in layouts:
                case_remove_layout(chk, ctx, grids, phi, layout)
                if d >= 2:
                    case_reorder_layout(chk, ctx, phi, perm_layouts(d, rng)[int(rng.integers(len(perm_layouts(d))))], layout)
        if d >= 2:
            # filter_pops has ONE grid for all removed populations: the kept ones get other extents
            lo, hi = SIZES[tier][d]
            n = int(rng.integers(max(lo, 3), hi + 1)); xx, _ = gen_grid(rng, n)
            for layout in layouts:
                k = int(rng.integers(1, d)); keep = sorted(int(t) + 1 for t in rng.choice(d, size=k, replace=False))
                if rng.random() < 0.5: keep = keep[::-1]
                shape = tuple((n + 1 + a) if (a + 1) in keep else n for a in range(d))
                case_filter_layout(chk, ctx, xx, gen.density(rng, shape), keep, layout)
    for d in (1, 2):
        lo, hi = SIZES[tier][d]
        n = int(rng.integers(max(lo, 4), hi + 1)); xx, _ = gen_grid(rng, n)
        for layout in [('contiguous',)] + all_layouts(d):
            case_split_layout(chk, ctx, xx, gen.density(rng, (n,) * d), layout)

# ------------------------------------------------------------------------------------------ drivers of the check
def gen_case(rng, name, tier, mode=None, pkind=None, bad=False):
    d, dest = SPEC[name]
    lo, hi = SIZES[tier][d]
    if mode is None:
        mode = 'same' if rng.random() < 0.5 else 'distinct'
    ngr = d if dest is not None else d + 1
    if mode == 'same':
        n = int(rng.integers(lo, hi + 1)); shape = (n,) * d
    else:
        shape = tuple(int(rng.integers(lo, hi + 1)) for _ in range(d))
    grids, gk = gen_grids(rng, shape, mode, ngr)
    if bad:
        fs, pk = gen_bad_props(rng, d - 1); pk = 'bad:' + pk
    else:
        fs, pk = gen_props(rng, d - 1, pkind)
    phi = gen.density(rng, shape)
    return fs, grids, phi, dict(props=pk, grids=gk, mode=mode)

def one_round(chk, ctx, rng, tier, do_k=True):
    for name in [n for n, _ in CONSTRUCTORS] + [p[0] for p in PULSES]:
        fs, grids, phi, kinds = gen_case(rng, name, tier, bad=bool(rng.random() < 0.12))
        chk.stat('props:' + kinds['props']); chk.stat('gridkind:' + kinds['grids'].split('/')[0])
        case_fn(chk, ctx, name, fs, grids, phi, do_k=do_k, kinds=kinds)
        if SPEC[name][1] is not None:
            cells = [tuple(int(rng.integers(sh)) for sh in phi.shape) for _ in range(2)]
            case_spike(chk, ctx, name, fs, grids, phi.shape, cells)
        chk.sample(dict(fn=name, fs=fs, shape=list(phi.shape), grids=kinds['mode'], props=kinds['props']), cap=8)

def edge_cases(chk, ctx, rng, tier):
    # every function: proportions 0, a vertex, sum exactly 1, a vector summing above 1, with one grid and with own grids
    for name in [n for n, _ in CONSTRUCTORS] + [p[0] for p in PULSES]:
        d, dest = SPEC[name]
        for pk in ('zero', 'vertex', 'sum1', 'dyadic'):
            fs, grids, phi, kinds = gen_case(rng, name, tier, mode='same' if pk != 'dyadic' else None, pkind=pk)
            chk.stat('props:' + pk)
            case_fn(chk, ctx, name, fs, grids, phi, do_k=(pk in ('zero', 'dyadic')), kinds=kinds)
        fs, grids, phi, kinds = gen_case(rng, name, tier, mode='distinct', pkind='interior')
        case_fn(chk, ctx, name, fs, grids, phi, do_k=True, kinds=kinds)
        for _ in range(2):
            fs, grids, phi, kinds = gen_case(rng, name, tier, mode='same', bad=True)
            chk.stat('props:' + kinds['props'])
            case_fn(chk, ctx, name, fs, grids, phi, do_k=True, kinds=kinds)
        case_accept_roundoff(chk, ctx, name, rng, 60 if tier == 'quick' else 400)
    # the documented example of F-06 style input: every proportion a valid fraction, the sum is not
    g = np.linspace(0, 1, 5)
    case_fn(chk, ctx, 'phi_3D_admix_1_and_3_into_2', [0.75, 0.5], [g, g, g], gen.density(rng, (5, 5, 5)), do_k=True, kinds=dict(props='bad:each_below_one'))
    # dyadic uniform grids and dyadic proportions: mixed frequencies land exactly on grid points, at 0 and at 1
    for name in ('phi_2D_to_3D_admix', 'phi_2D_admix_1_into_2', 'phi_2D_admix_2_into_1', 'phi_3D_admix_1_and_3_into_2', 'phi_3D_to_4D'):
        d, dest = SPEC[name]
        g = np.linspace(0, 1, 5)
        for fs in ([0.5] * (d - 1) if d == 2 else [0.25, 0.25], [1.0] + [0.0] * (d - 2), [0.0] * (d - 2) + [0.5]):
            grids = [g] * (d if dest is not None else d + 1)
            case_fn(chk, ctx, name, fs, grids, gen.density(rng, (5,) * d), do_k=True, kinds=dict(props='ongrid'))
            chk.stat('props:ongrid')

def splits_and_bookkeeping(chk, ctx, rng, tier):
    for _ in range(3 if tier == 'quick' else 10):
        lo, hi = SIZES[tier][1]
        n = int(rng.integers(lo, hi + 1)); xx, _ = gen_grid(rng, n)
        case_split1d(chk, ctx, xx, gen.density(rng, (n,)))
        # the same number of points on differently spaced grids, in the same process: whatever a split function derives from the grid
        # (cell widths) must come from the grid it is given, not from an earlier one of equal length
        for kind in ('uniform', 'random', 'clustered'):
            if n > 2:
                case_split1d(chk, ctx, gen_grid(rng, n, kind)[0], gen.density(rng, (n,)))
        lo, hi = SIZES[tier][2]
        n = int(rng.integers(lo, hi + 1)); xx, _ = gen_grid(rng, n)
        for which in (1, 2):
            case_split2(chk, ctx, which, xx, gen.density(rng, (n, n)))
        if n > 2:
            x2 = gen_grid(rng, n, 'random')[0]
            for which in (1, 2):
                case_split2(chk, ctx, which, x2, gen.density(rng, (n, n)))
        for d in (1, 2, 3, 4, 5):
            lo, hi = SIZES[tier][d]
            n = int(rng.integers(lo, hi + 1)); xx, _ = gen_grid(rng, n)
            phi = gen.density(rng, (n,) * d)
            case_remove(chk, ctx, xx, phi, int(rng.integers(1, d + 1)))
            if d >= 2:
                k = int(rng.integers(1, d)); keep = [int(t) + 1 for t in rng.choice(d, size=k, replace=False)]
                case_filter(chk, ctx, xx, phi, keep)
                shape = tuple(int(rng.integers(2, hi + 1)) for _ in range(d))
                grids, _ = gen_grids(rng, shape, 'distinct', d)
                case_reorder(chk, ctx, gen.density(rng, shape), [int(t) + 1 for t in rng.permutation(d)], grids)
    # rejected arguments
    xx, _ = gen_grid(rng, 4); phi = gen.density(rng, (4, 4, 4))
    for bad in ([1, 2], [1, 2, 2], [0, 1, 2], [1, 2, 4], [1, 2, 3, 4]):
        case_reorder(chk, ctx, phi, bad)
    case_reorder(chk, ctx, phi, [1, 2, 3])
    for keep in ([4], [1, 1], [0]):
        case_filter(chk, ctx, xx, phi, keep)
    case_filter(chk, ctx, xx, phi, [1, 2, 3])
    case_filter(chk, ctx, xx, phi, [])

def round4_cases(chk, ctx, rng, tier):
    names = [n for n, _ in CONSTRUCTORS] + [p[0] for p in PULSES]
    case_rounding(chk, ctx, rng, 40 if tier == 'quick' else 400)
    case_roundoff_corner(chk, ctx, rng, tier)
    for name in names:
        case_float_guard(chk, ctx, name, rng, 10 if tier == 'quick' else 100)
        for _ in range(1 if tier == 'quick' else 6):
            case_pulse_remove(chk, ctx, name, rng, tier)
            case_pulse_twice(chk, ctx, name, rng, tier)
    # total mass of the model against iterated Numerics.trapz, own grid per axis
    for d in (1, 2, 3, 4, 5):
        for _ in range(2 if tier == 'quick' else 8):
            lo, hi = SIZES[tier][d]
            shape = tuple(int(rng.integers(2, hi + 1)) for _ in range(d))
            grids, _ = gen_grids(rng, shape, 'distinct', d)
            case_mass(chk, ctx, gen.density(rng, shape), grids)

def run(chk, ctx):
    tier = ctx['tier'] if ctx['tier'] in SIZES else 'quick'
    rng = common.Rng(ctx['seed'], 'C06')
    chk.rule = ('densities: uniform^3*10 with planted spikes at corners/edges, 1-5 populations, extents %s (quick) / %s (thorough); '
                'grids strictly increasing 0..1: uniform / exponential (dadi-like) / random / dyadic (multiples of 1/16) / clustered near 0 / two-point; '
                'either ONE grid for all populations (how dadi calls these functions) or an OWN grid (and extent) per population; '
                'proportions: Dirichlet interior, all 0, a face (dyadic, one entry 0), a vertex, dyadic with sum exactly 1, multiples of 1/4 on dyadic '
                'grids (mixed frequencies exactly on grid points, at 0 and at 1), tiny (1e-9), generic floats on a face (round-off of re-computed sums), '
                'and non-negative vectors whose exact sum exceeds 1 (by a lot, by 1e-6, by 1/64, every entry < 1); single cells of '
                '_admixture_intermediates with adz inside, on a grid point, 0, 1, 1+ulp, below 0, far above 1, one ulp below a grid point; '
                'round 4: proportion vectors whose exact sum is within one ulp below / above 1, multiples of 0.1, 1/n repeated, passed as Python floats and as '
                'numpy.float64 (different `sum` algorithms); tenths vectors whose float remainder puts the all-fixed corner one ulp above the last grid point; '
                'pulse with one source proportion 0 followed by removal of that source vs removal followed by the lower-dimensional pulse; two pulses in a row; '
                'total mass before/after every call; exact binary64 rounding of random / midpoint rationals; '
                'round 6: every function on densities given as views returned by reorder_pops (Fortran order, rotations, adjacent swaps, one random '
                'permutation), strided (every second entry of a larger array), reversed, Fortran-ordered and C-contiguous arrays, pairwise different '
                'extents per population (two opposite orders) with own grids and cubes with one grid, interior / zero / vertex / face / sum-1 / '
                'above-1 proportions per layout, point densities in the last line of every spectator population; '
                'non-trivial = distinct (function, grid mode, proportion kind, sum>1, sum=1, all zero, memory layout)'
                % (SIZES['quick'], SIZES['thorough']))
    chk.unproved = [
        'floating-point round-off of the ARRAY arithmetic is not modelled: the conservation / mass / mixture theorems are about exact rational arithmetic on the generated formulas (C06_deposit_clamped covers what the clamps do when round-off pushes a mixed frequency past the ends of the grid); the float implementation is compared with the exact model at 1e-9 (K) and the identities are evaluated on the implementation at 1e-11 (L3)',
        'the float proportion guard IS modelled (Gen.Admix.guardsFl, C06_simplex_accept_float / C06_simplex_reject_float) under the stated assumptions RoundNearest / RoundEFT on the rounding operator; that IEEE binary64 round-to-nearest-even satisfies them is not proved in Lean: the model\'s rndDouble and its two `sum` algorithms are compared exactly with the machine (K: rndDouble, builtin_sum, float_guard)',
        'numpy fancy indexing / broadcasting of the 17 functions: translated (T) are the loop nest, scratch allocation, row index, fill order and operators, trapz axis, write-back axis (Gen.Admix.loopRows, consumed by the model, C06_loops / C06_loops_apply), the per-cell program, coefficient vectors, guards, grid arguments, Numerics.trapz summand, phi_1D_to_2D diagonal; that numpy executes these statements as the model reads them is tied by correspondence (K)',
        'numpy.searchsorted is modelled as "first index whose entry is >= v" (side=left; side=right is translated too); unsorted grids are outside the domain',
        'memory layouts (round 6): the model reads and writes the argument through `View.addr` = offset + Σ index·stride; that numpy\'s basic indexing `phi[i, j, :] = line` addresses memory that way for every layout, and that what the source does to its argument is what Gen.Admix.memRows records (aliases through calls of other functions are not followed), is tied by correspondence (K: fnview compares the whole memory after the call) and by the L3 comparison with the call on a C-contiguous copy; views whose entries overlap in memory (stride 0) are outside the domain',
        'filter_pops: C06_filter proves that the iteration over sorted(toremove)[::-1] marginalises exactly the complement of tokeep (its specification margMask is recursive); that the source is that iteration is a structure flag of the translator plus K/L3',
    ]
    ctx['chk'] = chk
    edge_cases(chk, ctx, rng, tier)
    splits_and_bookkeeping(chk, ctx, rng, tier)
    round4_cases(chk, ctx, rng, tier)
    round6_cases(chk, ctx, rng, tier)
    for rep in range(4 if tier == 'quick' else 20):
        case_cells(chk, ctx, rng, 24)
    for rep in range(4 if tier == 'quick' else 150):
        one_round(chk, ctx, rng, tier, do_k=True)
    for rep in range(15 if tier == 'quick' else 600):
        one_round(chk, ctx, rng, tier, do_k=False)
    for f in chk.failures:
        chk.stat('failing:' + f['key'])

def replay(chk, ctx, data):
    inp = data.get('input') or {}
    op = inp.get('op')
    ctx['chk'] = chk
    key = str(data.get('key', ''))
    lay = inp.get('layout')
    if lay is not None:
        lay = tuple([lay[0]] + [list(x) for x in lay[1:]])
    if op == 'fn' and (key.startswith('pulse_remove_comm') or key.startswith('pulse_reorder_comm') or key.endswith(':twice')):
        run(chk, ctx)
    elif op == 'fn' and lay is not None:
        phi = np.array(inp['phi'], dtype=float).reshape(inp['shape'])
        grids = [np.array(g, dtype=float) for g in inp['grids']]
        case_layout(chk, ctx, inp['fn'], inp['fs'], grids, phi, lay, do_k=True)
        nzc = np.argwhere(phi != 0)
        if SPEC[inp['fn']][1] is not None and len(nzc) == 1:
            case_spike(chk, ctx, inp['fn'], inp['fs'], grids, phi.shape, [tuple(int(c) for c in nzc[0])], layout=lay)
    elif op in ('remove', 'filter', 'reorder', 'split1', 'split2') and lay is not None:
        phi = np.array(inp['phi'], dtype=float).reshape(inp.get('shape', [len(inp['phi'])]))
        if op == 'remove':
            run(chk, ctx)           # needs the grids of all populations
        elif op == 'filter':
            case_filter_layout(chk, ctx, inp['grid'], phi, inp['tokeep'], lay)
        elif op == 'reorder':
            case_reorder_layout(chk, ctx, phi, inp['neworder'], lay)
        else:
            case_split_layout(chk, ctx, inp['grid'], phi, lay)
    elif op == 'fn':
        phi = np.array(inp['phi'], dtype=float).reshape(inp['shape'])
        kinds = dict(props='roundoff') if str(data.get('key', '')).endswith(':roundoff') else None
        grids = [np.array(g, dtype=float) for g in inp['grids']]
        case_fn(chk, ctx, inp['fn'], inp['fs'], grids, phi, do_k=True, kinds=kinds)
        nzc = np.argwhere(phi != 0)
        if SPEC[inp['fn']][1] is not None and len(nzc) == 1:
            case_spike(chk, ctx, inp['fn'], inp['fs'], grids, phi.shape, [tuple(int(c) for c in nzc[0])])
    elif op == 'split1':
        case_split1d(chk, ctx, inp['grid'], inp['phi'])
    elif op == 'split2':
        case_split2(chk, ctx, inp['which'], inp['grid'], np.array(inp['phi'], dtype=float).reshape(inp['shape']))
    elif op == 'remove':
        case_remove(chk, ctx, inp['grid'], np.array(inp['phi'], dtype=float).reshape(inp['shape']), inp['popnum'])
    elif op == 'filter':
        case_filter(chk, ctx, inp['grid'], np.array(inp['phi'], dtype=float).reshape(inp['shape']), inp['tokeep'])
    elif op == 'reorder':
        case_reorder(chk, ctx, np.array(inp['phi'], dtype=float).reshape(inp['shape']), inp['neworder'])
    elif op == 'floatguard':
        case_float_guard_one(chk, ctx, inp['fn'], inp.get('kind', 'replay'), [float(x) for x in inp['fs']])
    elif op == 'mass':
        case_mass(chk, ctx, np.array(inp['phi'], dtype=float).reshape(inp['shape']), [np.array(g, dtype=float) for g in inp['grids']])
    elif op == 'cell':
        run(chk, ctx)
    else:
        run(chk, ctx)
